"""C19 -- equivalent spellings assemble identically: case folding of
case-insensitively lexed token classes, number normalisation agreement between
sibling productions, totality of keyword classification."""
import ast

from ..core import AnalysisError, where, norm
from ..shapes import u
from ..srcmodel import parent

GRAMMARS = [('parse_ad', 'intel'), ('ia32_att', 'att')]


def productions(fn):
    """Parse a PLY action docstring: list of alternatives, each a list of symbols (index 1..n)."""
    doc = ast.get_docstring(fn, clean=False)
    if not doc or ':' not in doc:
        return None
    head, rest = doc.split(':', 1)
    alts = []
    for alt in rest.split('|'):
        syms = alt.split()
        # drop %prec X
        if '%prec' in syms:
            syms = syms[:syms.index('%prec')]
        alts.append(syms)
    return head.strip(), alts


def ci_token_classes(mod, afs=None):
    """Token types t_NAME assigns, found by executing t_NAME (consteval) on words of every table it consults, each in lower, upper and mixed case.
    Returns (types assigned whatever the case -- '<KEYWORDS>' standing for the keyword types --, [(type, spelling) classified in one case only])."""
    from ..consteval import Evaluator, Obj, NotConst, PyRaise, module_env
    fn = mod.func('t_NAME')
    env, _sk = module_env(mod, {'x86_afs': afs} if afs is not None else {})
    tables = {}
    for nm in ('keywords', 'segments', 'registers'):
        v = env.get(nm)
        if isinstance(v, (list, tuple, dict, set)):
            tables[nm] = [w for w in v if isinstance(w, str)]
    if not tables:
        raise AnalysisError('%s: none of the tables keywords / segments / registers is evaluable' % mod.name)

    def classify(word):
        t = Obj('t')
        t.value, t.type = word, 'NAME'
        lexer = Obj('lexer')
        lexer.lineno = 1
        t.lexer = lexer
        scope = dict(env)
        for fname_, fnode_ in mod.funcs.items():
            scope.setdefault(fname_, fnode_)
        try:
            Evaluator(scope).call_user(fn, [t])
        except (NotConst, PyRaise) as e:
            raise AnalysisError('%s.t_NAME is outside the evaluable subset on %r: %s' % (mod.name, word, e))
        return t.type
    # words the function compares with directly (t.value.lower() == 'st')
    lits = sorted(set(c.value for n in ast.walk(fn) if isinstance(n, ast.Compare) for c in ast.walk(n) if isinstance(c, ast.Constant) and isinstance(c.value, str) and c.value.isalnum()))
    if lits:
        tables['~literals'] = lits
    classes, raw = set(), []
    for nm, words in sorted(tables.items()):
        for w in sorted(words)[:6] + sorted(words)[-3:]:
            lo, up = w.lower(), w.upper()
            mixed = lo[:1].upper() + lo[1:] if len(lo) > 1 else up
            got = dict((sp, classify(sp)) for sp in (lo, up, mixed))
            types = set(got.values())
            if types == {'NAME'}:
                continue
            if len(types) == 1:
                ty = types.pop()
                classes.add('<KEYWORDS>' if nm == 'keywords' and ty == up else ty)
            else:
                ref_ty = got[lo]
                for sp, ty in sorted(got.items()):
                    if ty != ref_ty:
                        raw.append((ref_ty if ref_ty != 'NAME' else ty, 'the spelling %r is classified %s, %r is %s' % (sp, ty, lo, ref_ty)))
    return classes, sorted(set(raw))


def folded_use(node):
    """node is `t[i]`; True if it is the receiver of .lower()/.upper()."""
    p = parent(node)
    if isinstance(p, ast.Attribute) and p.attr in ('lower', 'upper') and isinstance(parent(p), ast.Call):
        return True
    return False


def key_like_use(node):
    """How a raw `t[i]` is used: 'key' (subscript index / dict key), 'index' (arg of .index()),
    'concat' (string concatenation / formatting), 'symbol' (key of a symbol dict: legitimately
    case-sensitive), 'eq' (comparison with a literal), or None."""
    p = parent(node)
    if isinstance(p, ast.Subscript) and p.slice is node:
        return 'key'
    if isinstance(p, ast.Dict) and node in p.keys:
        gp = parent(p)
        if isinstance(gp, ast.Dict):
            for k, v in zip(gp.keys, gp.values):
                if v is p and k is not None and u(k).endswith('symb'):
                    return 'symbol'
        return 'key'
    if isinstance(p, ast.Call) and isinstance(p.func, ast.Attribute) and p.func.attr == 'index' and node in p.args:
        return 'index'
    if isinstance(p, ast.BinOp) and isinstance(p.op, (ast.Add, ast.Mod)):
        return 'concat'
    if isinstance(p, (ast.Tuple, ast.List)):
        gp = parent(p)
        # "%s%d" % (t[2], t[4]) / "".join([t[1], ..]) / "{}{}".format(*[..])
        if isinstance(gp, ast.BinOp) and isinstance(gp.op, ast.Mod) and gp.right is p:
            return 'concat'
        if isinstance(gp, ast.Call) and isinstance(gp.func, ast.Attribute) and gp.func.attr in ('join', 'format'):
            return 'concat'
    if isinstance(p, ast.Call) and isinstance(p.func, ast.Attribute) and p.func.attr == 'format' and node in p.args:
        return 'concat'
    if isinstance(p, ast.Compare):
        return 'eq'
    if isinstance(p, ast.JoinedStr) or isinstance(p, ast.FormattedValue):
        return 'concat'
    return None


def run(ctx, report):
    report.explanation = (
        'D1: in both PLY grammars (parse_ad, ia32_att) every action that receives a token of a class the lexer classifies '
        'case-insensitively (REGISTER, SEGMENT, ST, size keywords) folds it (.lower()/.upper()) before using it as dict key, '
        'list.index argument or in a concatenation that becomes one; symbol names are exempt. D2: every Intel production that turns a '
        'NUMBER into an immediate/displacement applies the same 32-bit wrap int(int32(uint32(..))); hexadecimal prefixes 0x/0X are both '
        'accepted. D3: t_NAME classifies keywords, segments and registers on folded text and the tokens tuple declares every type it assigns.')
    report.not_decided = ('white space, order of terms inside brackets, disp[reg] forms (behaviour of the LALR tables and of the term algebra '
                          'at run time); the AT&T immediate wrap by operand width is decided under C02.D1.')

    R1 = report.rule('C19.D1', 'case-insensitive tokens are folded before use as keys', floor=12)
    R2 = report.rule('C19.D2', 'number normalisation agrees across sibling productions', floor=6)
    R3 = report.rule('C19.D3', 'keyword/register classification is case-insensitive and total', floor=4)
    n_actions = 0
    for mname, gname in GRAMMARS:
        mod = ctx.mod(mname)
        from ..x86table import model as _x86m
        ci, raw = ci_token_classes(mod, _x86m(ctx).afs)
        kw = []
        if '<KEYWORDS>' in ci:
            from ..consteval import Evaluator
            try:
                kw = list(Evaluator({}).ev(mod.assign_value('keywords')))
            except Exception as e:
                raise AnalysisError('%s.keywords not evaluable: %s' % (mname, e))
        ci_all = set(c for c in ci if c != '<KEYWORDS>') | set(kw)
        for tname, test in raw:
            R3.violation('%s.t_NAME[%s]' % (mname, tname), '%s.t_NAME:%s' % (mname, tname),
                         'token class %s is assigned under a case-sensitive test (%s)' % (tname, test), where(mod, mod.func('t_NAME')))
        # tokens tuple contains every assigned type
        try:
            from ..consteval import Evaluator
            env = {}
            if kw:
                env['keywords'] = tuple(kw)
            toks = set(Evaluator(env).ev(mod.assign_value('tokens')))
        except Exception as e:
            raise AnalysisError('%s.tokens not evaluable: %s' % (mname, e))
        for c in sorted(ci_all):
            if c in toks:
                R3.ok('%s.tokens[%s]' % (mname, c), sample='%s: token %s declared and classified on folded text' % (mname, c))
            else:
                R3.violation('%s.tokens[%s]' % (mname, c), '%s.tokens:%s' % (mname, c), 'token type %s assigned by t_NAME is not in tokens' % c,
                             where(mod, mod.func('t_NAME')))
        # t_NUMBER accepts both 0x and 0X
        tn = mod.func('t_NUMBER')
        txt = u(tn)
        doc = ast.get_docstring(tn) or ''
        if "startswith('0x')" in txt and "startswith('0X')" in txt and '(0x)|(0X)' in doc:
            R2.ok('%s.t_NUMBER' % mname, sample='%s.t_NUMBER: 0x and 0X both parsed base 16' % mname)
        else:
            R2.violation('%s.t_NUMBER' % mname, '%s.t_NUMBER:hex' % mname, 't_NUMBER does not treat 0x and 0X alike', where(mod, tn))

        for fname, fn in sorted(mod.funcs.items()):
            if not fname.startswith('p_') or fname == 'p_error':
                continue
            pr = productions(fn)
            if pr is None:
                raise AnalysisError('%s.%s has no grammar docstring' % (mname, fname))
            n_actions += 1
            head, alts = pr
            tparam = fn.args.args[0].arg
            # positions holding a case-insensitive token in some alternative
            ci_pos = {}
            num_pos = set()
            for alt in alts:
                for i, s in enumerate(alt, 1):
                    if s in ci_all:
                        ci_pos.setdefault(i, set()).add(s)
                    if s == 'NUMBER':
                        num_pos.add(i)
            # p_symbol_0 in the Intel grammar appends keywords to its docstring at import time
            for n in ast.walk(fn):
                if not (isinstance(n, ast.Subscript) and isinstance(n.value, ast.Name) and n.value.id == tparam
                        and isinstance(n.slice, ast.Constant) and isinstance(n.slice.value, int)):
                    continue
                i = n.slice.value
                if isinstance(n.ctx, ast.Store) or i == 0:
                    continue
                if i in ci_pos:
                    inst = '%s.%s:t[%d]:%s' % (mname, fname, i, '/'.join(sorted(ci_pos[i])))
                    if folded_use(n):
                        R1.ok(inst, sample='%s folded: %s' % (inst, norm(parent(parent(n)))))
                        continue
                    use = key_like_use(n)
                    st = n
                    while not isinstance(st, ast.stmt):
                        st = parent(st)
                    if use in ('key', 'index', 'concat'):
                        R1.violation(inst, '%s.%s:%s' % (mname, fname, norm(st)),
                                     '%s token t[%d] is used unfolded as %s in %s: %s' % ('/'.join(sorted(ci_pos[i])), i, use, fname, norm(st)),
                                     where(mod, n))
                    elif use == 'symbol':
                        R1.ok(inst + ':symbol', nontrivial=False)
                    else:
                        R1.ok(inst + ':passthrough', nontrivial=False)
                if i in num_pos and gname == 'intel':
                    # NUMBER used as a value stored under imm must be wrapped
                    st = n
                    while not isinstance(st, ast.stmt):
                        st = parent(st)
                    stxt = u(st)
                    if 'x86_afs.imm' in stxt:
                        inst = '%s.%s:NUMBER t[%d]' % (mname, fname, i)
                        def wrapped_by_helper():
                            # NUMBER handed to a module-level helper that applies the wrap to its parameter
                            for c_ in ast.walk(st):
                                if isinstance(c_, ast.Call) and isinstance(c_.func, ast.Name) and c_.func.id in mod.funcs and len(c_.args) == 1 \
                                        and u(c_.args[0]) == '%s[%d]' % (tparam, i):
                                    h_ = mod.funcs[c_.func.id]
                                    if len(h_.args.args) == 1:
                                        hp_ = h_.args.args[0].arg
                                        if any(isinstance(r_, ast.Return) and r_.value is not None and 'int32(uint32(int(%s)))' % hp_ in u(r_.value) for r_ in ast.walk(h_)):
                                            return True
                            return False
                        if 'int32(uint32(int(%s[%d])))' % (tparam, i) in stxt or wrapped_by_helper():
                            R2.ok(inst, sample='%s: %s' % (inst, stxt))
                        else:
                            R2.violation(inst, '%s.%s:%s' % (mname, fname, stxt),
                                         'NUMBER becomes an immediate without the 32-bit wrap its sibling productions apply: %s' % stxt, where(mod, n))
    report.analysed['grammar_actions'] = n_actions
    if n_actions < 55:
        raise AnalysisError('only %d grammar actions found (floor 55)' % n_actions)

    # D2 (evaluated): the displacement written before the brackets is added with the sign it is written with
    disp_outside_rule(ctx, R2)

    R3 = report.rule('C19.D3', 'both operand grammars give base+index*scale the same meaning when base and index coincide', floor=1)
    from .c02 import accumulate_rule
    accumulate_rule(R3, ctx.mod('ia32_att'), ctx.mod('parse_ad'))

    # ------------------------------------------------------------ D4 Intel <-> AT&T transliteration
    R4 = report.rule('C19.D4', 'both parsers give a shared register name the same operand size; every condition-code alias is read back from AT&T as itself', floor=80)
    from .c03 import lexicon
    from ..archinterp import arch_interp
    from ..lifter import LiftError, LiftUnknown
    X, I = arch_interp(ctx)
    afs = X.afs
    pa, pregs, psegs = lexicon(ctx, 'parse_ad', afs)
    att, aregs, asegs = lexicon(ctx, 'ia32_att', afs)
    # which table the operand production reads: `registers[reg]` in both grammars
    for name in sorted(n for n in set(aregs) & (set(pregs) | set(psegs)) if isinstance(n, str)):
        isz = pregs.get(name, psegs.get(name))
        if aregs[name] == isz:
            R4.ok('size:%s' % name, sample='%%%s and %s: %s' % (name, name, isz))
        else:
            R4.violation('size:%s' % name, 'lexicon-size:%s' % name, 'register %s gets operand size %s from the AT&T lexicon and %s from the Intel lexicon'
                         % (name, aregs[name], isz), where(att, att.assigns['registers'][-1]) if 'registers' in att.assigns else '',
                         witness="asm_att('movl %%eax, %%%s') vs asm('mov %s, eax')" % (name, name))
    fa = I.g.get('mnemo_from_att')
    if fa is None:
        raise AnalysisError('mnemo_from_att not found')

    def reg(n, sz):
        return {afs.ad: False, afs.size: sz, n: 1}
    n_cc = 0
    for name in sorted(n for n in X.lookup if isinstance(n, str)):
        if name.startswith('cmov'):
            variants = [(name, afs.u32), (name + 'l', afs.u32), (name + 'w', afs.u16)]
            args = lambda sz: [reg(1, sz), reg(2, sz)]
        elif name.startswith('set'):
            variants = [(name, afs.u08)]
            args = lambda sz: [reg(1, sz)]
        else:
            continue
        n_cc += 1
        for spelled, sz in variants:
            try:
                r = I.run(fa, [[], spelled, args(sz), 'att_syntax'])
            except LiftUnknown as e:
                raise AnalysisError('mnemo_from_att outside the modelled subset on %r: %s' % (spelled, e))
            res = r[0][1]
            got = res.exc if isinstance(res, LiftError) else (res[1] if isinstance(res, tuple) else res)
            if got == name:
                R4.ok('cc:%s' % spelled, sample='AT&T %s -> %s' % (spelled, got))
            else:
                R4.violation('cc:%s' % spelled, 'cc-alias:%s->%s' % (spelled, got), 'AT&T mnemonic %r (Intel %r, which the Intel assembler accepts) is read as %r'
                             % (spelled, name, got), where(X.arch, fa.node), witness="asm_att('%s %%ebx, %%eax') vs asm('%s eax, ebx')" % (spelled, name))
    if n_cc < 40:
        raise AnalysisError('only %d cmov/set aliases found in the opcode table' % n_cc)
    # the marks the AT&T grammar puts on a memory operand (x86_afs.ad: True, or a size token when a segment / '*' prefix is present) must all be
    # recognised by the function that gives the operand the size of the mnemonic suffix
    from ..consteval import Evaluator as _Ev, NotConst as _NC
    marks = []
    for fname, fn in sorted(att.funcs.items()):
        if not fname.startswith('p_argument'):
            continue
        for n in ast.walk(fn):
            if isinstance(n, ast.Assign) and isinstance(n.targets[0], ast.Subscript) and u(n.targets[0].slice) == 'x86_afs.ad':
                marks.append((fname, n.value))
            if isinstance(n, ast.Dict):
                for k, v in zip(n.keys, n.values):
                    if k is not None and u(k) == 'x86_afs.ad':
                        marks.append((fname, v))
    if len(marks) < 2:
        raise AnalysisError('the AT&T grammar actions that mark memory operands (x86_afs.ad) were not found')
    setsize = X.arch.func('mnemo_from_att_set_size')
    for fname, vnode in marks:
        try:
            mark = _Ev({'x86_afs': afs}).ev(vnode)
        except _NC as e:
            raise AnalysisError('%s: memory mark not evaluable: %s' % (fname, e))
        if mark is False:
            continue
        inst = 'memory mark %r (%s)' % (mark, fname)
        for size in (afs.u08, afs.u16):
            operand = {afs.ad: mark, afs.size: afs.u32, 0: 1}
            try:
                _Ev({'x86_afs': afs}).call_user(setsize, [size, [operand]])
            except _NC as e:
                raise AnalysisError('mnemo_from_att_set_size is outside the statically evaluable subset: %s' % e)
            if operand.get(afs.size) != size or operand.get(afs.ad) != size:
                R4.violation(inst, 'att-mem-mark:%r' % (mark,), 'the AT&T grammar (%s) marks a memory operand with ad = %r, which mnemo_from_att_set_size does not treat as memory: the size of the '
                             'mnemonic suffix (%s) is not applied, the operand stays 32-bit' % (fname, mark, size), where(X.arch, setsize),
                             witness="asm_att('incw %gs:20') assembles a 32-bit inc; asm('inc WORD PTR gs:[20]') a 16-bit one")
                break
        else:
            R4.ok(inst, sample='ad = %r is given the suffix size' % (mark,))


    # ---------------------------------------------------------------- D5 parser-specific operand keys do not change the encoding
    R5 = report.rule('C19.D5', 'the operand-size detection gives the same mode for the operands of the Intel and of the AT&T parser (register operands of the latter carry a txt memo)', floor=12)
    from .c02 import fixed_reg_mode_rule
    fixed_reg_mode_rule(ctx, R5)

    R6 = report.rule('C19.D6', 'every assembler entry point types the immediates with the operand size before candidates are selected', floor=2)
    imm_typing_rule(ctx, R6)

    R7 = report.rule('C19.D7', 'the rendering memo `txt` an operand carries after a sum or an AT&T register never decides a candidate', floor=2)
    txt_memo_rule(ctx, R7)

    R8 = report.rule('C19.D8', 'an immediate beside an UNSIZED memory operand ([ebx] without a size keyword: size mark True) is typed by the size of the register operand, as the same line '
                     'written with WORD PTR / BYTE PTR or in AT&T syntax with a suffix is (arg_set_numpy_imm evaluated on the operand lists both parsers deliver)', floor=8)
    from .c09 import numpy_imm_eval
    from ..x86table import model as _x86model
    afs8 = _x86model(ctx).afs
    asn8 = ctx.mod('ia32_arch').method('x86_mn', 'arg_set_numpy_imm')

    def reg8(size, **kw):
        d = {0: 1, afs8.size: size, afs8.ad: False}
        d.update(kw)
        return d
    mem_unsized = {3: 1, afs8.size: True, afs8.ad: True}
    mem_att = {3: 1, afs8.size: True, afs8.ad: True, 'txt': 'ebx'}

    def imm8(v):
        return {afs8.imm: v, afs8.ad: False, afs8.size: afs8.u32}
    cases8 = [('imul ax, [ebx], -2', [reg8(afs8.u16), dict(mem_unsized), imm8(-2)], afs8.u16), ('imul ax, [ebx], 0xFFFE', [reg8(afs8.u16), dict(mem_unsized), imm8(0xFFFE)], afs8.u16),
              ('shld [ebx], ax, 3', [dict(mem_unsized), reg8(afs8.u16), imm8(3)], afs8.u16), ('op al, [ebx], 1', [reg8(afs8.u08), dict(mem_unsized), imm8(1)], afs8.u08),
              ('imul eax, [ebx], -2', [reg8(afs8.u32), dict(mem_unsized), imm8(-2)], afs8.u32), ('mov [ebx], 5 (no size anywhere)', [dict(mem_unsized), imm8(5)], afs8.u32),
              ('imulw $-2, (%ebx), %ax (AT&T operands)', [reg8(afs8.u16, txt='ax'), dict(mem_att), imm8(-2)], afs8.u16),
              ('imul ax, WORD PTR [ebx], -2', [reg8(afs8.u16), {3: 1, afs8.size: afs8.u16, afs8.ad: afs8.u16}, imm8(-2)], afs8.u16)]
    for label, args8, want in cases8:
        try:
            out8 = numpy_imm_eval(ctx, args8)
        except NotConst as e:
            raise AnalysisError('arg_set_numpy_imm is outside the evaluable subset on %s: %s' % (label, e))
        imm_ = [x_[afs8.imm] for x_ in out8 if afs8.imm in x_][0]
        inst = 'imm-type:%s' % label
        if isinstance(imm_, tuple) and imm_[0] == 'TYPED' and imm_[1] == want:
            R8.ok(inst, sample='%s: immediate typed %s' % (label, want))
        else:
            R8.violation(inst, 'imm-type-unsized:%s' % label.split('(')[0].strip(), '%s: the immediate is typed %s although the register operand makes the operand size %s: -2 and 0xFFFE then select '
                         'different candidates' % (label, imm_[1] if isinstance(imm_, tuple) else type(imm_).__name__, want), where(ctx.mod('ia32_arch'), asn8),
                         witness="asm('imul ax, [ebx], -2') and asm('imul ax, [ebx], 0xFFFE') are disjoint")

    R9 = report.rule('C19.D9', 'AT&T test / xchg with the memory operand written first assemble like their Intel transliteration: mnemo_from_att, evaluated on the operand lists the AT&T '
                     'parser delivers, hands the caller\'s list back with the memory operand first', floor=8)
    from .c09 import liberal_swap_rule
    liberal_swap_rule(ctx, R9)

    R10 = report.rule('C19.D10', 'two spellings of one operand are parsed independently of what was parsed before: the operand parsers keep no cached operand that a caller completes in '
                      'place (shared with C12.D7)', floor=100)
    from .c12 import shared_table_rule
    shared_table_rule(R10, [ctx.mod('ia32_arch'), ctx.mod('parse_ad'), ctx.mod('ia32_att')])

    R12 = report.rule('C19.D12', 'subtraction groups to the left in both operand grammars: an ambiguous `E : E - E` production has a left-associative precedence entry shared with +, a '
                      'stratified one recurses on the left (the order of the terms inside a memory operand does not change what it denotes)', floor=3)
    associativity_rule(R12, [ctx.mod('parse_ad'), ctx.mod('ia32_att')])
    R11 = report.rule('C19.D11', 'the Intel `SIZE PTR seg:[formula]` action evaluated on every segment x address shape, including the same two unscaled registers written in both orders '
                      'and the displacement written first or last: size and segment override survive in every spelling (shared with C03.D3)', floor=100)
    from .c03 import ptrformula_rule
    from ..x86table import model as _x86model11
    ptrformula_rule(ctx, R11, _x86model11(ctx))


def imm_typing_rule(ctx, R):
    """check_imm_size offers the sign-extended imm8 form of a 16-bit operand only to an immediate that carries its width (imm.size == 16, which
    arg_set_numpy_imm gives it): an entry point that reaches asm_candidates without that step assembles `add ax, 0xffff` and `add ax, -1` differently
    (and cannot reproduce the canonical 66 83 /r ib).  Rule: in every method of x86_mn that calls asm_candidates, a call of arg_set_numpy_imm on the
    parsed operands precedes it in source order, outside any branch."""
    arch = ctx.mod('ia32_arch')
    cis = arch.func('check_imm_size')
    depends = any(isinstance(n, ast.Call) and u(n.func) == 'getattr' and len(n.args) >= 2 and isinstance(n.args[1], ast.Constant) and n.args[1].value == 'size'
                  for n in ast.walk(cis))
    meths = arch.methods('x86_mn')
    if 'arg_set_numpy_imm' not in meths:
        raise AnalysisError('x86_mn.arg_set_numpy_imm not found')

    def sequence(fn, depth=0, seen=()):
        """callee names in source order; calls of methods of the class (self.m / x86_mn.m / instr.m) are followed two levels deep"""
        out = []
        for st in fn.body:
            for c in sorted((c for c in ast.walk(st) if isinstance(c, ast.Call) and isinstance(c.func, ast.Attribute)), key=lambda c: (c.lineno, c.col_offset)):
                nm = c.func.attr
                out.append(nm)
                if nm in meths and nm not in ('arg_set_numpy_imm', 'asm_candidates') and depth < 2 and nm not in seen:
                    out += sequence(meths[nm], depth + 1, seen + (nm,))
        return out
    n_entry = 0
    ac = meths.get('asm_candidates')
    typed_inside = ac is not None and 'arg_set_numpy_imm' in sequence(ac)[:3]
    for name, fn in sorted(meths.items()):
        direct = [c for st in fn.body for c in ast.walk(st) if isinstance(c, ast.Call) and isinstance(c.func, ast.Attribute) and c.func.attr == 'asm_candidates']
        if not direct:
            continue
        n_entry += 1
        seq = sequence(fn)
        first = seq.index('asm_candidates')
        inst = 'x86_mn.%s -> asm_candidates' % name
        if 'arg_set_numpy_imm' in seq[:first] or typed_inside or not depends:
            R.ok(inst, sample='%s: arg_set_numpy_imm precedes asm_candidates' % name)
        else:
            R.violation(inst, 'untyped-immediates:%s' % name, '%s passes the parsed operands to asm_candidates without arg_set_numpy_imm: check_imm_size gives the sign-extended imm8 '
                        'form of a 16-bit operand only to immediates that carry their width, so a value spelled 0xffff and the same value spelled -1 get different candidates'
                        % name, where(arch, fn), witness="x86_mn.asm('add ax, 0xffff') lacks 66 83 c0 ff, which x86_mn.asm('add ax, -1') and the AT&T entry point return")
    if n_entry < 2:
        raise AnalysisError('fewer than two entry points call asm_candidates (%d)' % n_entry)


def txt_memo_rule(ctx, R):
    """dict_add (Intel `[foo+4]`, `[4+4]`) and the AT&T register productions leave a `txt` entry in the operand; `foo[4]` / dict_sub do not.  A key
    whitelist over an operand that does not list 'txt', or a comparison of the whole operand with a pattern while it still carries the memo, makes the
    candidate set depend on the spelling.  Sites: the assembler's methods and the module-level predicates they call."""
    arch = ctx.mod('ia32_arch')
    meths = arch.methods('x86_mn')
    roots = [meths[n] for n in ('asm_candidates', 'normalize_args') if n in meths]
    if len(roots) < 2:
        raise AnalysisError('asm_candidates / normalize_args not found')
    called = set()
    for f in roots:
        for n in ast.walk(f):
            if isinstance(n, ast.Call) and isinstance(n.func, ast.Name) and n.func.id in arch.funcs:
                called.add(n.func.id)
    fns = roots + [arch.funcs[n] for n in sorted(called)]
    produces = any("['txt']" in u(n) for n in ast.walk(ctx.mod('parse_ad').func('dict_add')) if isinstance(n, ast.Assign))
    if not produces:
        R.note('dict_add no longer leaves a txt memo')
    for f in fns:
        for n in ast.walk(f):
            # (a) key whitelists
            if isinstance(n, ast.For) and isinstance(n.target, ast.Name):
                for st in n.body:
                    if isinstance(st, ast.If) and isinstance(st.test, ast.UnaryOp) and isinstance(st.test.op, ast.Not) and isinstance(st.test.operand, ast.Compare) \
                            and isinstance(st.test.operand.ops[0], ast.In) and u(st.test.operand.left) == n.target.id and isinstance(st.test.operand.comparators[0], ast.List):
                        elts = st.test.operand.comparators[0].elts
                        if not any(u(e).startswith('x86_afs.') for e in elts):
                            continue
                        inst = '%s: key whitelist over %s' % (f.name, u(n.iter))
                        if any(isinstance(e, ast.Constant) and e.value == 'txt' for e in elts):
                            R.ok(inst, sample='%s: the whitelist [%s] lists txt' % (f.name, ', '.join(u(e) for e in elts)))
                        else:
                            R.violation(inst, 'txt-memo:whitelist:%s:%s' % (f.name, u(n.iter)), '%s accepts the operand %s only when its keys are among [%s]: an operand written as a sum '
                                        '([foo+4], [4+4]) carries the memo `txt` and is refused, the same operand written foo[4] / [8] is accepted'
                                        % (f.name, u(n.iter), ', '.join(u(e) for e in elts)), where(arch, st), witness="asm('mov eax, DWORD PTR [foo+4]') lacks a1 04 00 00 00, which 'DWORD PTR foo[4]' gives")
            # (b) whole-operand comparisons
            if isinstance(n, ast.Compare) and len(n.ops) == 1 and isinstance(n.ops[0], (ast.Eq, ast.NotEq)):
                sides = [n.left, n.comparators[0]]
                ops_ = [x for x in sides if isinstance(x, ast.Subscript) and isinstance(x.value, ast.Name) and x.value.id in ('args_sample', 'args')
                        and not isinstance(x.slice, ast.Slice)]
                other = [x for x in sides if x not in ops_]
                if len(ops_) != 1 or not other or not (isinstance(other[0], ast.Dict) or (isinstance(other[0], ast.Name) and other[0].id.startswith(('dib', 'r_')))):
                    continue
                opx = u(ops_[0])
                blk = parent(n)
                while blk is not None and not isinstance(blk, ast.stmt):
                    blk = parent(blk)
                holder = parent(blk)
                popped = False
                for fld in ('body', 'orelse'):
                    seq = getattr(holder, fld, None)
                    if isinstance(seq, list) and blk in seq:
                        for st in seq[:seq.index(blk)]:
                            if ("%s.pop('txt'" % opx) in u(st):
                                popped = True
                inst = '%s: %s compared with %s' % (f.name, opx, u(other[0]))
                if popped:
                    R.ok(inst, sample='%s: the memo is dropped before %s' % (f.name, u(n)))
                else:
                    R.violation(inst, 'txt-memo:compare:%s:%s' % (f.name, opx), '%s compares the whole operand %s with a pattern while it may still carry the memo `txt` (AT&T registers do)'
                                % (f.name, opx), where(arch, n))


def disp_outside_rule(ctx, R):
    """`N[expr]`, `-N[expr]`, `N+sym[expr]`, `-N+sym[expr]` (gcc -masm=intel spellings): the grammar actions are evaluated on a synthetic
    parse (number 8, expression eax+5, symbol foo) and the resulting operand compared with [eax+5 (+foo) +/- 8]."""
    from ..consteval import Evaluator, NotConst, Native, PyRaise
    from ..x86table import model as x86model
    afs = x86model(ctx).afs
    mod = ctx.mod('parse_ad')
    n = 0
    for fname, fn in sorted(mod.funcs.items()):
        if not fname.startswith('p_brackets'):
            continue
        pr = productions(fn)
        if pr is None:
            continue
        head, alts = pr
        for alt in alts:
            if 'NUMBER' not in alt or 'LBRA' not in alt:
                continue
            n += 1
            t = [None]
            sign = 1
            has_sym = False
            for i, sym in enumerate(alt):
                if sym == 'MINUS':
                    t.append('-')
                    if i + 1 < len(alt) and alt[i + 1] == 'NUMBER':
                        sign = -1
                elif sym == 'PLUS':
                    t.append('+')
                elif sym == 'NUMBER':
                    t.append('8')
                elif sym in ('LBRA', 'RBRA'):
                    t.append('[' if sym == 'LBRA' else ']')
                elif sym == 'symbol':
                    has_sym = True
                    t.append({afs.symb: {'foo': 1}})
                elif sym in ('expression', 'ptrformula'):
                    t.append({0: 1, afs.size: afs.u32, afs.imm: 5})
                else:
                    raise AnalysisError('%s: unmodelled symbol %s in a displacement production' % (fname, sym))
            env = {'x86_afs': afs, 'uint32': Native(lambda x: int(x) & 0xFFFFFFFF),
                   'int32': Native(lambda x: (int(x) & 0xFFFFFFFF) - (1 << 32) if (int(x) & 0xFFFFFFFF) >> 31 else int(x) & 0xFFFFFFFF)}
            for hn_, hf_ in mod.funcs.items():
                env.setdefault(hn_, hf_)           # helpers the actions call (number_value(..), ..)
            inst = '%s: %s' % (fname, ' '.join(alt))
            try:
                Evaluator(env).call_user(fn, [t])
            except PyRaise as e:
                R.violation(inst, '%s:raises:%s' % (fname, e.exc_name), 'the action of `%s` raises %s on a well-formed operand' % (' '.join(alt), e.exc_name), where(mod, fn))
                continue
            except NotConst as e:
                raise AnalysisError('%s is outside the statically evaluable subset: %s' % (fname, e))
            out = t[0]
            want_imm = 5 + sign * 8
            problems = []
            if not isinstance(out, dict):
                problems.append('no operand dictionary is produced')
            else:
                if out.get(afs.imm) != want_imm:
                    problems.append('the displacement is %s, `%s` denotes %d (5 inside the brackets %s 8)' % (out.get(afs.imm), ' '.join(alt), want_imm, '-' if sign < 0 else '+'))
                if out.get(0) != 1:
                    problems.append('the base register is lost')
                if not out.get(afs.ad):
                    problems.append('the operand is not marked as an address')
                if has_sym and out.get(afs.symb) != {'foo': 1}:
                    problems.append('the symbol is lost')
            if problems:
                R.violation(inst, '%s:disp:%s' % (fname, ';'.join(problems)[:80]), '%s: %s' % (inst, '; '.join(problems)), where(mod, fn),
                            witness="asm('mov eax, DWORD PTR -8[ebp]') encodes [ebp+8]" if sign < 0 else None)
            else:
                R.ok(inst, sample='%s -> displacement %d' % (' '.join(alt), want_imm))
    if n < 4:
        raise AnalysisError('only %d displacement-outside-brackets productions found in parse_ad' % n)




NONASSOC_LEFT = {'MINUS': '-', 'DIVIDE': '/', 'DIV': '/', 'MOD': '%', 'LSHIFT': '<<', 'RSHIFT': '>>'}


def grammar_productions(mod):
    """[(function node, head, [symbols], %prec token or None)] from the docstrings of the p_ functions of a PLY grammar module"""
    out = []
    for name, fn in sorted(mod.funcs.items()):
        if not name.startswith('p_') or name == 'p_error':
            continue
        doc = ast.get_docstring(fn) or ''
        head = None
        for alt in doc.replace('\n', ' \n ').split('|') if doc else []:
            pass
        toks = doc.split()
        i = 0
        cur = None
        while i < len(toks):
            if i + 1 < len(toks) and toks[i + 1] in (':', '::='):
                head = toks[i]
                cur = []
                out.append([fn, head, cur, None])
                i += 2
                continue
            if toks[i] == '|':
                cur = []
                out.append([fn, head, cur, None])
                i += 1
                continue
            if toks[i] == '%prec' and i + 1 < len(toks):
                out[-1][3] = toks[i + 1]
                i += 2
                continue
            if cur is not None:
                cur.append(toks[i])
            i += 1
    return [tuple(p) for p in out]


def precedence_table(mod):
    from ..consteval import Evaluator, NotConst
    try:
        node = mod.assign_value('precedence')
    except AnalysisError:
        return {}
    try:
        tab = Evaluator({}).ev(node)
    except NotConst:
        raise AnalysisError('%s.precedence is not a literal table' % mod.name)
    out = {}
    for level, row in enumerate(tab):
        for tok in row[1:]:
            out[tok] = (row[0], level)
    return out


def associativity_rule(R, mods):
    """`a - b + c` is `(a - b) + c`: subtraction (and every operator that is not associative) groups to the left.  A production `E : E - E` needs a `left` entry of the
    operator in the precedence table; a stratified grammar needs the recursion on the LEFT (`E : E - T`).  `E : T - E` (right recursion) parses `a - b + c` as
    `a - (b + c)` whatever the table says: two spellings of one memory operand, `[ebx+esi*2-8]` and `[ebx-8+esi*2]`, then denote different displacements."""
    n = 0
    for mod in mods:
        prods = grammar_productions(mod)
        if len(prods) < 10:
            raise AnalysisError('%s: only %d productions were read from the p_ functions' % (mod.name, len(prods)))
        prec = precedence_table(mod)
        heads = set(p[1] for p in prods)
        # same-level additive companions: a head that has a right-recursive production for a left-grouping operator
        for fn, head, syms, pprec in prods:
            for i, sym in enumerate(syms):
                if sym not in NONASSOC_LEFT or i == 0 or i == len(syms) - 1:
                    continue
                left, right = syms[i - 1], syms[i + 1]
                if len(syms) != 3 or left not in heads or right not in heads:
                    continue            # not a binary operator production over nonterminals
                n += 1
                inst = '%s: %s : %s' % (mod.name, head, ' '.join(syms))
                if left == head and right == head:
                    a = prec.get(pprec or sym)
                    if a is None or a[0] != 'left':
                        R.violation(inst, 'assoc:%s:%s:%s' % (mod.name, head, sym), 'the ambiguous production `%s : %s` has no `left` entry for %s in the precedence table (%s): '
                                    '`a %s b %s c` is not grouped to the left' % (head, ' '.join(syms), sym, a, NONASSOC_LEFT[sym], NONASSOC_LEFT[sym]), where(mod, fn))
                    else:
                        # companions of the same level (PLUS beside MINUS) must share the level, or a - b + c regroups
                        R.ok(inst, sample='%s: `%s : %s` with %s declared left-associative' % (mod.name, head, ' '.join(syms), sym), nontrivial=True)
                elif right == head and left != head:
                    R.violation(inst, 'assoc:%s:%s:%s:right-recursive' % (mod.name, head, sym), 'the production `%s : %s` recurses on the right of %s: `a %s b + c` is parsed as `a %s (b + c)`, '
                                'so the order of the terms of a memory operand changes the displacement (or the operand is rejected)' % (head, ' '.join(syms), sym, NONASSOC_LEFT[sym], NONASSOC_LEFT[sym]),
                                where(mod, fn), witness="asm('mov eax, [ebx-8+esi*2]') vs asm('mov eax, [ebx+esi*2-8]')")
                else:
                    R.ok(inst, sample='%s: `%s : %s` recurses on the left of %s' % (mod.name, head, ' '.join(syms), sym), nontrivial=True)
        # PLUS and MINUS of one ambiguous level must have the same precedence level
        if 'PLUS' in prec and 'MINUS' in prec and any(s_ == ['expression', 'MINUS', 'expression'] or (len(s_) == 3 and s_[1] == 'MINUS' and s_[0] == s_[2]) for _, _, s_, _ in prods):
            n += 1
            inst = '%s: precedence of PLUS and MINUS' % mod.name
            if prec['PLUS'][1] != prec['MINUS'][1]:
                R.violation(inst, 'assoc:%s:levels' % mod.name, 'PLUS and MINUS have different precedence levels (%s, %s): `a - b + c` regroups around the tighter operator' % (prec['PLUS'], prec['MINUS']),
                            where(mod, mod.tree))
            else:
                R.ok(inst, sample='%s: PLUS and MINUS share one left-associative level' % mod.name, nontrivial=True)
    if n < 3:
        raise AnalysisError('associativity rule: only %d operator productions were found in the grammars' % n)

MUTANTS = [
    ('minus-right-associative', 'miasmx/core/parse_ad.py', "    ('left','PLUS','MINUS'),\n    ('left','TIMES'),", "    ('right','PLUS','MINUS'),\n    ('left','TIMES'),", 'C19.D12'),
    ('numpy-imm-true-kept', 'miasmx/arch/ia32_arch.py', "        size.discard(True)\n        size.discard(x86_afs.u32)", "        size.discard(x86_afs.u32)", 'C19.D8'),
    ('att-sreg-size', 'miasmx/arch/ia32_att.py', "    # same operand size as the Intel parser gives them\n    registers[name] = x86_afs.u32", "    registers[name] = x86_afs.size_seg", 'C19.D4'),
    ('cmov-strip-l', 'miasmx/arch/ia32_arch.py', "        elif len(name) > 5 and name.endswith('l') \\\n                and not name in x86mndb.mnemo_lookup:", "        elif len(name) > 5 and name.endswith('l'):", 'C19.D4'),
    ('deref3-overwrite', 'miasmx/arch/ia32_att.py', "    t[0][reg] = t[6] + t[0].get(reg, 0)", "    t[0][reg] = t[6]", 'C19.D3'),
    ('intel-reg0-nolower', 'miasmx/core/parse_ad.py',
     "    '''register : REGISTER'''\n    reg = t[1].lower()\n    if reg == 'st': reg = 'st0'\n    t[0] = {x86_afs.reg_dict[reg]:1, x86_afs.size: registers[reg]}",
     "    '''register : REGISTER'''\n    reg = t[1]\n    if reg == 'st': reg = 'st0'\n    t[0] = {x86_afs.reg_dict[t[1]]:1, x86_afs.size: registers[reg]}", 'C19.D1'),
    ('intel-ptrsize-nolower', 'miasmx/core/parse_ad.py', "        }[t[1].lower()]", "        }[t[1]]", 'C19.D1'),
    ('att-reg1-nolower', 'miasmx/arch/ia32_att.py',
     "    reg = t[2].lower()\n    t[0] = {x86_afs.reg_dict[reg]:1, x86_afs.size: registers[reg], 'txt':reg}",
     "    reg = t[2]\n    t[0] = {x86_afs.reg_dict[t[2]]:1, x86_afs.size: registers[reg], 'txt':reg}", 'C19.D1'),
    ('intel-brackets3-nowrap', 'miasmx/core/parse_ad.py',
     "    t[0] = t[3]\n    t[0][x86_afs.imm] = t[0].get(x86_afs.imm, 0) + int(int32(uint32(int(t[1]))))\n",
     "    t[0] = t[3]\n    t[0][x86_afs.imm] = t[0].get(x86_afs.imm, 0) + int(t[1])\n", 'C19.D2'),
    ('intel-tname-case', 'miasmx/core/parse_ad.py',
     "    if t.value.lower() in registers:\n        t.type = 'REGISTER'", "    if t.value in registers:\n        t.type = 'REGISTER'", 'C19.D3'),
    ('att-tname-seg-case', 'miasmx/arch/ia32_att.py',
     "    if t.value.lower() in segments:\n        t.type = 'SEGMENT'", "    if t.value in segments:\n        t.type = 'SEGMENT'", 'C19.D3'),
    ('att-no-0X', 'miasmx/arch/ia32_att.py',
     'if t.value.startswith("0x") or t.value.startswith("0X"):', 'if t.value.startswith("0x"):', 'C19.D2'),
    ('intel-expr5-nowrap', 'miasmx/core/parse_ad.py',
     "    t[0] = {x86_afs.imm:int(int32(uint32(int(t[1]))))}", "    t[0] = {x86_afs.imm:int(t[1])}", 'C19.D2'),
    ('intel-untyped-imm', 'miasmx/arch/ia32_arch.py', "        x86_mn.arg_set_numpy_imm(args)\n        self.normalize_args(name, args, prefix)", "        self.normalize_args(name, args, prefix)", 'C19.D6'),
    ('mim-refuses-txt', 'miasmx/arch/ia32_arch.py', "                        if not k in [x86_afs.imm, x86_afs.ad, x86_afs.size, 'txt']:", "                        if not k in [x86_afs.imm, x86_afs.ad, x86_afs.size]:", 'C19.D7'),
    ('dx-compare-keeps-txt', 'miasmx/arch/ia32_arch.py', "                    args_sample[index_im].pop('txt', None)\n", "", 'C19.D7'),
    ('pct-st-format-no-fold', 'miasmx/core/parse_ad.py', "    t[0] = t[2].lower() + \"%d\"%t[4]\n    t[0] ={x86_afs.reg_dict[t[0]]:1, x86_afs.size : x86_afs.f32}", "    t[0] = \"%s%d\" % (t[2], t[4])\n    t[0] ={x86_afs.reg_dict[t[0]]:1, x86_afs.size : x86_afs.f32}", 'C19.D1'),
]
