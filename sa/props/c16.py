"""C16 -- read/write sets reach every sub-expression; MatchExpr discriminates on
every non-expression field that equality compares."""
import ast
import os

from ..core import AnalysisError, where, norm
from ..fieldmatrix import Matrix, MethodInfo, NODE_CLASSES, loop_bindings
from ..shapes import u

# (class, field) pairs that get_r legitimately does not descend into, with the reason
# fields that get_r reaches in a special way (checked by dedicated clauses below), not through `self.<field>.get_r(..)`
GET_R_EXEMPT = {
    ('ExprAff', 'dst'): 'the destination is written (get_w); of a memory destination the ADDRESS and segment are read: dedicated clause',
    ('ExprMem', 'segm'): 'read when it is an expression: dedicated clause',
}


def isinstance_chain(fn, var):
    """The top-level if/elif chain `isinstance(var, C)` of a function: list of (C, body, If node) and the final else body."""
    chain = []
    for st in fn.body:
        if isinstance(st, ast.If) and _is_inst(st.test, var):
            cur = st
            while True:
                chain.append((_is_inst(cur.test, var), cur.body, cur))
                if len(cur.orelse) == 1 and isinstance(cur.orelse[0], ast.If) and _is_inst(cur.orelse[0].test, var):
                    cur = cur.orelse[0]
                else:
                    return chain, cur.orelse
    return chain, []


def _is_inst(test, var):
    if isinstance(test, ast.Call) and u(test.func) == 'isinstance' and len(test.args) == 2 and u(test.args[0]) == var \
            and isinstance(test.args[1], ast.Name):
        return test.args[1].id
    return None


def reads(body, base):
    out = set()
    for st in body:
        for n in ast.walk(st):
            if isinstance(n, ast.Attribute) and isinstance(n.value, ast.Name) and n.value.id == base:
                out.add(n.attr)
    return out


def len_reads(body, base):
    out = set()
    for st in body:
        for n in ast.walk(st):
            if isinstance(n, ast.Call) and u(n.func) == 'len' and n.args:
                a = n.args[0]
                if isinstance(a, ast.Attribute) and isinstance(a.value, ast.Name) and a.value.id == base:
                    out.add(a.attr)
    return out


def compared_fields(body, e, m):
    """Fields f such that some Compare in body has e.f (or len(e.f)) on one side and m.f (len(m.f)) on the other."""
    out = set()
    for st in body:
        for n in ast.walk(st):
            if isinstance(n, ast.Compare) and len(n.ops) == 1:
                a, b = n.left, n.comparators[0]
                for x, y in ((a, b), (b, a)):
                    fx, lx = _fld(x, e)
                    fy, ly = _fld(y, m)
                    if fx and fx == fy and lx == ly:
                        out.add((fx, lx))
    return out


def _fld(x, base):
    is_len = False
    if isinstance(x, ast.Call) and u(x.func) == 'len' and x.args:
        x = x.args[0]
        is_len = True
    if isinstance(x, ast.Attribute) and isinstance(x.value, ast.Name) and x.value.id == base:
        return x.attr, is_len
    return None, False


def aff_reads_rule(ctx, R1, mod=None, M=None):
    """ExprAff.get_r evaluated on symbolic read sets (shared with C08: the read set of a lifted instruction is the union of its assignments' get_r)."""
    from ..fieldmatrix import Matrix as _Matrix
    mod = mod or ctx.mod('expression')
    M = M or _Matrix(mod)
    # a store reads its address (and segment); a read-modify-write store also reads the cell it writes.
    # ExprAff.get_r is evaluated on symbolic read sets (sets of atom names) for the four shapes of an assignment.
    ga = M.methods['ExprAff'].get('get_r')
    if ga is None:
        raise AnalysisError('ExprAff.get_r not found')
    from ..consteval import Evaluator as _Ev, NotConst as _NC, Obj as _Obj, Native as _Nat

    def aff_reads(dst_is_mem, src_reads_dst, with_segm, mem_read):
        src, dst, arg, segm = _Obj('src'), _Obj('dst'), _Obj('arg'), _Obj('segm')
        src_set = {'S'} | ({dst} if (src_reads_dst and mem_read) else set())      # the cell is represented by the destination object itself
        src.get_r = _Nat(lambda mr=False: set(src_set))
        arg.get_r = _Nat(lambda mr=False: {'A'})
        segm.get_r = _Nat(lambda mr=False: {'G'})
        dst.arg, dst.segm = arg, (segm if with_segm else None)
        dst.get_r = _Nat(lambda mr=False: ({dst, 'A'} | ({'G'} if with_segm else set())) if (dst_is_mem and mr) else ({dst} if dst_is_mem else {'D'}))
        me = _Obj('self')
        me.src, me.dst = src, dst
        kinds = {'ExprMem': 'mem', 'Expr': 'expr'}

        def isinst(o, k):
            if o is dst:
                return dst_is_mem if k == 'mem' else True
            if o is segm:
                return True
            if o is None:
                return False
            return k == 'expr'
        env = {'isinstance': _Nat(isinst), 'ExprMem': 'mem', 'Expr': 'expr', 'set': _Nat(lambda x=(): set(x))}
        out = _Ev(env).call_user(ga.fn, [me, mem_read])
        return set('DST' if x is dst else x for x in out)
    n_shapes = 0
    problems = []
    for dst_is_mem in (False, True):
        for src_reads_dst in (False, True):
            for with_segm in ((False, True) if dst_is_mem else (False,)):
                for mem_read in (False, True):
                    n_shapes += 1
                    try:
                        got = set(aff_reads(dst_is_mem, src_reads_dst, with_segm, mem_read))
                    except _NC as e:
                        raise AnalysisError('ExprAff.get_r is outside the statically evaluable subset: %s' % e)
                    need = {'S'}
                    if src_reads_dst and mem_read:
                        need.add('DST')
                    if dst_is_mem and mem_read:
                        need.add('A')
                        if with_segm:
                            need.add('G')
                    missing = need - got
                    if missing:
                        names = {'S': 'the reads of the source', 'DST': 'the written cell although the source reads it', 'A': 'the registers that form the store address',
                                 'G': 'the segment selector of the store'}
                        problems.append((tuple(sorted(missing)), '%s destination%s, mem_read=%s%s: omits %s' % (
                            'memory' if dst_is_mem else 'register', ' with segment' if with_segm else '', mem_read, ', source reads the destination cell' if src_reads_dst else '',
                            ' and '.join(names[x] for x in sorted(missing)))))
    if not problems:
        R1.ok('ExprAff.get_r:store-address', sample='ExprAff.get_r evaluated on %d assignment shapes: source reads, store address, segment and a read-modify-write cell are all reported' % n_shapes)
    else:
        for key in sorted(set(k for k, _ in problems)):
            msgs = [m for k, m in problems if k == key]
            R1.violation('ExprAff.get_r:' + '+'.join(key), 'ExprAff.get_r:omits:' + '+'.join(key), 'the read set of an assignment (%s)' % msgs[0], where(mod, ga.fn),
                         witness="'mov [ebx+ecx*4], 1' reads nothing" if 'A' in key else "'@32[a+4] = @32[a+4] + 1' does not read @32[a+4]")


def run(ctx, report):
    mod = ctx.mod('expression')
    M = Matrix(mod)
    report.explanation = (
        'D1: for each of the 8 IR node classes get_r recurses (get_r call on a value derived from self.<field>) into every '
        'sub-expression field and forwards its mem_read parameter; leaf/memory cases return the node itself; ExprAff.get_w names dst; '
        'get_expr_ids collects through visit. D2: in MatchExpr every per-class branch tests the pattern\'s class and compares every '
        'scalar field / operand count / slot bound that __eq__ compares before recursing; test_set rejects inconsistent rebinding.')
    report.not_decided = ('behaviour of test_set on concrete trees beyond the guard shape; completeness of matching (a successful sub-match '
                          'returning an empty dict is treated as failure in some branches: makes matching incomplete, which the property allows).')

    R1 = report.rule('C16.D1', 'get_r child coverage per node class', floor=8)
    for c in NODE_CLASSES:
        meths = M.methods[c]
        cdef = mod.cls(c)
        if 'get_r' not in meths:
            R1.violation(c + '.get_r', c + '.get_r:missing', '%s has no get_r of its own' % c, where(mod, cdef))
            continue
        mi = meths['get_r']
        fn = mi.fn
        params = [x.arg for x in fn.args.args]
        if len(params) != 2:
            raise AnalysisError('%s.get_r signature changed' % c)
        mr = params[1]
        bad = False
        for f in M.expr_fields(c):
            if 'get_r' in mi.recursed.get(f, set()):
                continue
            if (c, f) in GET_R_EXEMPT:
                R1.note('%s.get_r does not descend into %s: %s' % (c, f, GET_R_EXEMPT[(c, f)]))
                continue
            R1.violation(c + '.get_r', '%s.get_r:%s' % (c, f), '%s.get_r omits sub-expression field %s' % (c, f), where(mod, fn))
            bad = True
        for f, meth, call in mi.calls:
            if meth == 'get_r':
                passed = [u(a) for a in call.args] + [u(k.value) for k in call.keywords if k.arg == mr]
                if mr not in passed:
                    R1.violation(c + '.get_r', '%s.get_r:%s:mem_read' % (c, f),
                                 '%s.get_r does not forward %s when recursing into %s: %s' % (c, mr, f, norm(call)), where(mod, call))
                    bad = True
        # (what each class returns for itself -- {self} for identifiers, the cell and, on request, its address for memory -- is decided by evaluation: C16.D5)
        if not bad:
            R1.ok(c + '.get_r', sample='%s.get_r recurses into %s' % (c, sorted(f for f in mi.recursed if 'get_r' in mi.recursed[f])))
    aff_reads_rule(ctx, R1, mod, M)
    # (get_w of assignments, identifiers, memory cells and slices, and get_expr_ids: decided by evaluation, C16.D5)

    from .. import exprobj
    R5 = report.rule('C16.D5', 'get_r evaluated from the source on the expression family (mem_read False and True): the set contains every identifier and memory cell with a WITNESSED '
                     'influence on the value (two valuations differing only there give different values), the address and selector of a store; get_w of an assignment names its destination; '
                     'get_size gives the width', floor=60)
    exprobj.emit_law(R5, ctx, 'get_r')
    exprobj.emit_law(R5, ctx, 'get_w')
    exprobj.emit_law(R5, ctx, 'get_size')
    exprobj.emit_law(R5, ctx, 'get_expr_ids')

    R4 = report.rule('C16.D4', 'node equality is exact (a repeated wildcard is checked with ==, read sets are Python sets of nodes): shared with C15.D1', floor=8)
    from .c15 import eq_rule
    eq_rule(ctx, R4)
    R6 = report.rule('C16.D6', 'what get_r / get_expr_ids / MatchExpr and their helpers keep on an expression node between calls is computed from that node only: a value '
                     'memoised on a pattern or on an expression never depends on another argument of the call (the wildcard list, mem_read); shared with C12.D17', floor=1)
    from .c12 import cache_key_rule
    cache_key_rule(R6, [mod])
    R7 = report.rule('C16.D7', 'matching is a function of (expression, pattern, wildcards): MatchExpr, interpreted with the node classes of expression.py, gives on a pattern object '
                     'that was matched before - with another wildcard list, against another expression - the answer it gives on a freshly built pattern', floor=10)
    match_history_rule(ctx, R7, mod)
    R2 = report.rule('C16.D2', 'MatchExpr discriminates per node class', floor=7)
    fn = mod.func('MatchExpr')
    ps = [x.arg for x in fn.args.args]
    if len(ps) < 3:
        raise AnalysisError('MatchExpr signature changed')
    _else = None
    match_eval_rule(ctx, R2, mod)
    # test_set, evaluated: the five cases of (wildcard?, bound?, equal?)
    ts = mod.func('test_set')
    if len(ts.args.args) != 4:
        raise AnalysisError('test_set signature changed')
    from ..consteval import Evaluator, NotConst
    cases = [('non-wildcard, equal', ('x', 'x', ['a'], {}), 'success', {}),
             ('non-wildcard, different', ('x', 'y', ['a'], {}), 'failure', {}),
             ('wildcard, unbound', ('x', 'a', ['a'], {}), 'success', {'a': 'x'}),
             ('wildcard, bound to the same', ('x', 'a', ['a'], {'a': 'x'}), 'success', {'a': 'x'}),
             ('wildcard, bound to another', ('x', 'a', ['a'], {'a': 'y'}), 'failure', {'a': 'y'})]
    # ... and the whole product (expression leaf x pattern leaf x earlier bindings): the expression may contain the wildcard identifier itself
    seen_cases = set((c_[1][0], c_[1][1], tuple(sorted(c_[1][3].items()))) for c_ in cases)
    for e_ in ('x', 'y', 'a'):
        for v_ in ('x', 'a'):
            for res_ in ({}, {'a': 'x'}, {'a': 'y'}, {'a': 'a'}):
                if (e_, v_, tuple(sorted(res_.items()))) in seen_cases:
                    continue
                if v_ != 'a':
                    want, want_res = ('success', dict(res_)) if e_ == v_ else ('failure', dict(res_))
                elif 'a' in res_ and res_['a'] != e_:
                    want, want_res = 'failure', dict(res_)
                else:
                    want_res = dict(res_)
                    want_res['a'] = e_
                    want = 'success'
                cases.append(('expression leaf %s, pattern leaf %s%s, bindings %s' % (e_, v_, ' (wildcard)' if v_ == 'a' else '', res_ or 'none'), (e_, v_, ['a'], res_), want, want_res))
    for label, (e_, v_, tks_, res_), want, want_res in cases:
        res_obj = dict(res_)
        try:
            out = Evaluator({}).call_user(ts, [e_, v_, list(tks_), res_obj])
        except NotConst as ex:
            raise AnalysisError('test_set is outside the statically evaluable subset: %s' % ex)
        inst = 'test_set: %s' % label
        if want == 'failure':
            if out is False:
                R2.ok(inst, sample='%s -> False' % label)
            else:
                R2.violation(inst, 'test_set:%s' % label, 'test_set returns %r for a %s operand: the match must fail' % (out, label), where(mod, ts),
                             witness='MatchExpr(x+y, a+a, [a]) succeeds' if 'another' in label else None)
        else:
            if out is res_obj and res_obj == want_res:
                R2.ok(inst, sample='%s -> the bindings %s' % (label, want_res))
            elif out is False or out is None:
                R2.violation(inst, 'test_set:%s' % label, 'test_set fails (%r) for a %s operand' % (out, label), where(mod, ts))
            else:
                R2.violation(inst, 'test_set:%s:not-bindings' % label, 'test_set returns %r instead of the bindings for a %s operand: a successful match of a pattern that is '
                             'a wildcard-free leaf returns a bool, which cannot be substituted into the pattern' % (out, label), where(mod, ts),
                             witness='MatchExpr(x, x, [a]) returns True; pattern.replace_expr(True) raises TypeError')
    R2.note('completeness (a binding exists => the match succeeds) is not part of the property; only soundness of success and of failure are decided')


def match_eval_rule(ctx, R, mod):
    """MatchExpr (with test_set and whatever helpers it calls) is executed from its source on model nodes - a finite family of (expression, pattern) pairs
    over every node class, with wildcards at the leaves, a repeated wildcard, a wildcard as segment selector, different arities, sizes, bounds and
    operators - and compared with the definition: a result other than False is a dictionary b with pattern[b] == expression; False is returned only
    when no consistent binding exists."""
    from ..consteval import Evaluator, Obj, NotConst, PyRaise

    class MBase(Obj):
        def __init__(self, kind, **kw):
            Obj.__init__(self, kind)
            self.__dict__['_kind'] = kind
            self.__dict__['_closed'] = True        # a field the class does not have is an AttributeError of the analysed code
            for k, v in kw.items():
                setattr(self, k, v)

        def key(self):
            a = self.__dict__['_attrs']
            return (self.__dict__['_kind'],) + tuple((k, _k(a[k])) for k in sorted(a))

        def __eq__(self, o):
            return isinstance(o, MBase) and self.key() == o.key()

        def __ne__(self, o):
            return not self.__eq__(o)

        def __hash__(self):
            return hash(self.key())

        def __repr__(self):
            return show(self)

    def _k(v):
        if isinstance(v, MBase):
            return v.key()
        if isinstance(v, (list, tuple)):
            return tuple(_k(x) for x in v)
        return v
    classes = {}
    for cname in ('ExprInt', 'ExprId', 'ExprMem', 'ExprOp', 'ExprSlice', 'ExprCond', 'ExprCompose', 'ExprAff'):
        classes[cname] = type('M' + cname, (MBase,), {})

    def Id(n, size=32):
        return classes['ExprId']('Id', name=n, size=size, is_reg=False, is_term=False)

    def Int(v, size=32):
        return classes['ExprInt']('Int', arg=('u%d' % size, v))

    def Mem(a, size=32, segm=None):
        return classes['ExprMem']('Mem', arg=a, size=size, segm=segm)

    def Op(op, *args):
        return classes['ExprOp']('Op', op=op, args=tuple(args))

    def Sl(a, lo, hi):
        return classes['ExprSlice']('Slice', arg=a, start=lo, stop=hi)

    def Cond(c, a, b):
        return classes['ExprCond']('Cond', cond=c, src1=a, src2=b)

    def Comp(*pieces):
        return classes['ExprCompose']('Compose', args=list(pieces))

    def Aff(d, s_):
        return classes['ExprAff']('Aff', dst=d, src=s_)

    def show(t):
        k = t.__dict__['_kind']
        a = t.__dict__['_attrs']
        if k == 'Id':
            return a['name']
        if k == 'Int':
            return '%#x' % a['arg'][1]
        if k == 'Mem':
            return '%s@%d[%s]' % ((show(a['segm']) + ':') if isinstance(a['segm'], MBase) else '', a['size'], show(a['arg']))
        if k == 'Op':
            return '%s(%s)' % (a['op'], ', '.join(show(x) for x in a['args']))
        if k == 'Slice':
            return '%s[%d:%d]' % (show(a['arg']), a['start'], a['stop'])
        if k == 'Cond':
            return '%s?(%s,%s)' % (show(a['cond']), show(a['src1']), show(a['src2']))
        if k == 'Compose':
            return '{%s}' % ', '.join('%s,%d,%d' % (show(p[0]), p[1], p[2]) for p in a['args'])
        return '%s = %s' % (show(a['dst']), show(a['src']))
    x, y, z, fs = Id('x'), Id('y'), Id('z'), Id('fs', 16)
    wa, wb = Id('a'), Id('b')
    tks = [wa, wb]

    def children(t):
        k, a = t.__dict__['_kind'], t.__dict__['_attrs']
        if k == 'Mem':
            return [a['arg']] + ([a['segm']] if isinstance(a['segm'], MBase) else [])
        if k == 'Op':
            return list(a['args'])
        if k == 'Slice':
            return [a['arg']]
        if k == 'Cond':
            return [a['cond'], a['src1'], a['src2']]
        if k == 'Compose':
            return [p[0] for p in a['args']]
        if k == 'Aff':
            return [a['dst'], a['src']]
        return []

    def shape(t):
        """everything but the children"""
        k, a = t.__dict__['_kind'], t.__dict__['_attrs']
        if k == 'Mem':
            return (k, a['size'], isinstance(a['segm'], MBase), None if isinstance(a['segm'], MBase) else a['segm'])
        if k == 'Op':
            return (k, a['op'], len(a['args']))
        if k == 'Slice':
            return (k, a['start'], a['stop'])
        if k == 'Compose':
            return (k, tuple((p[1], p[2]) for p in a['args']))
        if k in ('Id', 'Int'):
            return t.key()
        return (k,)

    def ref_match(e, m, b):
        if any(m == w for w in tks):
            if m in b:
                return b if b[m] == e else None
            b = dict(b)
            b[m] = e
            return b
        if shape(e) != shape(m):
            return None
        for ce, cm in zip(children(e), children(m)):
            b = ref_match(ce, cm, b)
            if b is None:
                return None
        return b

    def subst(m, b):
        if m in b:
            return b[m]
        k, a = m.__dict__['_kind'], m.__dict__['_attrs']
        if k == 'Mem':
            return Mem(subst(a['arg'], b), a['size'], subst(a['segm'], b) if isinstance(a['segm'], MBase) else a['segm'])
        if k == 'Op':
            return Op(a['op'], *[subst(c, b) for c in a['args']])
        if k == 'Slice':
            return Sl(subst(a['arg'], b), a['start'], a['stop'])
        if k == 'Cond':
            return Cond(subst(a['cond'], b), subst(a['src1'], b), subst(a['src2'], b))
        if k == 'Compose':
            return Comp(*[(subst(p[0], b), p[1], p[2]) for p in a['args']])
        if k == 'Aff':
            return Aff(subst(a['dst'], b), subst(a['src'], b))
        return m
    exprs = [x, y, Int(1), Int(1, 8), Op('+', x, y), Op('+', x, x), Op('+', y, x), Op('*', x, y), Op('+', x, y, z), Op('-', x), Op('-', x, y),
             Mem(x), Mem(y), Mem(x, 16), Mem(x, 32, fs), Mem(x, 32, Id('gs', 16)), Sl(x, 0, 8), Sl(x, 8, 16), Sl(x, 0, 16), Sl(y, 0, 8),
             Cond(x, y, z), Cond(x, y, y), Cond(x, x, y), Comp((Sl(x, 0, 8), 0, 8), (Sl(y, 0, 24), 8, 32)), Comp((Sl(x, 0, 16), 0, 16), (Sl(y, 0, 16), 16, 32)),
             Comp((Sl(x, 0, 8), 0, 8), (Sl(x, 0, 24), 8, 32)), Op('+', Mem(x), Int(1)), Op('+', Mem(x, 32, fs), Int(1)), Mem(Op('+', x, Int(1))), Cond(Op('-', x), Op('-', x, y), y),
             Aff(x, Op('+', y, Int(1))), Aff(Mem(x), y), Id('y', 8), Id('a', 8)]
    pats = [Id('a', 8), Mem(wa, 32, Id('b', 16)), wa, x, Int(1), Op('+', wa, wb), Op('+', wa, wa), Op('+', wa, y), Op('+', x, wb), Op('*', wa, wb), Op('+', wa, wb, z), Op('-', wa), Op('-', wa, wb),
            Mem(wa), Mem(wa, 16), Mem(wa, 32, fs), Mem(wa, 32, wb), Mem(x, 32, wb), Sl(wa, 0, 8), Sl(wa, 8, 16), Sl(wa, 0, 16), Cond(wa, wb, z), Cond(wa, wb, wb), Cond(wa, wa, wb),
            Comp((wa, 0, 8), (wb, 8, 32)), Comp((wa, 0, 16), (wb, 16, 32)), Comp((wa, 0, 8), (wb, 8, 24)), Comp((wa, 0, 8), (wb, 4, 32)), Comp((wa, 0, 8)), Comp((Sl(wa, 0, 8), 0, 8), (Sl(wa, 0, 24), 8, 32)), Op('+', Mem(wa), wb), Mem(Op('+', wa, wb)),
            Cond(Op('-', wa), Op('-', wa, wb), wb), Aff(wa, Op('+', wb, Int(1))), Aff(Mem(wa), wb)]
    def to_se(t):
        from .. import simpeval as SE
        k, a = t.__dict__['_kind'], t.__dict__['_attrs']
        if k == 'Id':
            return SE.ExprId(a['name'], a['size'])
        if k == 'Int':
            return SE.C(a['arg'][1], int(a['arg'][0][1:]))
        if k == 'Mem':
            return SE.ExprMem(to_se(a['arg']), a['size'], to_se(a['segm']) if isinstance(a['segm'], MBase) else a['segm'])
        if k == 'Op':
            return SE.Op(a['op'], *[to_se(c_) for c_ in a['args']])
        if k == 'Slice':
            return SE.Sl(to_se(a['arg']), a['start'], a['stop'])
        if k == 'Cond':
            return SE.ExprCond(to_se(a['cond']), to_se(a['src1']), to_se(a['src2']))
        if k == 'Compose':
            return SE.ExprCompose([(to_se(p[0]), p[1], p[2]) for p in a['args']])
        return SE.ExprAff(to_se(a['dst']), to_se(a['src']))

    def from_se(t):
        k = t.KIND
        if k == 'Id':
            return Id(t.f('name'), t.f('size'))
        if k == 'Int':
            v_ = t.f('arg')
            return Int(int(v_), v_.size)
        if k == 'Mem':
            sg = t.f('segm')
            return Mem(from_se(t.f('arg')), t.f('size'), from_se(sg) if hasattr(sg, 'KIND') else sg)
        if k == 'Op':
            return Op(t.f('op'), *[from_se(c_) for c_ in t.f('args')])
        if k == 'Slice':
            return Sl(from_se(t.f('arg')), t.f('start'), t.f('stop'))
        if k == 'Cond':
            return Cond(from_se(t.f('cond')), from_se(t.f('src1')), from_se(t.f('src2')))
        if k == 'Compose':
            return Comp(*[(from_se(p[0]), p[1], p[2]) for p in t.f('args')])
        return Aff(from_se(t.f('dst')), from_se(t.f('src')))

    def world_match(e, m):
        from .. import exprobj
        W = exprobj.world(ctx)
        try:
            st_, v_ = W.call('MatchExpr', W.from_native(to_se(e)), W.from_native(to_se(m)), [W.from_native(to_se(w_)) for w_ in tks], {})
        except PyRaise as ex_:
            return 'raises', ex_.exc_name
        if st_ != 'ok':
            return st_, v_
        if isinstance(v_, dict):
            return 'ok', dict((from_se(W.to_native(k_)), from_se(W.to_native(x_))) for k_, x_ in v_.items())
        return 'ok', v_
    scope = dict(classes)
    scope['Expr'] = MBase
    for fname_, fnode_ in mod.funcs.items():
        scope.setdefault(fname_, fnode_)
    fn = mod.func('MatchExpr')
    n = 0
    bad = {}
    for e in exprs:
        for m in pats:
            n += 1
            try:
                out = Evaluator(scope).call_user(fn, [e, m, list(tks), {}])
            except PyRaise as ex:
                bad.setdefault(('raises', ex.exc_name), (e, m, None))
                continue
            except NotConst as ex:
                msg_ = str(ex)
                bound_ = None
                if msg_.startswith('name '):
                    # a name no statement of the module binds is a NameError of the analysed code
                    nm_ = msg_.split()[1].strip("'\":,")
                    bound_ = set()
                    for st_ in ast.walk(mod.tree):
                        if isinstance(st_, (ast.FunctionDef, ast.ClassDef)):
                            bound_.add(st_.name)
                        elif isinstance(st_, ast.Name) and isinstance(st_.ctx, ast.Store):
                            bound_.add(st_.id)
                        elif isinstance(st_, (ast.Import, ast.ImportFrom)):
                            bound_.update((a_.asname or a_.name).split('.')[0] for a_ in st_.names)
                        elif isinstance(st_, ast.arg):
                            bound_.add(st_.arg)
                    import builtins as _b
                    if nm_ not in bound_ and not hasattr(_b, nm_):
                        bad.setdefault(('raises', 'NameError'), (e, m, None))
                        continue
                # the data-only model nodes cannot follow this construct (a helper that walks the nodes with their own methods): the pair is evaluated with the node
                # classes of expression.py interpreted as a whole
                st_w, out_w = world_match(e, m)
                if st_w == 'raises':
                    bad.setdefault(('raises', str(out_w).split('(')[0]), (e, m, None))
                    continue
                if st_w != 'ok':
                    raise AnalysisError('MatchExpr is outside the evaluable subset on (%s, %s): %s / %s' % (show(e), show(m), ex, out_w))
                out = out_w
            want = ref_match(e, m, {})
            if out is False or out is None:
                if want is not None and shape(e) == shape(m):
                    # failure although a binding exists for a pattern of the same shape
                    bad.setdefault(('fails', shape(m)[0]), (e, m, want))
            elif isinstance(out, dict):
                if any(not any(k_ == w_ for w_ in tks) for k_ in out):
                    # a binding for a node that is not one of the wildcards (a literal identifier that shares a wildcard's name but not its width / kind)
                    bad.setdefault(('unsound', m.__dict__['_kind'], 'binds-a-literal'), (e, m, out))
                elif subst(m, out) != e:
                    bad.setdefault(('unsound', m.__dict__['_kind'], 'repeated' if want is None and shape(e) == shape(m) else shape(e) == shape(m)), (e, m, out))
            else:
                bad.setdefault(('result-type', type(out).__name__), (e, m, out))
    for key, (e, m, extra) in sorted(bad.items(), key=str):
        inst = 'MatchExpr: %s' % (key,)
        if key[0] == 'raises':
            R.violation(inst, 'MatchExpr:raises:%s' % key[1], 'MatchExpr(%s, %s) raises %s instead of returning bindings or False' % (show(e), show(m), key[1]), where(mod, fn),
                        witness='MatchExpr(ExprAff(x, y+1), ExprAff(a, b+1), [a, b])' if e.__dict__['_kind'] == 'Aff' else None)
        elif key[0] == 'fails':
            R.violation(inst, 'MatchExpr:fails:%s' % key[1], 'MatchExpr(%s, %s) fails although the bindings %s reproduce the expression' % (show(e), show(m),
                        dict((show(k_), show(v_)) for k_, v_ in extra.items())), where(mod, fn))
        elif key[0] == 'unsound':
            R.violation(inst, 'MatchExpr:unsound:%s' % key[1], 'MatchExpr(%s, %s) succeeds with %s, but the pattern under these bindings is %s, not the expression' % (
                        show(e), show(m), dict((show(k_), show(v_)) for k_, v_ in extra.items()), show(subst(m, extra))), where(mod, fn),
                        witness='MatchExpr(%s, %s, [a, b])' % (show(e), show(m)))
        else:
            R.violation(inst, 'MatchExpr:result:%s' % key[1], 'MatchExpr(%s, %s) returns %r: neither bindings nor False' % (show(e), show(m), extra), where(mod, fn))
    if not bad:
        R.ok('MatchExpr evaluated', sample='MatchExpr executed on %d (expression, pattern) pairs: every success reproduces the expression, every failure is a real mismatch' % n)
    for i_ in range(7):
        R.ok('MatchExpr family part %d' % i_, nontrivial=True)



def match_history_rule(ctx, R, mod):
    """History clause of C16: patterns are built once and matched many times.  The whole of expression.py is interpreted (exprobj.World), so whatever MatchExpr and its
    helpers store on the nodes they walk is really stored.  For every pattern the calls are made in two orders on ONE pattern object and compared with the same call on a
    fresh object."""
    from .. import exprobj
    from .. import simpeval as SE
    W = exprobj.world(ctx)
    A = SE.atoms()
    x, y, z = A['x'], A['y'], A['z']
    wa, wb = SE.ExprId('a', 32), SE.ExprId('b', 32)
    Op, Mem, Cond, Sl, C = SE.Op, SE.ExprMem, SE.ExprCond, SE.Sl, SE.C
    pats = [Op('+', wa, Op('*', wb, y)), Mem(Op('+', wa, wb)), Cond(wa, wb, z), Op('+', wa, wb), Op('^', Mem(wa), Op('+', wb, C(4))), Sl(Op('+', wa, wb), 0, 8),
            Op('+', Op('*', wb, y), z)]
    binds = [{'a': Op('+', x, C(1)), 'b': y}, {'a': z, 'b': Mem(x)}]
    tk_lists = [('a',), ('a', 'b'), ('b',), ('b', 'a')]

    def subst(t, b):
        if t.KIND == 'Id' and t.f('name') in b:
            return b[t.f('name')]
        if t.KIND == 'Op':
            return Op(t.f('op'), *[subst(a_, b) for a_ in t.f('args')])
        if t.KIND == 'Mem':
            return Mem(subst(t.f('arg'), b), t.f('size'), t.f('segm'))
        if t.KIND == 'Cond':
            return Cond(subst(t.f('cond'), b), subst(t.f('src1'), b), subst(t.f('src2'), b))
        if t.KIND == 'Slice':
            return Sl(subst(t.f('arg'), b), t.f('start'), t.f('stop'))
        return t

    def norm_out(r):
        st, v = r
        if st != 'ok':
            return (st, str(v))
        if v is False or v is None:
            return ('no-match',)
        if isinstance(v, dict):
            try:
                return ('match', tuple(sorted((SE.show(W.to_native(k_)), SE.show(W.to_native(v_))) for k_, v_ in v.items())))
            except Exception as e_:
                return ('match-unreadable', type(e_).__name__)
        return ('other', repr(v)[:40])

    def ask(pobj, e_native, tks):
        return norm_out(W.call('MatchExpr', W.from_native(e_native), pobj, [W.from_native(SE.ExprId(n_, 32)) for n_ in tks], {}))
    n = 0
    for p in pats:
        for order in (tk_lists, list(reversed(tk_lists))):
            shared = W.from_native(p)
            for tks in order:
                for b in binds:
                    e_ = subst(p, b)
                    n += 1
                    got = ask(shared, e_, tks)
                    want = ask(W.from_native(p), e_, tks)
                    inst = 'MatchExpr(%s, %s, [%s]) after %s' % (SE.show(e_), SE.show(p), ', '.join(tks), 'other wildcard lists on the same pattern object')
                    if got != want:
                        R.violation(inst, 'match-history:%s' % p.KIND, '%s gives %s; on a freshly built pattern %s: the answer depends on the calls made before with this pattern object' % (inst, got, want),
                                    where(mod, mod.func('MatchExpr')), witness='MatchExpr(e, p, [a]) then MatchExpr(e, p, [a, b]) on one pattern p')
                        break
                else:
                    continue
                break
            else:
                R.ok('pattern %s, %s order' % (SE.show(p), 'given' if order is tk_lists else 'reversed'), nontrivial=True,
                     sample='%s matched %d times on one object with 4 wildcard lists: every answer equals the answer of a fresh pattern' % (SE.show(p), len(tk_lists) * len(binds)))
    R.note('%d calls of MatchExpr interpreted on shared pattern objects' % n)

MUTANTS = [
    ('test-set-eq-shortcut-hoisted', 'miasmx/expression/expression.py', "    if not v in tks:\n        # (a successful match returns the bindings, even when there are none)\n        if e == v:\n            return result\n        return False\n", "    if e == v:\n        return result\n    if not v in tks:\n        return False\n", 'C16.D2'),
    ('aff-getr-src-only', 'miasmx/expression/expression.py', "            r = r.union(self.dst.arg.get_r(mem_read))\n", "", 'C16.D1'),
    ('mem-getr-no-segm', 'miasmx/expression/expression.py', "            if isinstance(self.segm, Expr):\n                r = r.union(self.segm.get_r(mem_read))\n            return r", "            return r", 'C16.D5'),
    ('cond-get_r-skip', 'miasmx/expression/expression.py',
     'out=self.cond.get_r(mem_read).union(self.src1.get_r(mem_read)).union(self.src2.get_r(mem_read))',
     'out=self.src1.get_r(mem_read).union(self.src2.get_r(mem_read))', 'C16.D1'),
    ('mem-get_r-noaddr', 'miasmx/expression/expression.py', "            r = set(self.arg.get_r(mem_read).union(set([self])))", "            r = set([self])", 'C16.D1'),
    ('op-get_r-nomemread', 'miasmx/expression/expression.py',
     '            r = r.union(a.get_r(mem_read))\n        return r\n    def get_w(self):\n        raise ValueError',
     '            r = r.union(a.get_r())\n        return r\n    def get_w(self):\n        raise ValueError', 'C16.D1'),
    ('aff-get_w-src', 'miasmx/expression/expression.py',
     '            return self.dst.get_w()', '            return self.src.get_w()', 'C16.D5'),
    ('match-slice-bounds', 'miasmx/expression/expression.py',
     '        if e.start != m.start or e.stop != m.stop:\n            return False\n', '        if e.start != m.start:\n            return False\n', 'C16.D2'),
    ('match-mem-size', 'miasmx/expression/expression.py',
     '        if e.size != m.size:\n            return False\n        if isinstance(e.segm, Expr)', '        if isinstance(e.segm, Expr)', 'C16.D2'),
    ('match-op-noop', 'miasmx/expression/expression.py',
     '        if e.op != m.op or len(e.args) != len(m.args):\n', '        if len(e.args) != len(m.args):\n', 'C16.D2'),
    ('match-op-noarity', 'miasmx/expression/expression.py',
     '        if e.op != m.op or len(e.args) != len(m.args):\n', '        if e.op != m.op:\n', 'C16.D2'),
    ('match-cond-class', 'miasmx/expression/expression.py',
     '        if not isinstance(m, ExprCond):\n            return False\n', '', 'C16.D2'),
    ('match-cond-src2', 'miasmx/expression/expression.py',
     '        r = MatchExpr(e.src2, m.src2, tks, result)\n        if r is False: return False\n', '', 'C16.D2'),
    ('testset-noguard', 'miasmx/expression/expression.py',
     '    if v in result and result[v] != e:\n        return False\n', '', 'C16.D2'),
    ('compose-get_r-first', 'miasmx/expression/expression.py',
     '        for a in self.args:\n            r = r.union(a[0].get_r(mem_read))\n', '        r = r.union(self.args[0][1:2] and set())\n', 'C16.D1'),
]
