"""C04 -- lifted semantics match the processor on the integer core: the flag and condition discipline
(condition-code predicates, carry/overflow helpers, flag write sets, zf/sf/pf computed from the result)."""
import ast
import itertools

from ..core import AnalysisError, where, norm
from ..liftforms import LifterModel
from ..lifter import LiftError, LiftUnknown, Term, TId, TInt, TSlice, ModVal, InfoObj, show, walk_terms, FuncVal
from ..lifter import get_size as get_size_, get_size, SizeError
from ..irsets import (eval_small, Refuse, msb_function, load_cc_ref, cc_predicate, load_effects_ref, rw_sets, FLAGS)
from ..shapes import u
from ..srcmodel import walk_no_nested

STATUS = ('of', 'nf', 'zf', 'af', 'pf', 'cf')
CCVARS = ('cf', 'zf', 'nf', 'of', 'pf')


def cc_of_name(ccref, name):
    """('j'|'set'|'cmov', code) for a conditional mnemonic, or None."""
    for fam in ('cmov', 'set', 'j'):
        if name.startswith(fam):
            suf = name[len(fam):]
            for code, e in ccref.items():
                if suf in e['names']:
                    return fam, code
    return None


def valuations(names):
    for combo in itertools.product((0, 1), repeat=len(names)):
        yield dict(zip(names, combo))


def stack_operand_rule(ctx, R, L, sem):
    """push / pop whose operand is the stack pointer or is addressed through it (shared by C04 and C08): IA-32 computes the
    address of a pop destination AFTER incrementing esp, reads a push source BEFORE decrementing it, pushes the old esp and
    loads esp from the popped value.  The semantic functions are lifted on these operand terms and the addresses evaluated."""
    from ..lifter import TMem, TOp, TId, TInt, ModVal, InfoObj
    I = L.I
    esp = TId('esp', 32, is_reg=True)

    def mem(disp, size=32):
        return TMem(TOp('+', [esp, TInt(ModVal(32, disp))]), size)
    ESP0 = 0x2000
    val = {'esp': ESP0, 'ebx': 0x10}

    def addr(t):
        v, _ = eval_small(t, val)
        return v
    cases = []
    for name in ('pop', 'push'):
        f = L.mnemo_func.get(name)
        if f is None:
            raise AnalysisError('ia32_sem.mnemo_func has no %r' % name)
        cases.append((name, f))
    for name, f in cases:
        for form, arg in (('[esp+8]', mem(8)), ('[esp]', TMem(esp, 32)), ('esp', esp), ('[esp+8] 16-bit', mem(8, 16))):
            opmode = 'u16' if '16-bit' in form else 'u32'
            size = 2 if opmode == 'u16' else 4
            inst = 'stack:%s %s' % (name, form)
            try:
                res = I.run(f, [InfoObj(opmode, 'u32'), arg])
            except LiftUnknown as e:
                raise AnalysisError('%s is outside the modelled subset on operand %s: %s' % (name, form, e))
            for dec, tmpl in res:
                if isinstance(tmpl, LiftError) or not isinstance(tmpl, list):
                    R.violation(inst, 'stack:%s:%s:raises' % (name, form), 'lifting %s %s raises %s' % (name, form, getattr(tmpl, 'exc', tmpl)), where(sem, f.node))
                    continue
                problems = []
                try:
                    esp_affs = [a for a in tmpl if a.kind == 'Aff' and a.dst.kind == 'Id' and a.dst.name == 'esp']
                    esp16 = [a for a in tmpl if a.kind == 'Aff' and a.dst.kind == 'Slice' and a.dst.arg.kind == 'Id' and a.dst.arg.name == 'esp']
                    mem_w = [a for a in tmpl if a.kind == 'Aff' and a.dst.kind == 'Mem']
                    if name == 'pop':
                        if form.startswith('[esp'):
                            d = 8 if '+8' in form else 0
                            if len(mem_w) != 1:
                                problems.append('%d memory writes' % len(mem_w))
                            else:
                                got = addr(mem_w[0].dst.arg) & 0xffffffff
                                want = ESP0 + size + d
                                if got != want and not (opmode == 'u16' and (got & 0xffff) == (want & 0xffff)):
                                    problems.append('the value is stored at esp%+d; the destination address is computed after esp is incremented by %d: esp%+d' % (got - ESP0, size, want - ESP0))
                                src = mem_w[0].src
                                if not (src.kind == 'Mem' and (addr(src.arg) & 0xffff) == (ESP0 & 0xffff)):
                                    problems.append('the popped value is not read at the old top of stack')
                        elif form == 'esp':
                            if len(esp_affs) != 1:
                                problems.append('esp is assigned %d times (pop esp loads esp with the popped value, nothing else)' % len(esp_affs))
                            elif not (esp_affs[0].src.kind == 'Mem' and addr(esp_affs[0].src.arg) == ESP0):
                                problems.append('esp does not receive the value at the old top of stack')
                    else:
                        if len(mem_w) != 1:
                            problems.append('%d memory writes' % len(mem_w))
                        else:
                            got = addr(mem_w[0].dst.arg)
                            if (got & 0xffff) != ((ESP0 - size) & 0xffff):
                                problems.append('the value is pushed at esp%+d instead of esp-%d' % (got - ESP0, size))
                            src = mem_w[0].src
                            if form.startswith('[esp'):
                                d = 8 if '+8' in form else 0
                                if not (src.kind == 'Mem' and addr(src.arg) == ESP0 + d):
                                    problems.append('the pushed operand is not read at esp%+d with the value esp has before the push' % d)
                            elif form == 'esp':
                                if not (src.kind == 'Id' and src.name == 'esp'):
                                    problems.append('push esp does not push the value esp has before the push')
                except Refuse as e:
                    raise AnalysisError('%s %s: address outside the evaluable subset: %s' % (name, form, e))
                if problems:
                    R.violation(inst, 'stack:%s:%s:%s' % (name, form, problems[0][:50]), '%s %s: %s' % (name, form, '; '.join(problems)), where(sem, f.node),
                                witness='8f 44 24 08 (pop DWORD PTR [esp+8])' if name == 'pop' else None)
                else:
                    R.ok(inst, sample='%s %s: addresses relative to the right value of esp' % (name, form))


class DoubleWrite(Exception):
    pass


def lifted_effect(I, f, args, val, opmode='u32'):
    """Evaluate the assignments a semantic function returns for the operand terms `args` in the state `val` (names -> integers):
    the state after the instruction, all sources read in the pre-state.  Raises Refuse outside the evaluable subset."""
    from ..lifter import InfoObj
    res = I.run(f, [InfoObj(opmode, 'u32')] + list(args))
    outs = []
    for dec, tmpl in res:
        if isinstance(tmpl, LiftError) or not isinstance(tmpl, list):
            raise Refuse('lifting raises %s' % getattr(tmpl, 'exc', tmpl))
        got = dict(val)
        written = set()
        for a in tmpl:
            if a.kind != 'Aff':
                continue
            v, w = eval_small(a.src, val)
            d = a.dst
            base = d.name if d.kind == 'Id' else (d.arg.name if d.kind == 'Slice' and d.arg.kind == 'Id' else None)
            if base is not None:
                if base in written:
                    # eval_instr turns a write to a part of a register into a write of the whole register (built from the pre-state):
                    # of two assignments to one register only one survives
                    raise DoubleWrite(base)
                written.add(base)
            if d.kind == 'Id':
                got[d.name] = v & ((1 << get_size_(d)) - 1)
            elif d.kind == 'Slice' and d.arg.kind == 'Id':
                msk = ((1 << (d.stop - d.start)) - 1) << d.start
                got[d.arg.name] = (got[d.arg.name] & ~msk) | ((v << d.start) & msk)
            else:
                raise Refuse('destination %s' % show(d))
        outs.append(got)
    return outs


def count_zero_rule(ctx, R, L, sem):
    """Shifts and rotates whose count, masked to 5 bits, is 0 change neither the operand nor any flag."""
    from ..lifter import TId, TSlice, TInt, ModVal
    I = L.I
    ebx, ecx = TId('ebx', 32, is_reg=True), TId('ecx', 32, is_reg=True)
    cl = TSlice(ecx, 0, 8)
    for name in ('rol', 'ror', 'rcl', 'rcr', 'shl', 'sal', 'shr', 'sar', 'shld', 'shrd'):
        f = L.mnemo_func.get(name)
        if f is None:
            raise AnalysisError('ia32_sem.mnemo_func has no %r' % name)
        for width, dst in ((32, ebx), (16, TSlice(ebx, 0, 16)), (8, TSlice(ebx, 0, 8))):
            if name in ('shld', 'shrd') and width == 8:
                continue
            for cnt, as_imm in ((0, False), (32, False), (0x40, False), (0xE0, False), (0, True), (0x20, True), (0x40, True), (0xE0, True)):
                for flags in ((0, 0, 0, 0, 0, 0), (1, 1, 1, 1, 1, 1), (1, 0, 1, 0, 1, 0)):
                    val = dict(zip(('cf', 'pf', 'af', 'zf', 'nf', 'of'), flags))
                    val.update({'ebx': 0x80000181, 'ecx': 5 if as_imm else cnt, 'edx': 0x7fff0001})
                    # the count: the register cl, or the immediate byte of C0 / C1 /digit ib and 0F A4 / 0F AC (an imm8 whose low five bits are 0 is a count of 0)
                    count_op = TInt(ModVal(8, cnt), leaf='imm') if as_imm else cl
                    args = [dst, count_op] if name not in ('shld', 'shrd') else [dst, (TId('edx', 32, is_reg=True) if width == 32 else TSlice(TId('edx', 32, is_reg=True), 0, 16)), count_op]
                    inst = 'count0:%s:%d:%s=%#x:%s' % (name, width, 'imm8' if as_imm else 'cl', cnt, ''.join(str(x) for x in flags))
                    try:
                        outs = lifted_effect(I, f, args, val)
                    except LiftUnknown as e:
                        raise AnalysisError('%s is outside the modelled subset: %s' % (name, e))
                    except Refuse as e:
                        raise AnalysisError('%s: lifted assignments outside the evaluable subset: %s' % (name, e))
                    changed = sorted(k for got in outs for k in got if got[k] != val[k])
                    if changed:
                        R.violation(inst, 'count0:%s:%s%s' % (name, 'imm8:' if as_imm else '', ','.join(changed)), '%s of a %d-bit operand by %s = %#x (masked count 0) changes %s; IA-32 leaves the operand and every flag unchanged'
                                    % (name, width, 'imm8' if as_imm else 'cl', cnt, ', '.join(changed)), where(sem, f.node), count=False, witness='c1 e0 00 (shl eax, 0) with zf = 1')
                    else:
                        R.ok(inst, nontrivial=(len(R.nontrivial) < 200), sample='%s %d-bit by %s = %#x: nothing changes' % (name, width, 'imm8' if as_imm else 'cl', cnt))


ARITH_EVALUATED = ('add', 'adc', 'sub', 'sbb', 'cmp', 'l_cmp', 'neg', 'inc', 'dec', 'xadd', 'cmpxchg')


def arith_value_rule(ctx, R, L, sem):
    """The integer arithmetic instructions lifted on register operands and evaluated on boundary values: what the flags are computed from is decided by their values,
    whatever helper receives which argument (complements the call-site clause of D2; AF is excluded: known finding af:helper:arity:1)."""
    from ..lifter import TId, TSlice
    I = L.I
    ebx, ecx, eax = TId('ebx', 32, is_reg=True), TId('ecx', 32, is_reg=True), TId('eax', 32, is_reg=True)

    def parity(v):
        return 1 - (bin(v & 0xFF).count('1') & 1)

    def ref(name, w, a, b, cin, acc):
        m = (1 << w) - 1
        msb = lambda v: (v >> (w - 1)) & 1
        out = {}
        if name in ('add', 'adc', 'xadd', 'inc'):
            c = cin if name == 'adc' else 0
            if name == 'inc':
                b = 1
            r = (a + b + c) & m
            out.update(res=r, cf=(a + b + c) >> w, of=int(msb(a) == msb(b) and msb(r) != msb(a)))
            if name == 'inc':
                del out['cf']
        elif name in ('sub', 'sbb', 'cmp', 'dec'):
            c = cin if name == 'sbb' else 0
            if name == 'dec':
                b = 1
            r = (a - b - c) & m
            out.update(res=r, cf=int(a < b + c), of=int(msb(a) != msb(b) and msb(r) != msb(a)))
            if name == 'dec':
                del out['cf']
        elif name == 'neg':
            r = (-a) & m
            out.update(res=r, cf=int(a != 0), of=int(a == 1 << (w - 1)))
        elif name == 'cmpxchg':
            r = (acc - a) & m
            out.update(res=r, cf=int(acc < a), of=int(msb(acc) != msb(a) and msb(r) != msb(acc)))
        r = out['res']
        out.update(zf=int(r == 0), nf=msb(r), pf=parity(r))
        return out
    for name in ('add', 'adc', 'sub', 'sbb', 'cmp', 'neg', 'inc', 'dec', 'xadd', 'cmpxchg'):
        f = L.mnemo_func.get(name)
        if f is None:
            raise AnalysisError('ia32_sem.mnemo_func has no %r' % name)
        for w in (32, 16, 8):
            dst = ebx if w == 32 else TSlice(ebx, 0, w)
            src = ecx if w == 32 else TSlice(ecx, 0, w)
            m = (1 << w) - 1
            vals = [0, 1, m, 1 << (w - 1), (1 << (w - 1)) - 1, 0x5A & m]
            bad = None
            n = 0
            for a in vals:
                for b in (vals if name not in ('neg', 'inc', 'dec') else [0]):
                    for cin in ((0, 1) if name in ('adc', 'sbb') else (0,)):
                        acc = (0x5A5A5A5A if a % 2 else a) & m
                        val = {'ebx': 0xA5A50000 & ~m | a if w < 32 else a, 'ecx': 0x12340000 & ~m | b if w < 32 else b, 'eax': acc | (0x77770000 & ~m if w < 32 else 0),
                               'cf': cin, 'pf': 0, 'af': 0, 'zf': 0, 'nf': 0, 'of': 0}
                        args = [dst] if name in ('neg', 'inc', 'dec') else [dst, src]
                        try:
                            outs = lifted_effect(I, f, args, val)
                        except DoubleWrite as e:
                            bad = 'writes %s twice' % e
                            break
                        except LiftUnknown as e:
                            raise AnalysisError('%s is outside the modelled subset: %s' % (name, e))
                        except Refuse as e:
                            raise AnalysisError('%s: lifted assignments outside the evaluable subset: %s' % (name, e))
                        want = ref(name, w, a, b, cin, acc)
                        n += 1
                        for got in outs:
                            g = {'zf': got['zf'], 'nf': got['nf'], 'pf': got['pf'], 'of': got['of']}
                            if 'cf' in want:
                                g['cf'] = got['cf']
                            wflags = dict((k_, v_) for k_, v_ in want.items() if k_ != 'res')
                            if name == 'cmp':
                                res_ok = got['ebx'] == val['ebx']
                            elif name == 'cmpxchg':
                                res_ok = (got['ebx'] & m) == (b if acc == a else a) and (got['eax'] & m) == (acc if acc == a else a)
                            elif name == 'xadd':
                                res_ok = (got['ebx'] & m) == want['res'] and (got['ecx'] & m) == a
                            else:
                                res_ok = (got['ebx'] & m) == want['res'] and (got['ebx'] & ~m) == (val['ebx'] & ~m)
                            if (g != wflags or not res_ok) and bad is None:
                                diff = sorted(k_ for k_ in wflags if g.get(k_) != wflags[k_])
                                bad = 'with operands %#x, %#x%s (%d bits): %s' % (a, b, (', cf = %d' % cin) if name in ('adc', 'sbb') else '', w,
                                                                                 ('the result is wrong' if not res_ok else 'flags %s are %s, IA-32: %s' % (
                                                                                     ', '.join(diff), ', '.join(str(g.get(k_)) for k_ in diff), ', '.join(str(wflags[k_]) for k_ in diff))))
                    if bad:
                        break
                if bad:
                    break
            inst = 'arith:%s:%d' % (name, w)
            if bad:
                R.violation(inst, 'arith:%s:%s' % (name, 'flags' if 'flags' in bad else 'result' if 'result' in bad else 'double-write'), '%s %s' % (name, bad), where(sem, f.node))
            else:
                R.ok(inst, sample='%s at %d bits: result and CF/OF/ZF/SF/PF as IA-32 defines them on %d operand vectors' % (name, w, n))


def address_value_rule(ctx, R, L, sem):
    """The decoder merges base and index when they are one register (eax + eax*4 carries the coefficient 5): the lifted address is evaluated, not read."""
    I = L.I
    afs = L.X.afs
    d2e = I.g.get('dict_to_Expr')
    if d2e is None:
        raise AnalysisError('ia32_sem.dict_to_Expr not found')
    base_op = None
    for inst in L.instances:
        for od in inst.operands:
            if od.get(afs.ad) and any(isinstance(k, int) for k in od) and not any(v is not None and v for k, v in inst.modifs.items() if k not in (L.X.env.get('w8'),)) \
                    and od.get(afs.size) == afs.u32:
                base_op = (od, inst)
                break
        if base_op:
            break
    if base_op is None:
        raise AnalysisError('no plain 32-bit memory operand form among the lifter forms')
    od0, inst0 = base_op
    proto = dict((a, b) for a, b in od0.items() if not isinstance(a, int) and a != afs.imm)
    names32 = list(afs.reg_list32)
    val = dict(zip(names32, (0x11111111, 0x80000003, 0x7FFFFFF5, 0x00010007, 0xFFFFFFF9, 0x2468ACE1, 0x0000FFFF, 0xDEADBEEF)))
    from ..lifter import ModVal
    cases = []
    for c in (1, 2, 3, 4, 5, 8, 9):
        for disp in (None, 0x10, -4 & 0xffffffff):
            cases.append(({3: c}, disp))
    for c in (1, 2, 4, 8):
        cases.append(({0: 1, 6: c}, None))
        cases.append(({5: 1, 1: c}, 0x7fffff00))
    n = 0
    for admode, bits in (('u32', 32), ('u16', 16)):
        for regs, disp in cases:
            if admode == 'u16' and (any(c_ not in (1,) for c_ in regs.values()) or len(regs) > 2):
                continue
            d = dict(proto)
            d.update(regs)
            if disp is not None:
                d[afs.imm] = ModVal(bits, disp)
            inst = 'address[%s%s,%s]' % ('+'.join('%d*%s' % (c_, names32[k_]) for k_, c_ in sorted(regs.items())), '' if disp is None else '+%#x' % disp, admode)
            try:
                r = I.run(d2e, [d, inst0.modifs, inst0.opmode, admode, set()])
            except LiftUnknown as e:
                raise AnalysisError('dict_to_Expr outside the modelled subset on %s: %s' % (d, e))
            for dec, t in r:
                if isinstance(t, LiftError):
                    R.ok(inst + ':error', nontrivial=False)       # C11.D1 reports operands that do not lift
                    continue
                if t.kind != 'Mem':
                    R.violation(inst, 'address:not-memory', 'the memory operand %s is lifted to %s' % (inst, show(t)), where(sem, d2e.node))
                    continue
                v16 = dict((k_, v_ & 0xffff) for k_, v_ in val.items())
                try:
                    got, w = eval_small(t.arg, val)
                except Refuse:
                    try:
                        names16 = dict((str(n16), val[n32] & 0xffff) for n16, n32 in zip(getattr(afs, 'reg_list16', []), names32))
                        got, w = eval_small(t.arg, dict(val, **names16))
                    except Refuse as e:
                        raise AnalysisError('%s: address %s outside the evaluable subset: %s' % (inst, show(t.arg), e))
                want = (sum(c_ * val[names32[k_]] for k_, c_ in regs.items()) + (disp or 0)) & ((1 << bits) - 1)
                n += 1
                if got & ((1 << bits) - 1) == want:
                    R.ok(inst, sample='%s -> @[%s]' % (inst, show(t.arg)))
                else:
                    R.violation(inst, 'address:%s:%s' % (admode, '+'.join('%d*r' % c_ for _, c_ in sorted(regs.items()))), 'the operand %s is lifted to the address %s, whose value for %s is %#x; '
                                'the processor computes %#x' % (inst, show(t.arg), ', '.join('%s=%#x' % (names32[k_], val[names32[k_]]) for k_ in sorted(regs)), got, want), where(sem, d2e.node),
                                witness='8d 04 80 (lea eax, [eax+eax*4])')


def same_register_parts_rule(ctx, R, L, sem):
    """Two-operand instructions that write both operands (xchg, xadd) on two parts of one register (al, ah)."""
    from ..lifter import TId, TSlice
    I = L.I
    eax = TId('eax', 32, is_reg=True)
    al, ah = TSlice(eax, 0, 8), TSlice(eax, 8, 16)
    EAX0 = 0x1970B2F4

    def ref(name, a_is_al):
        lo, hi = EAX0 & 0xff, (EAX0 >> 8) & 0xff
        a, b = (lo, hi) if a_is_al else (hi, lo)
        if name == 'xchg':
            a, b = b, a
        else:
            a, b = (a + b) & 0xff, a
        lo, hi = (a, b) if a_is_al else (b, a)
        return (EAX0 & 0xffff0000) | (hi << 8) | lo
    # one register named twice: xchg r, r leaves it unchanged, xadd r, r doubles it (the destination is written last), at 32, 16 and 8 bits
    ax = TSlice(eax, 0, 16)
    for name in ('xchg', 'xadd'):
        f = L.mnemo_func.get(name)
        if f is None:
            raise AnalysisError('ia32_sem.mnemo_func has no %r' % name)
        for label, opnd, lo_, w_ in (('eax, eax', eax, 0, 32), ('ax, ax', ax, 0, 16), ('al, al', al, 0, 8), ('ah, ah', ah, 8, 8)):
            inst = 'same:%s %s' % (name, label)
            val = {'eax': EAX0, 'cf': 0, 'pf': 0, 'af': 0, 'zf': 0, 'nf': 0, 'of': 0}
            twin = TSlice(eax, opnd.start, opnd.stop) if getattr(opnd, 'kind', None) == 'Slice' else opnd
            try:
                outs = lifted_effect(I, f, [opnd, twin], val)
            except DoubleWrite as e:
                R.violation(inst, 'same:%s' % name, '%s assigns the register %s twice in one instruction: which value survives depends on the order of the two assignments' % (inst[5:], e),
                            where(sem, f.node), witness='0f c1 c0 (xadd eax, eax)')
                continue
            except LiftUnknown as e:
                raise AnalysisError('%s is outside the modelled subset: %s' % (name, e))
            except Refuse as e:
                raise AnalysisError('%s: lifted assignments outside the evaluable subset: %s' % (name, e))
            msk = ((1 << w_) - 1) << lo_
            old_ = (EAX0 & msk) >> lo_
            new_ = old_ if name == 'xchg' else (2 * old_) & ((1 << w_) - 1)
            want = (EAX0 & ~msk) | (new_ << lo_)
            bad = [got['eax'] for got in outs if got['eax'] != want]
            if bad:
                R.violation(inst, 'same:%s' % name, '%s with eax = %#x gives eax = %#x; IA-32: %#x (the destination is written last: xadd r, r doubles r)' % (inst[5:], EAX0, bad[0], want),
                            where(sem, f.node), witness='0f c1 c0 (xadd eax, eax)')
            else:
                R.ok(inst, sample='%s: eax %#x -> %#x' % (inst[5:], EAX0, want))
    for name in ('xchg', 'xadd'):
        f = L.mnemo_func.get(name)
        if f is None:
            raise AnalysisError('ia32_sem.mnemo_func has no %r' % name)
        for a_is_al in (True, False):
            args = [al, ah] if a_is_al else [ah, al]
            inst = 'parts:%s %s' % (name, 'al, ah' if a_is_al else 'ah, al')
            val = {'eax': EAX0, 'cf': 0, 'pf': 0, 'af': 0, 'zf': 0, 'nf': 0, 'of': 0}
            try:
                outs = lifted_effect(I, f, args, val)
            except DoubleWrite as e:
                R.violation(inst, 'parts:%s' % name, '%s assigns the register %s twice in one instruction: the evaluator rewrites a write to a part of a register into a write of the whole '
                            'register, so one of the two is lost' % (inst[6:], e), where(sem, f.node), witness='86 e0 (xchg al, ah) gives al = ah = old ah')
                continue
            except LiftUnknown as e:
                raise AnalysisError('%s is outside the modelled subset: %s' % (name, e))
            except Refuse as e:
                raise AnalysisError('%s: lifted assignments outside the evaluable subset: %s' % (name, e))
            want = ref(name, a_is_al)
            bad = [got['eax'] for got in outs if got['eax'] != want]
            if bad:
                R.violation(inst, 'parts:%s' % name, '%s with eax = %#x gives eax = %#x; IA-32: %#x (both parts of the register are written; as two assignments one is lost)'
                            % (inst[6:], EAX0, bad[0], want), where(sem, f.node), witness='86 e0 (xchg al, ah)')
            else:
                R.ok(inst, sample='%s: eax %#x -> %#x' % (inst[6:], EAX0, want))


def shift_ref(name, w, a, b2, n, cf):
    """IA-32 reference (SDM pseudo-code; validated at authoring time against the host CPU on 23 000 vectors, DESIGN 12.9).
    (result, cf, of|None) of IA-32 shift/rotate `name` on w-bit operand a (b2 = second operand of shld/shrd), count n (already masked to 5 bits, n > 0)."""
    m=(1<<w)-1; a&=m; msb=lambda v:(v>>(w-1))&1
    of=None
    if name in ('shl','sal'):
        if n>w: return 0, None, None
        r=(a<<n)&m; c=(a>>(w-n))&1 if n<=w else None
        if n==1: of=msb(r)^c
        return r,c,of
    if name=='shr':
        if n>w: return 0, None, None
        r=a>>n; c=(a>>(n-1))&1
        if n==1: of=msb(a)
        return r,c,of
    if name=='sar':
        s=a-(1<<w) if msb(a) else a
        r=(s>>min(n,w))&m; c=(s>>(min(n,w)-1))&1 if n<=w else msb(a)
        if n==1: of=0
        return r,c,of
    if name=='shld':
        if n>w: return None,None,None
        r=((a<<n)|((b2&m)>>(w-n)))&m; c=(a>>(w-n))&1
        if n==1: of=msb(r)^msb(a)
        return r,c,of
    if name=='shrd':
        if n>w: return None,None,None
        r=((a>>n)|((b2&m)<<(w-n)))&m; c=(a>>(n-1))&1
        if n==1: of=msb(r)^msb(a)
        return r,c,of
    if name=='rol':
        k=n%w; r=((a<<k)|(a>>(w-k)))&m if k else a; c=r&1
        if n==1: of=msb(r)^c
        return r,c,of
    if name=='ror':
        k=n%w; r=((a>>k)|(a<<(w-k)))&m if k else a; c=msb(r)
        if n==1: of=msb(r)^((r>>(w-2))&1)
        return r,c,of
    if name in ('rcl','rcr'):
        k=n%(w+1); big=(cf<<w)|a; full=(1<<(w+1))-1
        if name=='rcl': rot=((big<<k)|(big>>(w+1-k)))&full
        else: rot=((big>>k)|(big<<(w+1-k)))&full
        r=rot&m; c=rot>>w
        if k==0: c=cf
        if n==1: of=(msb(r)^c) if name=='rcl' else (msb(r)^((r>>(w-2))&1))
        return r,c,of


def shift_value_rule(ctx, R, L, sem):
    """Result, CF, OF (count 1) and ZF/SF/PF of the shifts and rotates: the lifted assignments are evaluated on boundary operands x counts
    and compared with shift_ref."""
    from ..lifter import TId, TSlice, TInt, ModVal
    I = L.I
    ebx, edx = TId('ebx', 32, is_reg=True), TId('edx', 32, is_reg=True)
    vals = [0, 1, 0x80, 0x81, 0xff, 0x8000, 0x8001, 0xffff, 0x80000000, 0x80000001, 0xffffffff, 0x12345678, 0x7fffffff]
    par = lambda v: 1 - bin(v & 0xff).count('1') % 2
    for name in ('rol', 'ror', 'rcl', 'rcr', 'shl', 'shr', 'sar', 'shld', 'shrd'):
        f = L.mnemo_func.get(name)
        if f is None:
            raise AnalysisError('ia32_sem.mnemo_func has no %r' % name)
        for w, same in ((32, False), (16, False), (8, False), (32, True), (16, True)):
            # same: the double shifts with one register named twice (shld eax, eax, n), which a lifter may tell apart
            if name in ('shld', 'shrd') and w == 8:
                continue
            if same and name not in ('shld', 'shrd'):
                continue
            dst = ebx if w == 32 else TSlice(ebx, 0, w)
            src2 = edx if w == 32 else TSlice(edx, 0, w)
            m = (1 << w) - 1
            bad = None
            n_vec = 0
            for cnt in (1, 2, 7, 8, 9, 15, 16, 17, 24, 31):
                if name in ('shld', 'shrd') and cnt > min(w, 31):
                    continue
                # the decoder hands the immediate count over as an 8-bit constant
                cterm = TInt(ModVal(8, cnt))
                for a in vals:
                    for cf in (0, 1):
                        val = {'ebx': a, 'edx': 0x80000001, 'ecx': 0, 'cf': cf, 'pf': 0, 'af': 0, 'zf': 0, 'nf': 0, 'of': 0}
                        args = [dst, cterm] if name not in ('shld', 'shrd') else [dst, dst if same else src2, cterm]
                        try:
                            outs = lifted_effect(I, f, args, val, 'u32' if w != 16 else 'u16')
                        except LiftUnknown as e:
                            raise AnalysisError('%s is outside the modelled subset: %s' % (name, e))
                        except Refuse as e:
                            raise AnalysisError('%s: lifted assignments outside the evaluable subset: %s' % (name, e))
                        r, c, of_ = shift_ref(name, w, a, a if same else 0x80000001, cnt, cf)
                        if r is None:
                            continue
                        n_vec += 1
                        for got in outs:
                            res = got['ebx'] & m
                            prob = None
                            if res != r:
                                prob = 'result %#x, IA-32 %#x' % (res, r)
                            elif c is not None and got['cf'] != c:
                                prob = 'CF %d, IA-32 %d' % (got['cf'], c)
                            elif of_ is not None and got['of'] != of_:
                                prob = 'OF %d, IA-32 %d' % (got['of'], of_)
                            elif name in ('shl', 'shr', 'sar', 'shld', 'shrd') and (got['zf'], got['nf'], got['pf']) != (int(r == 0), r >> (w - 1), par(r)):
                                prob = 'ZF/SF/PF %s, IA-32 %s' % ((got['zf'], got['nf'], got['pf']), (int(r == 0), r >> (w - 1), par(r)))
                            if prob and bad is None:
                                bad = (cnt, a, cf, prob)
            inst = 'shift-value:%s:%d%s' % (name, w, ':same-register' if same else '')
            if bad:
                cnt, a, cf, prob = bad
                R.violation(inst, 'shift-value:%s:%d:%s%s' % (name, w, prob.split()[0], ':same' if same else ''), '%s of the %d-bit operand %#x%s by %d (CF = %d): %s' % (name, w, a, ' (both operands one register)' if same else '', cnt, cf, prob), where(sem, f.node),
                            witness='%s on %#x by %d' % (name, a, cnt))
            else:
                R.ok(inst, sample='%s %d-bit: %d vectors agree with the IA-32 definition' % (name, w, n_vec))


def stack_pointer_rule(ctx, R, L, sem):
    """In a 32-bit code segment the stack pointer is esp whatever the operand size: a 0x66 prefix changes the size of the slot (2 bytes), not the register
    that addresses it - push/pop are lifted that way.  The lifted templates of the other stack instructions are evaluated under the 16-bit operand size with
    esp = 0x1234fffe (the increment has to carry into the high half) and ebp = 0x12350020: cells read and written, and the esp / ebp that result."""
    from ..lifter import TMem, TOp, TId, TInt, ModVal, InfoObj, walk_terms
    I = L.I
    ESP0, EBP0, NEXT = 0x1234fffe, 0x12350020, 0x401005
    val = {'esp': ESP0, 'ebp': EBP0, 'cs': 0x23}
    nxt = TInt(ModVal(32, NEXT))
    dest = TInt(ModVal(16, 0x2211))
    imm4 = TInt(ModVal(16, 4))
    imm16 = TInt(ModVal(16, 0x10))
    imm0 = TInt(ModVal(8, 0))

    def new_reg(tmpl, reg, old):
        """value of a 32-bit register after the assignments (whole-register or slice destinations), None when not assigned"""
        out = None
        atoms = dict((show(t), 0x7777) for a in tmpl if a.kind == 'Aff' for t in walk_terms(a.src) if t.kind == 'Mem')     # what a popped cell holds
        for a in tmpl:
            if a.kind != 'Aff':
                continue
            if a.dst.kind == 'Id' and a.dst.name == reg:
                out = eval_small(a.src, val, atoms)[0] & 0xffffffff
            elif a.dst.kind == 'Slice' and a.dst.arg.kind == 'Id' and a.dst.arg.name == reg:
                w = a.dst.stop - a.dst.start
                v = eval_small(a.src, val, atoms)[0] & ((1 << w) - 1)
                base = old if out is None else out
                out = (base & ~(((1 << w) - 1) << a.dst.start)) | (v << a.dst.start)
        return out

    def cells(tmpl):
        """(written addresses, read addresses) of memory cells, as 32-bit-or-narrower values with the address width"""
        wr, rd = [], []
        for a in tmpl:
            if a.kind != 'Aff':
                continue
            if a.dst.kind == 'Mem':
                wr.append((eval_small(a.dst.arg, val)[0], get_size(a.dst.arg), a.dst.size))
            for t in walk_terms(a.src):
                if t.kind == 'Mem':
                    rd.append((eval_small(t.arg, val)[0], get_size(t.arg), t.size))
        return wr, rd
    CASES = [
        ('call', 'call rel16', [nxt, dest], {'esp': ESP0 - 2, 'wr': [ESP0 - 2], 'rd': []}),
        ('ret', 'ret', [], {'esp': ESP0 + 2, 'wr': [], 'rd': [ESP0]}),
        ('ret', 'ret 4', [imm4], {'esp': ESP0 + 6, 'wr': [], 'rd': [ESP0]}),
        ('retf', 'retf', [], {'esp': ESP0 + 4, 'wr': [], 'rd': [ESP0, ESP0 + 2]}),
        ('leave', 'leave', [], {'esp': EBP0 + 2, 'wr': [], 'rd': [EBP0], 'ebp_hi': EBP0 >> 16}),
        ('enter', 'enter 16, 0', [imm16, imm0], {'esp': ESP0 - 2 - 16, 'wr': [ESP0 - 2], 'rd': [], 'ebp': (EBP0 & 0xffff0000) | ((ESP0 - 2) & 0xffff)}),
    ]
    dest32 = TInt(ModVal(32, 0x44332211))
    CASES32 = [
        ('call', 'call rel32', [nxt, dest32], {'esp': ESP0 - 4, 'wr': [ESP0 - 4], 'rd': []}),
        ('ret', 'ret', [], {'esp': ESP0 + 4, 'wr': [], 'rd': [ESP0]}),
        ('ret', 'ret 4', [imm4], {'esp': ESP0 + 8, 'wr': [], 'rd': [ESP0]}),
        ('retf', 'retf', [], {'esp': ESP0 + 8, 'wr': [], 'rd': [ESP0, ESP0 + 4]}),
        ('retf', 'retf 4', [imm4], {'esp': ESP0 + 12, 'wr': [], 'rd': [ESP0, ESP0 + 4]}),
        ('leave', 'leave', [], {'esp': EBP0 + 4, 'wr': [], 'rd': [EBP0]}),
        ('enter', 'enter 16, 0', [imm16, imm0], {'esp': ESP0 - 4 - 16, 'wr': [ESP0 - 4], 'rd': [], 'ebp': (ESP0 - 4) & 0xffffffff}),
    ]
    for opm, (name, label, args, want) in [('u16', c) for c in CASES] + [('u32', c) for c in CASES32]:
        f = L.mnemo_func.get(name)
        if f is None:
            raise AnalysisError('ia32_sem.mnemo_func has no %r' % name)
        inst = 'stack pointer: %s%s' % ('66 ' if opm == 'u16' else '', label)
        slot = 16 if opm == 'u16' else 32
        try:
            res = I.run(f, [InfoObj(opm, 'u32')] + args)
        except LiftUnknown as e:
            raise AnalysisError('%s is outside the modelled subset under the 16-bit operand size: %s' % (name, e))
        for dec, tmpl in res:
            if isinstance(tmpl, LiftError) or not isinstance(tmpl, list):
                R.violation(inst, 'stackptr:%s:%s:raises' % (opm, label), 'lifting %s under the %d-bit operand size raises %s' % (label, slot, getattr(tmpl, 'exc', tmpl)), where(sem, f.node))
                continue
            problems = []
            try:
                wr, rd = cells(tmpl)
                got_esp = new_reg(tmpl, 'esp', ESP0)
                if got_esp != (want['esp'] & 0xffffffff):
                    problems.append('esp = %#x becomes %s, IA-32: %#x' % (ESP0, 'unchanged' if got_esp is None else '%#x' % got_esp, want['esp'] & 0xffffffff))
                for kind, got_cells, want_cells in (('written', wr, want['wr']), ('read', rd, want['rd'])):
                    got_addrs = sorted(a_ & 0xffffffff for a_, w_, _s in got_cells)
                    narrow = [a_ for a_, w_, _s in got_cells if w_ != 32]
                    if narrow:
                        problems.append('a stack cell is addressed with %d bits (%s): the stack pointer of a 32-bit segment is esp' % (got_cells[0][1], ', '.join('%#x' % a_ for a_ in narrow)))
                    elif got_addrs != sorted(x & 0xffffffff for x in want_cells):
                        problems.append('cells %s: %s, IA-32: %s' % (kind, [hex(x) for x in got_addrs], [hex(x & 0xffffffff) for x in sorted(want_cells)]))
                    if any(s_ != slot and not (name == 'retf' and s_ == 16) for _a, _w, s_ in got_cells):
                        problems.append('a stack slot of %s bits under the %d-bit operand size' % (sorted(set(s_ for _a, _w, s_ in got_cells)), slot))
                if 'ebp' in want:
                    g = new_reg(tmpl, 'ebp', EBP0)
                    if g != want['ebp']:
                        problems.append('ebp becomes %s, IA-32: %#x (bp = low word of the frame pointer, high half kept)' % ('unchanged' if g is None else '%#x' % g, want['ebp']))
                if 'ebp_hi' in want:
                    g = new_reg(tmpl, 'ebp', EBP0)
                    if g is None or (g >> 16) != want['ebp_hi']:
                        problems.append('the high half of ebp is not kept')
            except (Refuse, SizeError) as e:
                raise AnalysisError('%s: lifted template not evaluable: %s' % (inst, e))
            if problems:
                R.violation(inst, 'stackptr:%s%s' % ('66 ' if opm == 'u16' else '', label), '%s under the %d-bit operand size: %s' % (label, slot, '; '.join(problems)), where(sem, f.node),
                            witness='66 c3 with esp = 0x1234fffe: IA-32 reads the word at 0x1234fffe and leaves esp = 0x12350000')
            else:
                R.ok(inst, sample='%s: esp, cells and frame pointer as IA-32 prescribes for esp = %#x' % (inst, ESP0))


def bittest_address_rule(ctx, R, L, sem):
    """bt/bts/btr/btc with a memory operand: a register bit offset is signed and also selects the (d)word (address + size/8 * floor(offset / size));
    an immediate offset is taken modulo the operand size and never leaves the operand.  The lifted carry flag is evaluated: the cell it reads
    and the bit it takes."""
    from ..lifter import TMem, TId, TSlice, TInt, ModVal, walk_terms
    I = L.I
    esi, ecx = TId('esi', 32, is_reg=True), TId('ecx', 32, is_reg=True)
    BASE = 0x40000
    for name in ('bt', 'bts', 'btr', 'btc'):
        f = L.mnemo_func.get(name)
        if f is None:
            raise AnalysisError('ia32_sem.mnemo_func has no %r' % name)
        for width in (32, 16):
            mem = TMem(esi, width)
            for kind in ('reg', 'imm'):
                offs = [0, 1, width - 1, width, width + 1, 3 * width + 5, -1, -width, -width - 1, -2 * width - 7] if kind == 'reg' else [0, 1, width - 1, width, width + 1, 0xff]
                bad = None
                for off in offs:
                    if kind == 'reg':
                        b = ecx if width == 32 else TSlice(ecx, 0, 16)
                        val = {'esi': BASE, 'ecx': off & 0xffffffff if width == 32 else (0x7fff0000 | (off & 0xffff))}
                    else:
                        # the decoder hands the imm8 over in the operand size
                        b = TInt(ModVal(width, off))
                        val = {'esi': BASE, 'ecx': 0}
                    val.update({'cf': 0, 'pf': 0, 'af': 0, 'zf': 0, 'nf': 0, 'of': 0})
                    try:
                        res = I.run(f, [InfoObj(('u32' if width == 32 else 'u16'), 'u32'), mem, b])
                    except LiftUnknown as e:
                        raise AnalysisError('%s is outside the modelled subset: %s' % (name, e))
                    for dec, tmpl in res:
                        if isinstance(tmpl, LiftError) or not isinstance(tmpl, list):
                            bad = bad or (off, 'lifting raises %s' % getattr(tmpl, 'exc', tmpl))
                            continue
                        cfs = [a.src for a in tmpl if a.kind == 'Aff' and a.dst.kind == 'Id' and a.dst.name == 'cf']
                        if not cfs:
                            bad = bad or (off, 'cf is not assigned')
                            continue
                        mems = [t for t in walk_terms(cfs[0]) if t.kind == 'Mem']
                        shifts = [t for t in walk_terms(cfs[0]) if t.kind == 'Op' and t.op == '>>' and len(t.args) == 2]
                        if len(mems) != 1:
                            bad = bad or (off, 'cf reads %d memory cells' % len(mems))
                            continue
                        try:
                            got_addr = eval_small(mems[0].arg, val)[0] & 0xffffffff
                            got_bit = eval_small(shifts[0].args[1], val)[0] if shifts else 0
                        except Refuse as e:
                            raise AnalysisError('%s: bit-test address outside the evaluable subset: %s' % (name, e))
                        if kind == 'reg':
                            want_addr = (BASE + (width // 8) * (off // width)) & 0xffffffff
                        else:
                            want_addr = BASE
                        want_bit = off % width
                        if (got_addr, got_bit) != (want_addr, want_bit) and bad is None:
                            bad = (off, 'cf is bit %d of the cell at esi%+d; IA-32: bit %d of the cell at esi%+d' % (got_bit, ((got_addr - BASE + 2**31) % 2**32) - 2**31, want_bit, want_addr - BASE))
                inst = 'bittest:%s:%d:%s' % (name, width, kind)
                if bad:
                    R.violation(inst, 'bittest:%s:%d:%s' % (name, width, kind), '%s %s PTR [esi], %s with bit offset %d: %s' % (name, 'DWORD' if width == 32 else 'WORD',
                                'a register' if kind == 'reg' else 'an immediate', bad[0], bad[1]), where(sem, f.node),
                                witness='0f a3 06 (bt DWORD PTR [esi], eax) with eax = -33' if kind == 'reg' else '0f ba 2e 21 (bts DWORD PTR [esi], 33) sets bit 1 of [esi], not of [esi+4]')
                else:
                    R.ok(inst, sample='%s %d-bit, %s offset: %d offsets address the right cell and bit' % (name, width, kind, len(offs)))


def run(ctx, report):
    L = LifterModel(ctx, opmodes=('u32', 'u16'), rich=True)
    I = L.I
    sem = L.sem
    ccref = load_cc_ref()
    eff = load_effects_ref()
    report.explanation = (
        'On the IR templates E4 derives from the lifter source: D1 the 1-bit condition of every jcc/setcc/cmovcc (and loop/loope/loopne/jecxz), '
        'abstracted to its truth table over cf/zf/nf/of/pf (exact enumeration of <= 32 flag valuations in a small-integer domain over the template, '
        'not an execution of miasmX), equals the architectural predicate of ref/ia32_cc.ref with the right polarity (taken arm = destination, 1 for '
        'setcc, source for cmovcc); D2 the carry/overflow helpers, abstracted in the bit-slice domain (a term of ^ & | ~ and msb slices is a boolean '
        'function of the three words\' most significant bits, for every width and value), equal carry-out/overflow of x+y and borrow/overflow of x-y, and '
        'every call site passes (x, y, x op y) with the same x, y in order; D3 per mnemonic of ref/ia32_effects.ref the status flags written are a '
        'superset of the architecturally defined ones and disjoint from the kept ones, and zf/sf/pf are computed from the very expression assigned to the '
        'destination (term identity).')
    report.not_decided = ('values of results, flag formulas of shifts/rotates for all counts, mul/div, memory operand addressing, the direct branch '
                          'target (the lifter receives the raw displacement), operand order of cmps -- these need concrete evaluation.')

    # ------------------------------------------------------------------ D1
    R1 = report.rule('C04.D1', 'condition-code predicates of jcc/setcc/cmovcc/loop agree with the architecture', floor=60)
    decoder_names = set(c.name for c in L.X.cells.values())
    info = InfoObj('u32')
    dest = TInt(ModVal(32, None), leaf='dest')
    nxt = TInt(ModVal(32, None), leaf='next_eip')
    ebx, ecx_ = TId('ebx', 32, False, True), TId('ecx', 32, False, True)
    bl = TSlice(ebx, 0, 8)
    for name in sorted(L.mnemo_func):
        cc = cc_of_name(ccref, name)
        if cc is None or name in ('jmp', 'jmpf', 'jecxz', 'setalc'):
            continue
        fam, code = cc
        pred = cc_predicate(ccref[code]['pred'])
        f = L.mnemo_func[name]
        args = {'j': [info, nxt, dest], 'set': [info, bl], 'cmov': [info, ebx, ecx_]}[fam]
        try:
            res = I.run(f, args)
        except LiftUnknown as e:
            raise AnalysisError('%s: %s' % (name, e))
        inst = '%s (%s)' % (name, f.name)
        live = name in decoder_names
        bad = None
        if len(res) != 1 or isinstance(res[0][1], LiftError):
            bad = 'does not lift on the canonical form: %s' % (res[0][1] if res else '')
        else:
            tmpl = res[0][1]
            affs = [a for a in tmpl if isinstance(a, Term) and a.kind == 'Aff']
            target = {'j': 'eip', 'set': 'ebx', 'cmov': 'ebx'}[fam]
            main = [a for a in affs if (a.dst.kind == 'Id' and a.dst.name == target) or (a.dst.kind == 'Slice' and a.dst.arg.kind == 'Id' and a.dst.arg.name == target)]
            if len(main) != 1:
                bad = 'no single assignment to %s' % target
            else:
                src = main[0].src
                try:
                    wrong = []
                    for v in valuations(CCVARS):
                        want = pred(v)
                        if fam == 'set':
                            got, _ = eval_small(src, v)
                            if got not in (0, 1) or bool(got) != want:
                                wrong.append((dict(v), got))
                        else:
                            if src.kind != 'Cond':
                                raise Refuse('source is not a conditional')
                            c, _ = eval_small(src.cond, v)
                            arm = src.src1 if c != 0 else src.src2
                            taken_term = dest if fam == 'j' else ecx_
                            other = nxt if fam == 'j' else ebx
                            if arm == taken_term:
                                got = True
                            elif arm == other:
                                got = False
                            else:
                                raise Refuse('arm %s is neither operand' % show(arm))
                            if got != want:
                                wrong.append((dict(v), got))
                    if wrong:
                        bad = 'condition is %s; it differs from the architectural predicate "%s" on %d of 32 flag valuations, e.g. %s' % (
                            show(src)[:90], ccref[code]['pred'], len(wrong), wrong[0][0])
                except Refuse as e:
                    raise AnalysisError('%s: condition outside the boolean domain (%s): %s' % (name, e, show(src)[:100]))
        if bad is None:
            R1.ok(inst, sample='%s: truth table over cf,zf,nf,of,pf == "%s" (code %d)' % (name, ccref[code]['pred'], code))
        elif live:
            R1.violation(inst, 'cc:%s:%s' % (f.name, ccref[code]['pred'].replace(' ', '')), '%s (code %d, %s): %s' % (name, code, f.name, bad), where(sem, f.node),
                         witness='0f 9e c0 (setle al) with zf=1, nf=of gives 0' if f.name == 'setle' else None)
        else:
            R1.ok(inst + ':dead', nontrivial=False)
            R1.note('%s -> %s disagrees with the architecture but the decoder never produces this name (dead entry): %s' % (name, f.name, bad[:120]))
    # loop family
    ecx = TId('ecx', 32, False, True)
    for name, want_fn in (('loop', lambda cnz, zf: cnz), ('loope', lambda cnz, zf: cnz and zf), ('loopne', lambda cnz, zf: cnz and not zf),
                          ('jecxz', lambda cnz, zf: not cnz)):
        f = L.mnemo_func.get(name)
        if f is None:
            R1.violation(name, 'cc:%s:missing' % name, '%s has no lifted semantics' % name)
            continue
        res = I.run(f, [info, nxt, dest])
        tmpl = res[0][1]
        if isinstance(tmpl, LiftError):
            R1.violation(name, 'cc:%s:error' % name, '%s does not lift: %s' % (name, tmpl), where(sem, f.node))
            continue
        main = [a for a in tmpl if a.kind == 'Aff' and a.dst.kind == 'Id' and a.dst.name == 'eip']
        cnt = [a for a in tmpl if a.kind == 'Aff' and a.dst.kind == 'Id' and a.dst.name == 'ecx']
        bad = None
        if len(main) != 1 or main[0].src.kind != 'Cond':
            bad = 'no conditional assignment to eip'
        else:
            src = main[0].src
            if name == 'jecxz':
                atom = ecx
            else:
                atom = None
                for x in walk_terms(src):
                    if x.kind == 'Op' and x.op in ('-', '+') and len(x.args) == 2 and x.args[0] == ecx:
                        atom = x
                        break
                if atom is None:
                    bad = 'the count expression ecx-1 does not occur in the condition'
                elif not (atom.op == '-' and atom.args[1].kind == 'Int' and atom.args[1].mod.val == 1):
                    bad = 'the count expression is %s, not ecx - 1' % show(atom)
                elif not (len(cnt) == 1 and cnt[0].src == atom):
                    bad = 'ecx is not assigned the same ecx - 1 that is tested'
            if bad is None:
                wrong = []
                for cnz in (0, 1):
                    for zfv in (0, 1):
                        try:
                            c, _ = eval_small(src.cond, {'zf': zfv}, atoms={show(atom): cnz})
                        except Refuse as e:
                            raise AnalysisError('%s: %s' % (name, e))
                        arm = src.src1 if c != 0 else src.src2
                        got = (arm == dest)
                        if arm != dest and arm != nxt:
                            raise AnalysisError('%s: arm is neither operand' % name)
                        if got != bool(want_fn(bool(cnz), bool(zfv))):
                            wrong.append((cnz, zfv))
                if wrong:
                    bad = 'branch condition wrong for (count!=0, zf) in %s' % wrong
        if bad is None:
            R1.ok(name, sample='%s: taken iff the architectural (count, zf) predicate; ecx := ecx - 1 is the tested value' % name)
        else:
            R1.violation(name, 'cc:%s' % name, '%s: %s' % (name, bad), where(sem, f.node))

    # ------------------------------------------------------------------ D2
    R2 = report.rule('C04.D2', 'carry/overflow helpers equal the architectural functions of the operands\' and result\'s sign bits', floor=12)
    X, Y, Z = TId('x', 32), TId('y', 32), TId('z', 32)
    maj = lambda a, b, c: (a & b) | (a & c) | (b & c)
    expected = {
        'update_flag_add_cf': lambda x, y, z: maj(x, y, x ^ y ^ z),
        'update_flag_add_of': lambda x, y, z: (1 ^ (x ^ y)) & (x ^ z),
        'update_flag_sub_cf': lambda x, y, z: maj(1 ^ x, y, x ^ y ^ z),
        'update_flag_sub_of': lambda x, y, z: (x ^ y) & (x ^ z),
    }
    for hname, fn in expected.items():
        f = I.g.get(hname)
        if not isinstance(f, FuncVal):
            raise AnalysisError('helper %s not found' % hname)
        res = I.run(f, [X, Y, Z])
        aff = res[0][1]
        if isinstance(aff, LiftError) or not (isinstance(aff, Term) and aff.kind == 'Aff'):
            raise AnalysisError('%s does not return an assignment' % hname)
        flag = aff.dst.name
        want_flag = 'cf' if hname.endswith('cf') else 'of'
        try:
            tbl = msb_function(aff.src, ['x', 'y', 'z'])
        except Refuse as e:
            raise AnalysisError('%s is outside the bit-slice domain (%s): %s' % (hname, e, show(aff.src)))
        wrong = [k for k, v in tbl.items() if v != fn(*k)]
        if flag != want_flag:
            R2.violation(hname, 'helper:%s:flag' % hname, '%s assigns %s, expected %s' % (hname, flag, want_flag), where(sem, f.node))
        elif wrong:
            R2.violation(hname, 'helper:%s:%s' % (hname, show(aff.src)), '%s = %s differs from the architectural %s on sign-bit combinations (x,y,result) %s'
                         % (hname, show(aff.src), 'carry/borrow' if want_flag == 'cf' else 'overflow', wrong), where(sem, f.node))
        else:
            R2.ok(hname, sample='%s: %s == architectural function on all 8 sign-bit combinations' % (hname, show(aff.src)))
    # call sites
    HELP = {'update_flag_add': '+', 'update_flag_sub': '-', 'update_flag_add_cf': '+', 'update_flag_add_of': '+',
            'update_flag_sub_cf': '-', 'update_flag_sub_of': '-'}
    for fname, fn in sorted(sem.funcs.items()):
        if fname in HELP:
            continue
        local = {}
        for n in walk_no_nested(fn):
            if isinstance(n, ast.Assign) and len(n.targets) == 1 and isinstance(n.targets[0], ast.Name):
                local.setdefault(n.targets[0].id, []).append(n.value)
        for n in walk_no_nested(fn):
            if isinstance(n, ast.Call) and isinstance(n.func, ast.Name) and n.func.id in HELP and len(n.args) == 3:
                op = HELP[n.func.id]
                a, b, c = n.args
                inst = '%s:%s' % (fname, norm(n))
                cdef = local.get(c.id, []) if isinstance(c, ast.Name) else [c]
                good = False
                why = 'third argument is not a single ExprOp definition'
                if len(cdef) == 1 and isinstance(cdef[0], ast.Call) and u(cdef[0].func) == 'ExprOp' and len(cdef[0].args) == 3:
                    opn, l, r = cdef[0].args
                    opv = opn.value if isinstance(opn, ast.Constant) else None
                    la, ra, A, B = u(l), u(r), u(a), u(b)
                    r_has_b = ra == B or (isinstance(r, ast.Call) and u(r.func) == 'ExprOp' and any(u(x) == B for x in r.args))
                    if opv != op:
                        why = 'result is built with %r, helper is for %r' % (opv, op)
                    elif la == A and r_has_b:
                        good = True
                    elif op == '+' and la == B and ra == A:
                        good = True
                    else:
                        why = 'helper receives (%s, %s) but the result is %s %s %s' % (A, B, la, op, ra)
                # the two operand arguments are the instruction's operands themselves: parameters that are never rebound,
                # or a single-definition constant (inc/dec/neg)
                params = [p.arg for p in fn.args.args]
                for arg in (a, b):
                    if not good:
                        break
                    if isinstance(arg, ast.Name):
                        defs_ = local.get(arg.id, [])
                        if arg.id in params and defs_:
                            good = False
                            why = 'operand argument %s is rebound before the call (%s): carry/overflow are then computed from a derived value, not from the instruction operand' % (
                                arg.id, norm(defs_[0])[:60])
                        elif arg.id not in params and defs_ and all(u(d_) == 'eax' or (isinstance(d_, ast.Call) and u(d_.func) == 'ExprSlice' and d_.args and u(d_.args[0]) == 'eax'
                                                                                   and len(d_.args) == 3 and isinstance(d_.args[1], ast.Constant) and d_.args[1].value == 0) for d_ in defs_):
                            pass            # the implicit accumulator operand (eax, or its low part of the operand size): cmpxchg
                        elif arg.id not in params and not (len(defs_) == 1 and isinstance(defs_[0], ast.Call) and u(defs_[0].func) in ('ExprInt_from', 'ExprInt32', 'ExprInt16', 'ExprInt8')):
                            good = False
                            why = 'operand argument %s is neither an instruction operand nor a single constant' % arg.id
                if good:
                    R2.ok(inst, sample='%s: %s with %s = %s' % (fname, norm(n), u(c), norm(cdef[0])[:70]))
                elif fname in ARITH_EVALUATED and why.startswith('operand argument'):
                    # where the operand comes from could not be traced through the locals of the function; what the flags of this instruction are computed
                    # from is decided on their values by D17
                    R2.ok(inst, nontrivial=False)
                    R2.note('%s: %s -- %s (not traced; the flags of %s are decided by evaluation, D17)' % (fname, norm(n), why, fname))
                else:
                    R2.violation(inst, 'callsite:%s:%s' % (fname, norm(n)), '%s: %s -- %s' % (fname, norm(n), why), where(sem, n))

    # ------------------------------------------------------------------ D5 auxiliary carry
    R5 = report.rule('C04.D5', 'AF is the carry/borrow out of bit 3: bit 4 of (operand ^ operand ^ result)', floor=1)
    faf = I.g.get('update_flag_af')
    if not isinstance(faf, FuncVal):
        raise AnalysisError('helper update_flag_af not found')
    npar = len(faf.node.args.args)
    if npar < 3:
        R5.violation('update_flag_af', 'af:helper:arity:%d' % npar, 'update_flag_af receives only %d argument(s) -- the result -- and sets AF to bit 4 of the result; AF is the carry out of bit 3, '
                     'bit 4 of a ^ b ^ result, so the two operands are needed (wrong for about half of all operand values of add/adc/sub/sbb/cmp/neg/inc/dec/xadd/cmps/scas)' % npar,
                     where(sem, faf.node), witness='add eax, ebx with eax = 0x10, ebx = 0: AF = 1 (processor: 0)')
    else:
        res = I.run(faf, [X, Y, Z])
        aff = res[0][1]
        aff = aff[0] if isinstance(aff, list) and aff else aff
        okaf = False
        detail = show(aff) if isinstance(aff, Term) else str(aff)
        if isinstance(aff, Term) and aff.kind == 'Aff' and aff.dst.kind == 'Id' and aff.dst.name == 'af' and aff.src.kind == 'Cond':
            cnd = aff.src.cond
            if cnd.kind == 'Op' and cnd.op == '&' and len(cnd.args) == 2:
                for t_, k_ in ((cnd.args[0], cnd.args[1]), (cnd.args[1], cnd.args[0])):
                    if k_.kind == 'Int' and k_.mod.val == 0x10 and t_.kind == 'Op' and t_.op == '^' and sorted(a_.name for a_ in t_.args if a_.kind == 'Id') == ['x', 'y', 'z'] and len(t_.args) == 3:
                        okaf = True
        if okaf:
            R5.ok('update_flag_af', sample='AF = ((a ^ b ^ result) & 0x10) != 0')
            # call sites pass the instruction operands and the result; dec subtracts 1
            for fname, fn in sorted(sem.funcs.items()):
                for n in walk_no_nested(fn):
                    if isinstance(n, ast.Call) and u(n.func) == 'update_flag_af':
                        inst = '%s:%s' % (fname, norm(n))
                        if len(n.args) == 3:
                            R5.ok(inst, sample=inst)
                        else:
                            R5.violation(inst, 'af:callsite:%s' % fname, '%s calls update_flag_af with %d argument(s)' % (fname, len(n.args)), where(sem, n))
        else:
            R5.violation('update_flag_af', 'af:helper:%s' % detail[:60], 'update_flag_af is not bit 4 of a ^ b ^ result: %s' % detail[:120], where(sem, faf.node))

    # ------------------------------------------------------------------ D3
    R3 = report.rule('C04.D3', 'status flags written = architecturally defined (no kept flag touched); zf/sf/pf derive from the result', floor=150)
    R6 = report.rule('C04.D6', 'no register outside the architectural outputs is assigned', floor=150)
    families = {'j': 'jcc', 'set': 'setcc', 'cmov': 'cmovcc'}
    for inst in L.lift_all():
        if inst.func is None or inst.unknown:
            continue
        name = inst.name
        rname = name
        cc = cc_of_name(ccref, name)
        if cc and name not in ('jmp', 'jmpf', 'jecxz', 'setalc'):
            rname = families[cc[0]]
        e = eff.get('%s/%d' % (rname, len(inst.args or []))) or eff.get(rname)
        if e is None or e['ext']:
            continue
        for dec, tmpl in inst.results:
            if isinstance(tmpl, LiftError) or not isinstance(tmpl, list):
                continue
            rid, rmem, wid, wmem = rw_sets(tmpl)
            written = set(x for x in wid if x in STATUS)
            kept = set(STATUS) - e['F'] - e['U']
            key_base = '%s' % inst.func.name
            missing = e['F'] - written
            touched = written & kept
            iid = inst.key()
            bad = False
            if missing:
                R3.violation(iid, 'flags:%s:missing:%s' % (key_base, ','.join(sorted(missing))),
                             '%s (%s): the architecture defines %s but the lifted semantics never write %s' % (name, inst.func.name, sorted(e['F']), sorted(missing)),
                             where(sem, inst.func.node), count=False)
                bad = True
            if touched:
                R3.violation(iid, 'flags:%s:touched:%s' % (key_base, ','.join(sorted(touched))),
                             '%s (%s): the architecture leaves %s unchanged but the lifted semantics write them' % (name, inst.func.name, sorted(touched)),
                             where(sem, inst.func.node), count=False)
                bad = True
            if e['D'] and 'df' not in wid:
                R3.violation(iid, 'flags:%s:missing:df' % key_base, '%s does not write df' % name, where(sem, inst.func.node), count=False)
                bad = True
            if 'df' in wid and not e['D']:
                R3.violation(iid, 'flags:%s:touched:df' % key_base, '%s writes df' % name, where(sem, inst.func.node), count=False)
                bad = True
            # D6: registers written = architectural outputs (over-writing another register changes the result)
            allowed = set(STATUS) | {'df', 'eip', 'ac', 'iopl_f', 'nt', 'rf', 'tf', 'vif', 'vip', 'vm', 'i_f'}
            w_items = list(e['W'])
            if rname == 'imul':
                w_items = ['eax', 'edx'] if len(inst.args or []) == 1 else ['op0']
            for item in w_items:
                if item.startswith('op'):
                    k = int(item[2:])
                    if inst.args and k < len(inst.args):
                        b0 = inst.args[k]
                        while b0.kind == 'Slice':
                            b0 = b0.arg
                        if b0.kind == 'Id':
                            allowed.add(b0.name)
                elif not item.startswith('[') and item != '-':
                    allowed.add(item)
            extra = set(x for x in wid if x not in allowed and not x.startswith('vm_') and not x.startswith('i_'))
            R6.instances += 1
            R6.nontrivial.add('%s:%s' % (rname, inst.form))
            if extra:
                R6.violation(iid, 'extra-write:%s:%s' % (key_base, ','.join(sorted(extra))), '%s (%s): the lifted semantics assign %s, which the instruction does not modify (architectural outputs: %s)'
                             % (name, inst.func.name, sorted(extra), ','.join(e['W']) or '-'), where(sem, inst.func.node), count=False,
                             witness='66 99 (cwd) assigns eax' if name == 'cwd' else None)
            # zf/sf/pf from the result
            if e['Z'] and inst.args and not bad:
                op0 = inst.args[0]
                zsrc = [a.src for a in tmpl if a.kind == 'Aff' and a.dst.kind == 'Id' and a.dst.name == 'zf']
                # a conditional update `zf = k ? new : zf` (shift count 0 keeps the flags): the new value is what is judged
                if zsrc and zsrc[0].kind == 'Cond' and zsrc[0].src2.kind == 'Id' and zsrc[0].src2.name == 'zf':
                    zsrc = [zsrc[0].src1]
                if zsrc and zsrc[0].kind == 'Cond':
                    xz = zsrc[0].cond
                    if e['Z'] == 'res':
                        dsts = [a.src for a in tmpl if a.kind == 'Aff' and a.dst == op0]
                        if dsts and xz != dsts[0]:
                            # shld: a = cond(shifter, c, a) while flags use c -- accept when the result occurs inside the stored value
                            inner = dsts[0].kind == 'Cond' and xz in (dsts[0].src1, dsts[0].src2)
                            if not inner:
                                R3.violation(iid, 'znp:%s' % key_base, '%s: zf is computed from %s but the destination receives %s'
                                             % (name, show(xz)[:80], show(dsts[0])[:80]), where(sem, inst.func.node), count=False)
                                bad = True
                    elif e['Z'] in ('cmps', 'scas'):
                        def mem_via(t, reg):
                            return t.kind == 'Mem' and any(y.kind == 'Id' and y.name == reg for y in walk_terms(t.arg))
                        okz = xz.kind == 'Op' and xz.op == '-' and len(xz.args) == 2 and mem_via(xz.args[1], 'edi')
                        if okz and e['Z'] == 'cmps':
                            okz = mem_via(xz.args[0], 'esi')
                        if okz and e['Z'] == 'scas':
                            a0 = xz.args[0]
                            while a0.kind == 'Slice':
                                a0 = a0.arg
                            okz = a0.kind == 'Id' and a0.name == 'eax'
                        if not okz:
                            R3.violation(iid, 'znp:%s:order' % key_base, '%s: the flags are those of %s; IA-32 computes %s - [edi]' % (name, show(xz)[:80], '[esi]' if e['Z'] == 'cmps' else 'accumulator'),
                                         where(sem, inst.func.node), count=False, witness="'repe cmpsb; jb' branches the wrong way")
                            bad = True
                    elif e['Z'] in ('cmp', 'test') and len(inst.args) >= 2:
                        want_op = '-' if e['Z'] == 'cmp' else '&'
                        if not (xz.kind == 'Op' and xz.op == want_op and len(xz.args) == 2 and xz.args[0] == inst.args[0] and xz.args[1] == inst.args[1]):
                            R3.violation(iid, 'znp:%s' % key_base, '%s: zf is computed from %s, expected op0 %s op1' % (name, show(xz)[:80], want_op),
                                         where(sem, inst.func.node), count=False)
                            bad = True
            R3.instances += 1
            R3.nontrivial.add('%s:%s' % (rname, inst.form))
            if not bad and len(R3.samples) < 5:
                R3.samples.append('%s %s: writes %s (defined %s, undefined %s)' % (name, inst.form, sorted(written), sorted(e['F']), sorted(e['U'])))
    # ------------------------------------------------------------------ D7 multiply: CF/OF come from the product
    R7 = report.rule('C04.D7', 'mul/imul: CF and OF are computed from the double-width product (high half; for the signed forms high half and sign of the low half)', floor=8)
    for inst in L.lift_all():
        if inst.func is None or inst.unknown or inst.name not in ('mul', 'imul'):
            continue
        for dec, tmpl in inst.results:
            if isinstance(tmpl, LiftError) or not isinstance(tmpl, list):
                continue
            for flag in ('cf', 'of'):
                srcs = [a.src for a in tmpl if a.kind == 'Aff' and a.dst.kind == 'Id' and a.dst.name == flag]
                if not srcs:
                    continue        # D3 reports a missing flag
                cond = srcs[0].cond if srcs[0].kind == 'Cond' else srcs[0]
                ops_ = [t for t in walk_terms(cond) if t.kind == 'Op']
                prods = [t for t in ops_ if t.op == '*' or 'mul' in t.op]
                iid = '%s:%s' % (inst.key(), flag)
                key_base = '%s:%s' % (inst.name, 'one-operand' if len(inst.args or []) == 1 else 'two-operand')
                from ..lifter import get_size as _gs, SizeError as _SE

                def wid(t):
                    try:
                        return _gs(t)
                    except (_SE, AttributeError):
                        return None
                width = wid(inst.args[0]) if inst.args else None
                problem = None
                if not prods:
                    problem = ('no-product', 'the condition %s does not contain the product: it reads the state before the multiplication' % show(cond)[:70])
                else:
                    # the high half must be visible: a hi-operator, or a product at least twice as wide as the operand
                    hi_ops = [t for t in prods if t.op.endswith('_hi') or t.op == '*hi']
                    wide = [t for t in prods if t.op == '*' and width and wid(t) and wid(t) >= 2 * width]
                    if not hi_ops and not wide:
                        problem = ('truncated-product', 'the condition %s is computed from the product truncated to the operand width: the lost high half cannot be recovered from it'
                                   % show(cond)[:70])
                    elif inst.name == 'imul' and hi_ops and not wide:
                        # signed: the high half is compared with the sign extension of the low half, so the low half (or its sign) must occur too
                        lo_seen = any(t.kind == 'Op' and (t.op.endswith('_lo') or t.op == '*lo' or t.op == '*') for t in walk_terms(cond))
                        if not lo_seen:
                            problem = ('signed-high-only', 'the condition %s tests the high half alone: for a signed product the flags tell whether the high half is the sign extension '
                                       'of the low half (0xFFFFFFFF:0xFFFFFFFE = -2 fits)' % show(cond)[:70])
                if problem:
                    R7.violation(iid, 'mulflags:%s:%s:%s' % (key_base, flag, problem[0]), '%s (%s): %s of %s -- %s' % (inst.name, inst.form, flag.upper(), inst.name, problem[1]),
                                 where(sem, inst.func.node), count=False, witness="mul cl with al = 0x80, cl = 0xff: CF from the old ah" if problem[0] == 'no-product' else
                                 ("imul eax, ecx with 0x10000 * 0x10000: CF = 0" if problem[0] == 'truncated-product' else 'imul ecx with eax = -1, ecx = 2: CF = 1'))
                else:
                    R7.ok(iid, sample='%s %s: %s from %s' % (inst.name, inst.form, flag, show(cond)[:80]))
    # ------------------------------------------------------------------ D8 decimal adjustments: exhaustive over al x af x cf
    R8 = report.rule('C04.D8', 'aaa/aas/daa/das: the lifted assignments, evaluated on every al x AF x CF (and boundary ah), give the SDM results', floor=4)

    def bcd_ref(name, ax, AF, CF):
        al, ah = ax & 0xff, ax >> 8
        par = lambda v: 1 - bin(v & 0xff).count('1') % 2
        if name in ('aaa', 'aas'):
            c = (al & 0xf) > 9 or bool(AF)
            ax2 = ((ax + 0x106) if name == 'aaa' else (ax - 0x106)) & 0xffff if c else ax
            return {'ax': ax2 & 0xff0f, 'af': int(c), 'cf': int(c)}
        old_al, old_cf, cf_ = al, CF, 0
        if (al & 0xf) > 9 or AF:
            if name == 'daa':
                cf_ = int(bool(old_cf) or al + 6 > 0xff)
                al = (al + 6) & 0xff
            else:
                cf_ = int(bool(old_cf) or al < 6)
                al = (al - 6) & 0xff
            af_ = 1
        else:
            af_ = 0
        if old_al > 0x99 or old_cf:
            al = (al + 0x60) & 0xff if name == 'daa' else (al - 0x60) & 0xff
            cf_ = 1
        elif name == 'daa':
            cf_ = 0
        return {'ax': (ah << 8) | al, 'af': af_, 'cf': cf_, 'zf': int(al == 0), 'nf': al >> 7, 'pf': par(al)}
    for inst in L.lift_all():
        if inst.func is None or inst.unknown or inst.name not in ('aaa', 'aas', 'daa', 'das') or inst.opmode != 'u32':
            continue
        for dec, tmpl in inst.results:
            if isinstance(tmpl, LiftError) or not isinstance(tmpl, list):
                continue
            bad_vec, n_vec, refused = None, 0, None
            for ah in (0x00, 0x01, 0x09, 0x7f, 0xff):
                for al in range(256):
                    for AF in (0, 1):
                        for CF in (0, 1):
                            val = {'eax': 0x55550000 | (ah << 8) | al, 'af': AF, 'cf': CF, 'zf': 0, 'nf': 0, 'pf': 0, 'of': 0}
                            got = dict(val)
                            try:
                                for a in tmpl:
                                    if a.kind != 'Aff':
                                        continue
                                    v, w = eval_small(a.src, val)
                                    d = a.dst
                                    if d.kind == 'Id':
                                        got[d.name] = v & ((1 << get_size_(d)) - 1)
                                    elif d.kind == 'Slice' and d.arg.kind == 'Id':
                                        msk = ((1 << (d.stop - d.start)) - 1) << d.start
                                        got[d.arg.name] = (got[d.arg.name] & ~msk) | ((v << d.start) & msk)
                                    else:
                                        raise Refuse('destination %s' % show(d))
                            except Refuse as e:
                                refused = str(e)
                                break
                            n_vec += 1
                            want = bcd_ref(inst.name, (ah << 8) | al, AF, CF)
                            res = {'ax': got['eax'] & 0xffff}
                            for f_ in ('af', 'cf', 'zf', 'nf', 'pf'):
                                if f_ in want:
                                    res[f_] = got[f_]
                            if (res != want or got['eax'] >> 16 != 0x5555) and bad_vec is None:
                                bad_vec = (ah, al, AF, CF, res, want)
                        if refused:
                            break
                    if refused:
                        break
                if refused:
                    break
            iid = 'bcd:%s' % inst.name
            if refused:
                R8.violation(iid, 'bcd:%s:not-evaluable' % inst.name, '%s: the lifted assignments are outside the evaluable subset (%s): the decimal adjustment cannot be decided' % (inst.name, refused),
                             where(sem, inst.func.node))
            elif bad_vec:
                ah, al, AF, CF, res, want = bad_vec
                R8.violation(iid, 'bcd:%s:value' % inst.name, '%s with ax = %#06x, AF = %d, CF = %d gives %s; IA-32: %s' % (inst.name, (ah << 8) | al, AF, CF, res, want), where(sem, inst.func.node),
                             witness='%s on ax = %#06x' % (inst.name, (ah << 8) | al))
            else:
                R8.ok(iid, sample='%s: %d vectors (al x AF x CF x 5 values of ah) agree with the SDM pseudo-code' % (inst.name, n_vec))
    # ------------------------------------------------------------------ D9 push / pop through the stack pointer
    R9 = report.rule('C04.D9', 'push/pop with esp as operand or base register use the value of esp IA-32 prescribes (pop: after the increment; push: before the decrement)', floor=7)
    stack_operand_rule(ctx, R9, L, sem)
    # ------------------------------------------------------------------ D10 / D11
    R10 = report.rule('C04.D10', 'a shift or rotate whose count, masked to 5 bits, is 0 changes neither the operand nor any flag (lifted assignments evaluated)', floor=200)
    count_zero_rule(ctx, R10, L, sem)
    R17 = report.rule('C04.D17', 'add / adc / sub / sbb / cmp / neg / inc / dec / xadd / cmpxchg: result, CF, OF, ZF, SF and PF of the lifted assignments equal the IA-32 definition on boundary '
                      'operands x carry-in at 8, 16 and 32 bits (lifted assignments evaluated)', floor=25)
    arith_value_rule(ctx, R17, L, sem)
    R18 = report.rule('C04.D18', 'the effective address of a memory operand (dict_to_Expr evaluated on base / index coefficients 1, 2, 3, 4, 5, 8, 9, two registers, displacements, '
                      '32- and 16-bit address size) is the sum of coefficient x register plus displacement, reduced to the address size', floor=20)
    address_value_rule(ctx, R18, L, sem)
    R12 = report.rule('C04.D12', 'shifts and rotates: result, CF, OF (count 1) and ZF/SF/PF of the lifted assignments equal the IA-32 definition on boundary operands x counts', floor=25)
    shift_value_rule(ctx, R12, L, sem)
    R13 = report.rule('C04.D13', 'bt/bts/btr/btc on memory: a register bit offset is signed and selects the cell, an immediate offset stays inside the operand (lifted carry evaluated)', floor=16)
    bittest_address_rule(ctx, R13, L, sem)
    R14 = report.rule('C04.D14', 'call / ret / retf / leave / enter under the 16-bit operand size address the stack through the 32-bit esp, as push and pop do (lifted addresses and the new esp evaluated)', floor=13)
    stack_pointer_rule(ctx, R14, L, sem)
    R15 = report.rule('C04.D15', 'one iteration of a repeated string instruction takes 1 from the count register the address size selects; F2 and F3 repeat every string instruction and nothing else (shared with C08.D7)', floor=6)
    from .c08 import rep_count_rule
    rep_count_rule(ctx, R15)
    R16 = report.rule('C04.D16', 'lifting is a function of the instruction: no function of the lifter mutates a module-level table or a local bound to one (shared with C12.D7)', floor=250)
    from .c12 import shared_table_rule
    shared_table_rule(R16, [ctx.mod('ia32_sem'), ctx.mod('emul_helper')])
    R11 = report.rule('C04.D11', 'xchg / xadd on two parts of one register (al, ah) write both parts, and on one register named twice write it once with the value the processor writes last (lifted assignments evaluated)', floor=10)
    same_register_parts_rule(ctx, R11, L, sem)
    R20 = report.rule('C04.D20', 'cbw / cwde / cwd / cdq: the lifted assignments, evaluated under their operand size on boundary accumulators, extend the sign of al / ax / eax '
                      '(cwd takes bit 15 of ax, not bit 31 of eax) and leave every other bit', floor=4)
    sign_extension_rule(ctx, R20, L, sem)
    R19 = report.rule('C04.D19', 'an assignment to a part of a register (ah, ax, al) keeps the other bits of the register and puts every bit of the value at its place, whatever the '
                      'kind of the value (ExprAff.__init__ evaluated on slice destinations x value kinds, compared bit by bit; shared with C11.D5): lahf, cbw, movzx r16, setcc ah', floor=30)
    from .c11 import aff_slice_rule
    aff_slice_rule(ctx, R19)
    report.analysed['effects_ref_mnemonics'] = len(eff)

    # ------------------------------------------------------------------ D4
    R4 = report.rule('C04.D4', 'shift counts are masked to 5 bits whatever the operand size', floor=30)
    SHIFTS = {'shl', 'sal', 'shr', 'sar', 'shld', 'shrd'}
    for inst in L.instances:
        if inst.name not in SHIFTS or inst.func is None or inst.unknown or not inst.args or len(inst.args) < 2:
            continue
        for dec, tmpl in inst.results:
            if isinstance(tmpl, LiftError) or not isinstance(tmpl, list):
                continue
            cnt = inst.args[-1]
            if cnt.kind == 'Slice':
                cnt_alts = [cnt, cnt.arg]        # cl is passed as ecx by the _cl helpers
            else:
                cnt_alts = [cnt]
            bad = None
            n_shift = 0
            for aff in tmpl:
                for x in walk_terms(aff):
                    if x.kind == 'Op' and x.op in ('<<', '>>', 'a>>') and len(x.args) == 2:
                        n_shift += 1
                        c = x.args[1]
                        # every occurrence of the count operand inside the count expression must sit under & 0x1F
                        def unmasked(t, under_mask):
                            if any(t == a for a in cnt_alts):
                                return not under_mask
                            if t.kind == 'Op':
                                if t.op == '&' and len(t.args) == 2:
                                    ks = [a for a in t.args if a.kind == 'Int' and a.mod.val is not None]
                                    if ks and ks[0].mod.val == 0x1F:
                                        return any(unmasked(a, True) for a in t.args if a not in ks)
                                    if ks:
                                        other = [a for a in t.args if a not in ks]
                                        if any(any(o == a for a in cnt_alts) or (o.kind == 'Slice' and any(o.arg == a for a in cnt_alts)) for o in other):
                                            return True    # masked with a constant other than 0x1F
                                return any(unmasked(a, under_mask) for a in t.args if isinstance(a, Term))
                            if t.kind == 'Slice':
                                return unmasked(t.arg, under_mask)
                            if t.kind == 'Cond':
                                return any(unmasked(a, under_mask) for a in (t.cond, t.src1, t.src2))
                            return False
                        if cnt.kind != 'Int' or cnt.mod.val is None:
                            if unmasked(c, False):
                                bad = 'count expression %s of %s does not mask the count operand with 0x1F' % (show(c)[:70], x.op)
            iid = inst.key()
            R4.instances += 1
            R4.nontrivial.add('%s:%s' % (inst.func.name, inst.form))
            if bad:
                R4.violation(iid, 'shiftmask:%s' % inst.func.name, '%s (%s): %s (IA-32 masks every shift count to 5 bits, also for 8/16-bit operands)'
                             % (inst.name, inst.func.name, bad), where(sem, inst.func.node), count=False,
                             witness='shrd eax, ebx, 33 shifts by 33 instead of 1' if inst.func.name == 'shrd' else None)
            elif len(R4.samples) < 3 and n_shift:
                R4.samples.append('%s %s: %d shift nodes, count under & 0x1F' % (inst.name, inst.form, n_shift))



def sign_extension_rule(ctx, R, L, sem):
    """cbw / cwde / cwd / cdq lifted under both operand sizes and evaluated on boundary accumulators: under 16 bits cbw gives ax = sext(al) and cwd gives dx = sign of ax
    (bit 15, not bit 31) leaving the upper halves; under 32 bits cwde gives eax = sext(ax) and cdq gives edx = sign of eax."""
    I = L.I
    mf = L.mnemo_func
    vals = [0, 1, 0x7F, 0x80, 0xFF, 0x7FFF, 0x8000, 0xFFFF, 0x80000000, 0x7FFF8000, 0xFFFF7FFF, 0x12348765, 0x8765FF80, 0x00FF0080, 0xFFFFFFFF, 0x7FFFFFFF]
    for name, opmode in (('cbw', 'u16'), ('cwde', 'u32'), ('cwd', 'u16'), ('cdq', 'u32')):
        f = mf.get(name)
        inst = 'sign-extension %s (%s)' % (name, opmode)
        if f is None:
            raise AnalysisError('ia32_sem.mnemo_func has no %s' % name)
        bad = None
        for a in vals:
            for d in (0x11112222, 0xFFFF0000):
                st = {'eax': a, 'edx': d}
                for fl in ('zf', 'nf', 'pf', 'of', 'cf', 'af', 'df'):
                    st[fl] = 0
                try:
                    outs = lifted_effect(I, f, [], st, opmode)
                except (Refuse, DoubleWrite) as e:
                    raise AnalysisError('%s: the lifted assignments are outside the evaluable subset: %s' % (name, e))
                if name == 'cbw':
                    al = a & 0xFF
                    want = {'eax': (a & 0xFFFF0000) | ((al | 0xFF00) if al & 0x80 else al), 'edx': d}
                elif name == 'cwde':
                    ax = a & 0xFFFF
                    want = {'eax': (ax | 0xFFFF0000) if ax & 0x8000 else ax, 'edx': d}
                elif name == 'cwd':
                    want = {'eax': a, 'edx': (d & 0xFFFF0000) | (0xFFFF if a & 0x8000 else 0)}
                else:
                    want = {'eax': a, 'edx': 0xFFFFFFFF if a & 0x80000000 else 0}
                for got in outs:
                    for r_ in ('eax', 'edx'):
                        if (got[r_] & 0xFFFFFFFF) != want[r_] and bad is None:
                            bad = '%s with eax = %#x, edx = %#x leaves %s = %#x; the processor leaves %#x' % (name, a, d, r_, got[r_] & 0xFFFFFFFF, want[r_])
        if bad:
            R.violation(inst, 'sign-extension:%s' % name, bad, where(sem, f.node if hasattr(f, 'node') else sem.tree), witness='66 99 with eax = 0x7fff8000' if name == 'cwd' else None)
        else:
            R.ok(inst, sample='%s evaluated on %d accumulators x 2 values of edx: the registers are those of the processor' % (name, len(vals)), nontrivial=True)

MUTANTS = [
    ('shld-same-register-as-rotate', 'miasmx/arch/ia32_sem.py', 'def shld(info, a, b, c):\n', 'def shld(info, a, b, c):\n    if a == b:\n        return l_rol(info, a, c)\n', 'C04.D12'),

    ('aff-slice-compose-spliced-without-offset', 'miasmx/expression/expression.py', "            all_a = sorted([(src, dst.start, dst.stop)] + rest, key=lambda x:x[1])",
     "            new = list(src.args) if isinstance(src, ExprCompose) and src.get_size() == dst.get_size() else [(src, dst.start, dst.stop)]\n            all_a = sorted(new + rest, key=lambda x:x[1])", 'C04.D19'),
    ('bt-unsigned-offset', 'miasmx/arch/ia32_sem.py', "                          ExprOp('a>>', b, ExprInt_from(a, 3)),", "                          ExprOp('>>', b, ExprInt_from(a, 3)),", 'C04.D13'),
    ('bt-imm-leaves-operand', 'miasmx/arch/ia32_sem.py', "    if not isinstance(a, ExprMem) or isinstance(b, ExprInt):", "    if not isinstance(a, ExprMem):", 'C04.D13'),
    ('shl-flags-unconditional', 'miasmx/arch/ia32_sem.py', "    e += unless_count_0(shifter, update_flag_znp(c) +\n                        [ExprAff(of, ExprOp('^', get_op_msb(c), new_cf))])\n", "    e += update_flag_znp(c) + [ExprAff(of, ExprOp('^', get_op_msb(c), new_cf))]\n", 'C04.D10'),
    ('xchg-two-assignments', 'miasmx/arch/ia32_sem.py', "def xchg(info, a, b):\n    return aff_pair(a, b, b, a)", "def xchg(info, a, b):\n    return [ExprAff(a, b), ExprAff(b, a)]", 'C04.D11'),
    ('shrd-of-old-sign', 'miasmx/arch/ia32_sem.py', "[ExprAff(of, ExprOp('^', get_op_msb(d),\n                                                     get_op_msb(a)))]", "[ExprAff(of, get_op_msb(a))]", 'C04.D12'),
    ('ror-cf-lsb', 'miasmx/arch/ia32_sem.py', "    f = [ExprAff(cf, get_op_msb(c))]", "    f = [ExprAff(cf, c[0:1])]", 'C04.D12'),
    ('das-no-borrow', 'miasmx/arch/ia32_sem.py', "        e.append(ExprAff(cf, ExprOp('|', cond2, ExprOp('&', cond1, lt6))))", "        e.append(ExprAff(cf, cond2))", 'C04.D8'),
    ('aaa-adds-6', 'miasmx/arch/ia32_sem.py', "ExprOp(sign, r_ax, ExprInt16(0x106))", "ExprOp(sign, r_ax, ExprInt16(0x6))", 'C04.D8'),
    ('daa-99', 'miasmx/arch/ia32_sem.py', "                               ExprOp('&', hi_is_9, nibble_gt9(r_al, 0))),\n                   cf)", "                               hi_is_9),\n                   cf)", 'C04.D8'),
    ('mul8-flags-old-ah', 'miasmx/arch/ia32_sem.py', "        e.append(ExprAff(of, ExprCond(c[8:16],\n", "        e.append(ExprAff(of, ExprCond(eax[8:16],\n", 'C04.D7'),
    ('imul-flags-high-only', 'miasmx/arch/ia32_sem.py', "    return ExprOp('-', c_hi, ExprCond(get_op_msb(c_lo),\n                                      ExprInt_from(c_lo, -1),\n                                      ExprInt_from(c_lo, 0)))", "    return c_hi", 'C04.D7'),
    ('setl-nf', 'miasmx/arch/ia32_sem.py', "def setl(info, a):\n    e = []\n    e.append(ExprAff(a, ExprCond(nf-of, ExprInt_from(a, 1), ExprInt_from(a, 0))))",
     "def setl(info, a):\n    e = []\n    e.append(ExprAff(a, ExprCond(nf, ExprInt_from(a, 1), ExprInt_from(a, 0))))", 'C04.D1'),
    ('sub-cf', 'miasmx/arch/ia32_sem.py', "return ExprAff(cf, get_op_msb((a ^ b) ^ c) ^ get_op_msb((a ^ c) & (a ^ b)))",
     "return ExprAff(cf, get_op_msb((a ^ b) ^ c) ^ get_op_msb((a ^ c) & (~(a ^ b))))", 'C04.D2'),
    ('dec-cf', 'miasmx/arch/ia32_sem.py', "    b = ExprInt_from(a, -1)\n    c = ExprOp('+', a, b)\n    e+=update_flag_arith(c)\n    e+=update_flag_af(c)\n",
     "    b = ExprInt_from(a, -1)\n    c = ExprOp('+', a, b)\n    e+=update_flag_arith(c)\n    e+=update_flag_af(c)\n    e.append(update_flag_add_cf(a, b, c))\n", 'C04.D3'),
    ('sub-swap-callsite', 'miasmx/arch/ia32_sem.py', "    c = ExprOp('-', a, b)\n    e+=update_flag_arith(c)\n    e+=update_flag_af(c)\n    e+=update_flag_sub(a, b, c)\n    e.append(ExprAff(a, c))",
     "    c = ExprOp('-', a, b)\n    e+=update_flag_arith(c)\n    e+=update_flag_af(c)\n    e+=update_flag_sub(b, a, c)\n    e.append(ExprAff(a, c))", 'C04.D2'),
    ('jg-polarity', 'miasmx/arch/ia32_sem.py', "    e.append(set_eip(ExprCond(ExprOp('|', zf, nf-of), a, b)))\n    return e\n\ndef jl",
     "    e.append(set_eip(ExprCond(ExprOp('|', zf, nf-of), b, a)))\n    return e\n\ndef jl", 'C04.D1'),
    ('cmovb-zf', 'miasmx/arch/ia32_sem.py', "    e.append(ExprAff(a, ExprCond( cf , b, a)))", "    e.append(ExprAff(a, ExprCond( zf , b, a)))", 'C04.D1'),
    ('loope-zf', 'miasmx/arch/ia32_sem.py', "                  ExprCond(zf, ExprInt_from(c, 0), ExprInt_from(c, 1))\n                  )\n    e.append(set_eip(ExprCond(cond, a, b)))\n    return e\n\n\n#XXX size",
     "                  ExprCond(zf, ExprInt_from(c, 1), ExprInt_from(c, 0))\n                  )\n    e.append(set_eip(ExprCond(cond, a, b)))\n    return e\n\n\n#XXX size", 'C04.D1'),
    ('xor-nocf', 'miasmx/arch/ia32_sem.py', "    e.append(ExprAff(of, ExprInt32(0)))\n    e.append(ExprAff(cf, ExprInt32(0)))\n    return e\n\ndef update_flag_arith",
     "    e.append(ExprAff(of, ExprInt32(0)))\n    return e\n\ndef update_flag_arith", 'C04.D3'),
    ('add-znp-operand', 'miasmx/arch/ia32_sem.py', "def add(info, a, b):\n    e= []\n    c = ExprOp('+', a, b)\n    e+=update_flag_arith(c)", "def add(info, a, b):\n    e= []\n    c = ExprOp('+', a, b)\n    e+=update_flag_arith(a)", 'C04.D3'),
    ('adc-rebinds-b', 'miasmx/arch/ia32_sem.py', "    c = ExprOp('+',\n               a,\n               ExprOp('+',\n                      b,\n                      ExprCompose([(ExprInt32(0), 1, a.get_size()),\n                                   (cf, 0, 1)])))\n    e+=update_flag_arith(c)\n    e+=update_flag_af(c)\n    e+=update_flag_add(a, b, c)",
     "    b = ExprOp('+',\n               b,\n               ExprCompose([(ExprInt32(0), 1, a.get_size()),\n                            (cf, 0, 1)]))\n    c = ExprOp('+', a, b)\n    e+=update_flag_arith(c)\n    e+=update_flag_af(c)\n    e+=update_flag_add(a, b, c)", 'C04.D17'),
    ('cwd-swaps', 'miasmx/arch/ia32_sem.py', "def cwd(info):\n    # dx:ax = sign extension of ax (cdq handles both operand sizes)\n    return cdq(info)\n", "def cwd(info):\n    e = []\n    e.append(ExprAff(eax, edx))\n    e.append(ExprAff(edx, eax))\n    return e\n", 'C04.D6'),
    ('cmps-reversed', 'miasmx/arch/ia32_sem.py', "    e+=l_cmp(info, b, a)\n    off = a.get_size()/8", "    e+=l_cmp(info, a, b)\n    off = a.get_size()/8", 'C04.D3'),
    ('add-of-formula', 'miasmx/arch/ia32_sem.py', "    return ExprAff(of, get_op_msb(((a ^ c) & (~(a ^ b)))))", "    return ExprAff(of, get_op_msb(((a ^ c) & (a ^ b))))", 'C04.D2'),
    ('shr-mask-size', 'miasmx/arch/ia32_sem.py', "def shr(info, a, b):\n    e= []\n    shifter = ExprOp('&',b, ExprInt_from(b, 0x1f))",
     "def shr(info, a, b):\n    e= []\n    shifter = ExprOp('&',b, ExprInt_from(b, a.get_size()-1))", 'C04.D4'),
    ('sar-nomask', 'miasmx/arch/ia32_sem.py', "def sar(info, a, b):\n    e= []\n\n    shifter = ExprOp('&',b, ExprInt_from(b, 0x1f))", "def sar(info, a, b):\n    e= []\n\n    shifter = b", 'C04.D4'),
    ('mov-zf', 'miasmx/arch/ia32_sem.py', "                         (ExprInt_from(b, 0), b.get_size(), a.get_size())])\n    return [ExprAff(a, b)]", "                         (ExprInt_from(b, 0), b.get_size(), a.get_size())])\n    return [ExprAff(a, b)] + update_flag_zf(b)", 'C04.D3'),
    ('retf32-pops-6', 'miasmx/arch/ia32_sem.py', "ExprInt(int_cast(2*(s//8))), a))))", "ExprInt(int_cast(s//8 + 2)), a))))", 'C04.D14'),
    ('leave16-sp', 'miasmx/arch/ia32_sem.py', "    e.append(ExprAff(esp, ExprOp('+', ExprInt32(s/8), ebp)))", "    e.append(ExprAff(esp[:16], ExprOp('+', ExprInt16(s/8), ebp[:16])))", 'C04.D14'),
    ('enter16-whole-ebp', 'miasmx/arch/ia32_sem.py', "        e.append(ExprAff(myebp, esp_tmp[:16]))", "        e.append(ExprAff(ebp, esp_tmp))", 'C04.D14'),
    ('rep-count-by-opmode', 'miasmx/tools/emul_helper.py', "        if l.admode == x86_afs.u16:\n            count = ExprCompose", "        if l.opmode == x86_afs.u16:\n            count = ExprCompose", 'C04.D15'),
]
