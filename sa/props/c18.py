"""C18 -- PowerPC words decode unambiguously and re-encode to themselves
(decided from the class declarations: tiling, disjointness, re-encode identity,
name tables, architecture map, assembler liveness)."""
import ast
import itertools
import os

from ..core import AnalysisError, where, norm, VERIF
from ..consteval import Opaque
from ..ppctable import PpcModel
from ..shapes import u
from ..srcmodel import parent, walk_no_nested
from . import c10_common


def load_ref():
    out = {}
    with open(os.path.join(VERIF, 'ref', 'ppc_opcodes.ref')) as f:
        for line in f:
            line = line.split('#')[0].strip()
            if not line:
                continue
            p = line.split()
            prim = int(p[0])
            xo = None if p[1] == '-' else tuple(int(x) for x in p[1].split(':'))
            out.setdefault(prim, []).append((xo, p[2], p[3:]))
    return out


def name_matches(repo_name, arch, aliases):
    r = repo_name.lower()
    cands = [arch] + list(aliases)
    for a in cands:
        if r == a or (a.endswith('x') and r == a[:-1]):
            return True
    return False


def fixed_bits(fields):
    """dict bit position (0 = MSB) -> 0/1 for all fixed-bit fields."""
    out = {}
    for f in fields:
        if f.fbits is not None:
            for i, ch in enumerate(f.fbits):
                out[f.start + i] = int(ch)
    return out


def compatible(ca, cb):
    """Is there a 32-bit word accepted by both acceptance predicates?  Exact: fixed bits compared position-wise,
    then the bits covered by extended-opcode sets (<= 11 positions) enumerated."""
    fa, fb = ca['fixed'], cb['fixed']
    for pos, v in fa.items():
        if pos in fb and fb[pos] != v:
            return None
    fixed = dict(fa)
    fixed.update(fb)
    sets = ca['sets'] + cb['sets']
    positions = sorted(set(p for s in sets for p in range(s.off, s.off + s.l)))
    if len(positions) > 14:
        raise AnalysisError('too many extended-opcode bit positions to enumerate')
    free = [p for p in positions if p not in fixed]
    for bits in itertools.product((0, 1), repeat=len(free)):
        asg = dict(fixed)
        asg.update(zip(free, bits))
        ok = True
        for s in sets:
            v = 0
            for p in range(s.off, s.off + s.l):
                v = (v << 1) | asg[p]
            if v not in s.values:
                ok = False
                break
        if ok:
            word = 0
            for p, b in asg.items():
                word |= b << (31 - p)
            return word
    return None


def run(ctx, report):
    M = PpcModel(ctx)
    mod = M.mod
    ref = load_ref()
    report.explanation = (
        'All from the class declarations of ppc_arch.py (no execution): D1 the fields of every class in tab_mn tile 32 bits; D2 for every pair of '
        'classes the conjunction of their acceptance predicates (fixed bits + extended-opcode sets at their bit offsets) is unsatisfiable, decided '
        'exactly over the <= 2^11 opcode-bit combinations; D3 every field class keeps the default parse/bin pair or an audited inverse pair, none uses '
        'checkinv, the extended-opcode set covers exactly the bits of the opcode field that is re-emitted; D4 name tables agree (namestr vs name dict, '
        'strname total over the accepted set, extended opcodes fit their field, constant namestr subscripts in range through the MRO, every attribute read '
        'by name2str/args2str/getname is provided by a field, class attribute or an earlier method, generated args2str exists); D5 (primary, extended '
        'opcode) -> mnemonic equals ref/ppc_opcodes.ref; D6 no always-raising construct in the assembler entry point.')
    report.not_decided = 'operand field rendering/parsing for concrete values (text round trip of operands).'
    report.analysed['classes'] = len(M.tab_mn)

    info = {}
    R1 = report.rule('C18.D1', 'field widths of every class tile the 32-bit word', floor=80)
    for cname in M.tab_mn:
        fs = M.fields(cname)
        tot = sum(f.l for f in fs)
        c = M.classes[cname]
        if tot == 32:
            R1.ok(cname, sample='%s: %s = 32 bits' % (cname, '+'.join('%s:%d' % (f.cname[3:], f.l) for f in fs)))
        else:
            R1.violation(cname, '%s:tiling:%d' % (cname, tot), '%s fields sum to %d bits, not 32' % (cname, tot), where(mod, c.node))
        for s in c.bmsets:
            if s.off + s.l > 32 or s.off < 0:
                R1.violation(cname, '%s:bmset-range' % cname, '%s extended-opcode set lies outside the word' % cname, where(mod, s.node))
        info[cname] = {'fixed': fixed_bits(fs), 'sets': c.bmsets, 'fields': fs}

    R2 = report.rule('C18.D2', 'acceptance predicates of distinct classes are disjoint', floor=3000)
    for a, b in itertools.combinations(M.tab_mn, 2):
        w = compatible(info[a], info[b])
        inst = '%s|%s' % (a, b)
        if w is None:
            R2.ok(inst, nontrivial=bool(info[a]['sets'] or info[b]['sets']) and
                  all(info[a]['fixed'].get(p) == info[b]['fixed'].get(p) for p in range(6)),
                  sample=None)
        else:
            R2.violation(inst, 'ambiguous:%s' % inst, 'word 0x%08X is claimed by both %s and %s' % (w, a, b), where(mod, M.classes[b].node),
                         witness='ppc_mn(0x%08X)' % w)
    if len(R2.samples) < 2:
        R2.samples.append('%d class pairs examined; e.g. ppc_add|ppc_adde share primary 31 and are separated by their 9-bit extended opcode sets' %
                          (len(M.tab_mn) * (len(M.tab_mn) - 1) // 2))

    R3 = report.rule('C18.D3', 're-encoding the parsed fields reproduces the word', floor=80)
    audited_pairs = {}
    for bname, b in M.bm.items():
        over = b['methods'] & {'parse', 'bin', 'get_val', 'set_val'}
        if over:
            audited_pairs[bname] = over
    for cname in M.tab_mn:
        fs = info[cname]['fields']
        bad = False
        for f in fs:
            fi = M.field_info(f.cname)
            if fi['checkinv']:
                R3.violation(cname, '%s:%s:checkinv' % (cname, f.cname), 'field %s uses checkinv: its bits are not re-emitted by bin()' % f.cname,
                             where(mod, M.classes[cname].node))
                bad = True
            over = fi['methods'] & {'parse', 'bin', 'get_val', 'set_val'}
            if over:
                ok, why = audit_pair(mod, f.cname, fi)
                if not ok:
                    R3.violation(cname, '%s:%s:pair' % (cname, f.cname), 'field %s overrides %s and the pair is not an inverse: %s'
                                 % (f.cname, sorted(over), why), where(mod, fi['node']))
                    bad = True
        # the opcode field re-emitted must be the bits the set checks
        for s in info[cname]['sets']:
            cover = [f for f in fs if f.start == s.off and f.l == s.l and f.fbits is None]
            if not cover:
                R3.violation(cname, '%s:bmset-vs-field:%d:%d' % (cname, s.off, s.l),
                             '%s: extended-opcode set tests bits %d..%d but no opcode field of that exact range exists in mask_list '
                             '(the value name2str reads / bin() re-emits is not the value that was checked)' % (cname, s.off, s.off + s.l - 1),
                             where(mod, s.node))
                bad = True
        if not bad:
            R3.ok(cname, sample='%s: default parse/bin on %d fields, opcode set aligned with its field' % (cname, len(fs)))
    # default pair itself
    bm_get = mod.method('bm', 'get_val')
    bm_set_ = mod.method('bm', 'set_val')
    # evaluated on field width x offset x values: set_val(get_val(word)) gives back exactly the bits of the field, get_val(set_val(x)) gives x back
    from ..consteval import Evaluator as _Ev3, Obj as _Obj3, NotConst as _NC3, PyRaise as _PR3
    pair_ok, pair_why = True, ''
    for l_, off_ in ((1, 0), (1, 31), (5, 21), (5, 0), (6, 26), (10, 1), (16, 0), (24, 2), (14, 2)):
        fld = _Obj3('bm')
        fld.l, fld.off, fld.p_property = l_, off_, []
        for word in (0, 0xFFFFFFFF, 0xA5A5A5A5, 0x5A5A5A5A, 1 << off_, ((1 << l_) - 1) << off_):
            try:
                x_ = _Ev3({}).call_user(bm_get, [fld, word])
                back = _Ev3({}).call_user(bm_set_, [fld, x_])
            except (_NC3, _PR3) as e:
                raise AnalysisError('bm.get_val / bm.set_val are outside the evaluable subset: %s' % e)
            want_x = (word >> off_) & ((1 << l_) - 1)
            if x_ != want_x or back != (want_x << off_):
                pair_ok, pair_why = False, 'a field of %d bits at offset %d: get_val(%#010x) = %s, set_val of that = %s' % (l_, off_, word, x_, back)
    if pair_ok:
        R3.ok('bm.get_val/set_val', sample='bm.get_val / bm.set_val evaluated on 9 field layouts x 6 words: extract and insert are inverse')
    else:
        R3.violation('bm.get_val/set_val', 'bm:get_val/set_val', 'default field extract/insert are no longer inverse (%s)' % pair_why, where(mod, bm_get))
    binm = mod.method('ppc_mn', 'bin')
    if 'v |= m.bin()' in u(binm) and 'for m in self.mask' in u(binm):
        R3.ok('ppc_mn.bin', sample='ppc_mn.bin ORs every field')
    else:
        R3.violation('ppc_mn.bin', 'ppc_mn.bin', 'ppc_mn.bin no longer ORs every field', where(mod, binm))

    R4 = report.rule('C18.D4', 'name tables and rendering attributes agree', floor=80)
    for cname in M.tab_mn:
        check_names(M, mod, R4, cname, info[cname])

    R5 = report.rule('C18.D5', '(primary, extended opcode) -> mnemonic agrees with the PowerPC architecture', floor=150)
    for cname in M.tab_mn:
        check_arch(M, mod, R5, cname, info[cname], ref)

    R6 = report.rule('C18.D6', 'assembler entry point has no always-raising construct', floor=1)
    asm = mod.method('ppc_mnemo_metaclass', 'asm')
    hits = c10_common.py2_constructs(asm)
    if hits:
        for n, what in hits:
            R6.violation('ppc_mn.asm', 'ppc_mnemo_metaclass.asm:%s' % norm(n), 'assembling any text raises: %s (%s)' % (what, norm(n)), where(mod, n),
                         witness="ppc_mn.asm('ADD R10, R10, R10') -> TypeError")
    else:
        R6.ok('ppc_mn.asm', sample='no python-2 idiom in ppc_mnemo_metaclass.asm')

    # ---------------------------------------------------------------- D7 branch family: render -> assemble reproduces the fields
    R7 = report.rule('C18.D7', 'branch family: the rendered text is accepted by exactly its own class and assembles back to the same BO/BI/AA/LK', floor=12)
    branch_trip_rule(ctx, R7, M, mod)

    # ---------------------------------------------------------------- D8 every class: decode -> render -> assemble -> encode on boundary vectors
    R8 = report.rule('C18.D8', 'every class: the rendered text is accepted by exactly its own class and assembles back to the same fields', floor=70)
    generic_trip_rule(ctx, R8, M, mod)

    R9 = report.rule('C18.D9', 'a register-name table that is read back with .index() holds no name twice (rendering number -> name and parsing name -> number are inverse)', floor=3)
    name_table_rule(ctx, R9, mod)

    R10 = report.rule('C18.D10', 'the class matcher (metaclass check, evaluated from the source on the fields of every class) accepts the canonical word of the class and rejects '
                      'every word that differs from it in one fixed field, including fixed fields whose pattern is 0 (reserved bits) and the extended-opcode sets', floor=150)
    matcher_rule(ctx, R10, M, mod)

    R11 = report.rule('C18.D11', 'every instruction object has its own bit-field objects: what ppc_mn.__init__ stores as self.mask and as the bm_<field> attributes is constructed in that call '
                      '(decoding a second word must not change what the first instruction re-encodes to)', floor=2)
    own_fields_rule(ctx, R11, mod)


def own_fields_rule(ctx, R, mod):
    from ..srcmodel import walk_no_nested
    init = mod.method('ppc_mn', '__init__')
    self_name = init.args.args[0].arg
    assigns = {}
    loop_targets = {}
    for n in walk_no_nested(init):
        if isinstance(n, ast.Assign) and len(n.targets) == 1 and isinstance(n.targets[0], ast.Name):
            assigns.setdefault(n.targets[0].id, []).append(n.value)
        if isinstance(n, ast.For):
            for t in ast.walk(n.target):
                if isinstance(t, ast.Name):
                    loop_targets[t.id] = n.iter
        if isinstance(n, ast.comprehension):
            for t in ast.walk(n.target):
                if isinstance(t, ast.Name):
                    loop_targets[t.id] = n.iter

    def reads_self_attr(e):
        return any(isinstance(x, ast.Attribute) and isinstance(x.value, ast.Name) and x.value.id in (self_name, 'ppc_mn', 'cls') for x in ast.walk(e))

    def fresh_obj(e, depth=0):
        """'fresh' | 'shared: why' | None (unknown shape)"""
        if depth > 4:
            return None
        if isinstance(e, ast.Call) and any(isinstance(a, ast.Name) and a.id == self_name for a in e.args):
            return 'fresh'                       # constructed with this instance as parent
        if isinstance(e, ast.Name):
            if e.id in loop_targets and e.id not in assigns:
                it = loop_targets[e.id]
                if reads_self_attr(it):
                    return 'shared: an element of %s, which every instruction of the class sees' % u(it)
                return fresh_list(it, depth + 1) and 'fresh' or None
            vals = assigns.get(e.id)
            if vals:
                rs = [fresh_obj(v, depth + 1) for v in vals]
                bad = [r for r in rs if r and r.startswith('shared')]
                if bad:
                    return bad[0]
                return 'fresh' if all(r == 'fresh' for r in rs) else None
        if isinstance(e, (ast.Attribute, ast.Subscript)) and reads_self_attr(e):
            return 'shared: %s is read from the class / instance, not constructed here' % u(e)
        return None

    def fresh_list(e, depth=0):
        if depth > 4:
            return None
        if isinstance(e, ast.ListComp):
            return fresh_obj(e.elt, depth + 1)
        if isinstance(e, ast.List) and all(fresh_obj(x, depth + 1) == 'fresh' for x in e.elts):
            # elements added later by .append(x)
            return 'fresh'
        if isinstance(e, ast.Name):
            vals = assigns.get(e.id, [])
            if not vals:
                return None
            rs = [fresh_list(v, depth + 1) for v in vals]
            bad = [r for r in rs if r and r.startswith('shared')]
            if bad:
                return bad[0]
            if not all(r == 'fresh' for r in rs):
                return None
            for n in walk_no_nested(init):
                if isinstance(n, ast.Call) and isinstance(n.func, ast.Attribute) and n.func.attr in ('append', 'insert') and isinstance(n.func.value, ast.Name) and n.func.value.id == e.id:
                    r = fresh_obj(n.args[-1], depth + 1)
                    if r != 'fresh':
                        return r
            return 'fresh'
        if isinstance(e, (ast.Attribute, ast.Subscript)) and reads_self_attr(e):
            return 'shared: %s is read from the class / instance, not built here' % u(e)
        if isinstance(e, ast.Call) and isinstance(e.func, ast.Name) and e.func.id == 'list' and len(e.args) == 1:
            return fresh_list(e.args[0], depth + 1) if not reads_self_attr(e.args[0]) else 'shared: a new list of the objects of %s' % u(e.args[0])
        return None
    seen = 0
    for n in walk_no_nested(init):
        verdict = what = None
        if isinstance(n, ast.Assign) and len(n.targets) == 1 and isinstance(n.targets[0], ast.Attribute) and isinstance(n.targets[0].value, ast.Name) \
                and n.targets[0].value.id == self_name and n.targets[0].attr == 'mask':
            verdict, what = fresh_list(n.value), 'self.mask'
        elif isinstance(n, ast.Call) and isinstance(n.func, ast.Name) and n.func.id == 'setattr' and len(n.args) == 3 and isinstance(n.args[0], ast.Name) and n.args[0].id == self_name \
                and 'bm_' in u(n.args[1]):
            verdict, what = fresh_obj(n.args[2]), 'the bm_<field> attributes'
        else:
            continue
        seen += 1
        if verdict == 'fresh':
            R.ok('__init__:%s' % what, sample='%s: constructed in __init__ with this instance as parent' % what)
        elif verdict is None:
            raise AnalysisError('ppc_mn.__init__: cannot tell where %s comes from (%s)' % (what, u(n)[:80]))
        else:
            R.violation('__init__:%s' % what, 'own-fields:%s' % what.split()[0], 'ppc_mn.__init__ stores as %s %s: the decoded field values of all instructions of one class live in the same '
                        'objects, so a kept instruction re-encodes as the most recently decoded one' % (what, verdict[8:]), where(mod, n), witness='decode 0x7D4A5214 then 0x7D615A14 (both ppc_add); bin() of the first')
    if seen < 2:
        raise AnalysisError('ppc_mn.__init__ no longer stores self.mask and the bm_<field> attributes (%d stores found)' % seen)


def matcher_rule(ctx, R, M, mod):
    from ..consteval import Evaluator, Obj, Native, NotConst, PyRaise
    chk = mod.method('ppc_mnemo_metaclass', 'check')

    def fixed(bits):
        v = m_ = 0
        for ch in bits:
            v, m_ = v << 1, m_ << 1
            if ch in '01':
                v |= int(ch)
                m_ |= 1
        return v, m_
    cls_models, seq_tests = {}, {}
    for cname in M.tab_mn:
        fields = M.fields(cname)
        models, word0, tests = [], 0, []
        for f in fields:
            info = M.field_info(f.cname)
            o = Obj(f.cname)
            off = 32 - f.start - f.l
            if info['fbits']:
                v, fm = fixed(info['fbits'])
                inv = bool(info.get('checkinv'))
                o.fbits, o.fmask, o.off, o.l = v, fm, off, f.l
                o.check = Native(lambda op, v=v, fm=fm, off=off, inv=inv: (((op >> off) & fm) == v) != inv)
                if inv:
                    word0 |= ((v ^ (fm & -fm)) & fm) << off
                else:
                    word0 |= v << off
                    if fm:
                        tests.append((f.cname, (fm & -fm) << off))
            else:
                o.fbits, o.off, o.l = None, off, f.l
                o.check = Native(lambda op: True)
            models.append(o)
        for bs in M.classes[cname].bmsets:
            o = Obj('bm_set')
            off = 32 - bs.off - bs.l
            fm = (1 << bs.l) - 1
            o.fbits, o.fmask, o.off, o.l = list(bs.values), fm, off, bs.l
            o.check = Native(lambda op, vals=tuple(bs.values), fm=fm, off=off: ((op >> off) & fm) in vals)
            models.append(o)
            word0 = (word0 & ~(fm << off)) | (bs.values[0] << off)
            other = [x for x in range(fm + 1) if x not in bs.values]
            if other:
                tests.append(('extended opcode set', ((other[0] ^ bs.values[0]) & fm) << off))
        cls = Obj(cname)
        cls.mask_chk = models
        cls.__dict__['_methods'] = {'check': chk}
        cls_models[cname] = cls
        seq_tests[cname] = (word0, [(fname_, flip_) for fname_, flip_ in tests])

        def run(op):
            try:
                return bool(Evaluator({}).call_user(chk, [cls, op]))
            except PyRaise as e:
                return 'raises %s' % e.exc_name
            except NotConst as e:
                raise AnalysisError('ppc_mnemo_metaclass.check is outside the evaluable subset: %s' % e)
        r0 = run(word0)
        if r0 is not True:
            R.violation('%s:canonical' % cname, 'matcher:%s:canonical' % cname, 'the matcher gives %s for %#010x, the word of %s with every variable field 0' % (r0, word0, cname), where(mod, chk))
            continue
        R.ok('%s:canonical' % cname, nontrivial=False)
        for fname, flip in tests:
            r = run(word0 ^ flip)
            inst = '%s:%s' % (cname, fname)
            if r is False:
                R.ok(inst, sample='%s: %#010x accepted, %#010x (fixed field %s changed) rejected' % (cname, word0, word0 ^ flip, fname))
            else:
                R.violation(inst, 'matcher:%s:%s' % (cname, fname), 'the matcher gives %s for %#010x, which differs from the word of %s in the fixed field %s: a word the architecture does not '
                            'assign to %s is claimed by it' % (r, word0 ^ flip, cname, fname, cname), where(mod, chk), witness='0x7C2004AC decodes as SYNC')

    # the dispatcher behind ppc_mn(word): its answer for a word does not depend on the words decoded before (a result remembered under a key that leaves out
    # the fixed fields would hand the class of a valid word to a word with a reserved field set)
    cfo = mod.method('ppc_mnemo_metaclass', 'class_from_op')
    meta_attrs = {}
    for st in mod.cls('ppc_mnemo_metaclass').body:
        if isinstance(st, ast.Assign) and len(st.targets) == 1 and isinstance(st.targets[0], ast.Name):
            meta_attrs[st.targets[0].id] = st.value

    def dispatcher():
        me = Obj('ppc_mn')
        for k_, v_ in meta_attrs.items():
            try:
                setattr(me, k_, Evaluator({}).ev(v_))
            except NotConst:
                pass
        return me

    def dispatch(me, op):
        scope = {'tab_mn': [cls_models[c_] for c_ in M.tab_mn]}
        try:
            r_ = Evaluator(scope).call_user(cfo, [me, op])
            return r_.__dict__['_name'] if isinstance(r_, Obj) else repr(r_)
        except PyRaise as e:
            return 'raises %s' % e.exc_name
        except NotConst as e:
            raise AnalysisError('ppc_mnemo_metaclass.class_from_op is outside the evaluable subset: %s' % e)
    n_seq = 0
    for cname in M.tab_mn:
        word0, tests = seq_tests[cname]
        for fname, flip in tests[:3]:
            w2 = word0 ^ flip
            fresh = dispatch(dispatcher(), w2)
            me = dispatcher()
            first = dispatch(me, word0)
            after = dispatch(me, w2)
            again = dispatch(me, word0)
            n_seq += 1
            inst = 'dispatch:%s:%s' % (cname, fname)
            if first != cname:
                R.violation(inst, 'dispatch:%s:canonical' % cname, 'class_from_op(%#010x) gives %s; the word belongs to %s' % (word0, first, cname), where(mod, cfo))
            elif after != fresh or again != first:
                R.violation(inst, 'dispatch:history:%s' % fname, 'class_from_op(%#010x) gives %s in a fresh process but %s after %#010x (%s) was decoded: the dispatcher remembers an answer under '
                            'a key that leaves out the field %s' % (w2, fresh, after, word0, cname, fname), where(mod, cfo), witness='0x7D240034 then 0x7D24F834')
            else:
                R.ok(inst, nontrivial=(n_seq % 5 == 0), sample='%s: %#010x after %#010x is answered as in a fresh process (%s)' % (cname, w2, word0, fresh))


def name_table_rule(ctx, R, mod):
    """spr2str(n) is spr_str[n], str2spr(s) is spr_str.index(s): the pair is a bijection only when no name occurs twice.  The tables are evaluated from
    the module-level statements that build them (comprehensions, item assignments, loops); every table some function reads with .index() is checked."""
    from ..ppcbranch import module_env
    env, _sk = module_env(mod, {})
    indexed = {}
    for fname, fn in mod.funcs.items():
        for n in ast.walk(fn):
            if isinstance(n, ast.Call) and isinstance(n.func, ast.Attribute) and n.func.attr == 'index' and isinstance(n.func.value, ast.Name):
                indexed.setdefault(n.func.value.id, fname)
    for cname in mod.classes:
        for mname, fn in mod.methods(cname).items():
            for n in ast.walk(fn):
                if isinstance(n, ast.Call) and isinstance(n.func, ast.Attribute) and n.func.attr == 'index' and isinstance(n.func.value, ast.Name):
                    indexed.setdefault(n.func.value.id, '%s.%s' % (cname, mname))
    n_t = 0
    for tname, user in sorted(indexed.items()):
        tab = env.get(tname)
        if not (isinstance(tab, list) and tab and all(isinstance(x, str) for x in tab)):
            continue
        n_t += 1
        seen, dups = {}, []
        for i, nm in enumerate(tab):
            if nm in seen:
                dups.append((nm, seen[nm], i))
            seen.setdefault(nm, i)
        inst = 'name table %s (read back by %s)' % (tname, user)
        if dups:
            nm, a, b = dups[0]
            R.violation(inst, 'name-table:%s:%s' % (tname, nm), '%s holds the name %s at %d and at %d: number %d renders as %s and %s.index reads it back as %d, another word'
                        % (tname, nm, a, b, b, nm, tname, a), where(mod, mod.assigns[tname][-1]), witness='mfspr with SPR field %d renders as %s and assembles to SPR %d' % (b, nm, a))
        else:
            R.ok(inst, sample='%s: %d distinct names' % (tname, len(tab)))
    if n_t == 0:
        raise AnalysisError('no evaluable name table is read back with .index()')


def generic_trip_rule(ctx, R, M, mod):
    from ..ppctrip import Trip
    from ..ppcbranch import Raised
    T = Trip(ctx, M)
    n_eval = 0
    for cname in M.tab_mn:
        if cname in ('ppc_bc', 'ppc_bctr'):
            continue            # exhaustively covered by D7
        fields = M.fields(cname)
        var, vecs = trip_vectors(M, cname, fields)
        bad = {}
        for raw in vecs:
            n_eval += 1
            word = 0
            for i, f in enumerate(fields):
                v = int(f.fbits, 2) if f.fbits is not None else raw[i]
                word |= v << (32 - f.start - f.l)
            try:
                text, (kind, out) = T.trip(cname, fields, raw)
            except Raised as e:
                stage = str(e).split(':')[0].split('.')[-1] if ':' in str(e) else '?'
                bad.setdefault('raises:%s:%s' % (e.exc_name, stage), []).append((word, None, str(e)))
                continue
            if kind == 'classes':
                bad.setdefault('classes:%s' % ','.join(out), []).append((word, text, None))
                continue
            for i in var:
                if out[i] & ((1 << fields[i].l) - 1) != raw[i]:
                    bad.setdefault('field:%s' % fields[i].cname[3:], []).append((word, text, out[i]))
        inst = 'trip %s' % cname
        if not bad:
            R.ok(inst, sample='%s: %d vectors come back' % (cname, len(vecs)))
            continue
        for what, lst in sorted(bad.items()):
            word, text, extra = lst[0]
            if what.startswith('raises:'):
                msg = '%s: %d of %d sampled words cannot make the trip, e.g. %#010x: %s' % (cname, len(lst), len(vecs), word, extra[:110])
            elif what.startswith('classes:'):
                msg = '%s: the text %r rendered for %#010x is accepted by %s instead of exactly %s (%d of %d sampled words)' % (
                    cname, text, word, what[8:] or 'no class', cname, len(lst), len(vecs))
            else:
                msg = '%s: field %s is not reproduced for %d of %d sampled words, e.g. %#010x renders as %r and comes back with %s=%#x' % (
                    cname, what[6:], len(lst), len(vecs), word, text, what[6:], extra)
            R.violation(inst + ':' + what, 'trip:%s:%s' % (cname, what), msg, where(mod, mod.cls(cname)), witness='ppc_mn.asm(str(ppc_mn(%#010x)))' % word)
    R.note('%d words rendered and assembled back by static evaluation of the class methods (tools/validate_ppctrip.py: agreement with the real module on every sampled word at authoring time)' % n_eval)


def trip_vectors(P, cname, fields):
    """Boundary vectors of raw field values: every allowed extended opcode x (all 0, all 1, all max, each field max alone, sign-boundary values of each field of 4 bits or more)."""
    c = P.classes[cname]
    var = [i for i, f in enumerate(fields) if f.fbits is None]
    setvals = {}
    for s_ in c.bmsets:
        for i in var:
            f = fields[i]
            if f.start == s_.off and f.l == s_.l:
                setvals[i] = sorted(set(v for v in s_.values if 0 <= v < (1 << s_.l)))
    free = [i for i in var if i not in setvals]
    base = [dict((i, 0) for i in free), dict((i, 1) for i in free), dict((i, (1 << fields[i].l) - 1) for i in free)]
    for j in free:
        v = dict((i, 0) for i in free)
        v[j] = (1 << fields[j].l) - 1
        base.append(v)
        # signed fields (displacements, immediates): sign bit alone, largest positive value, the two patterns of the top two bits, sign bit with the lowest bit
        l_ = fields[j].l
        if l_ >= 4:
            for val_ in (1 << (l_ - 1), (1 << (l_ - 1)) - 1, 1 << (l_ - 2), (1 << (l_ - 1)) | 1, (3 << (l_ - 2)) | 1):
                v = dict((i, 0) for i in free)
                v[j] = val_
                base.append(v)
    out = []
    combos = list(itertools.product(*[setvals[i] for i in sorted(setvals)])) if setvals else [()]
    for cb in combos:
        for b in base:
            v = dict(b)
            v.update(dict(zip(sorted(setvals), cb)))
            out.append(v)
    return var, out


CANONICAL_BO = (0, 2, 4, 8, 10, 12, 16, 18, 20)     # PowerPC BO encodings with every hint (y) and ignored (z) bit clear


def branch_trip_rule(ctx, R, M, mod):
    import re
    from ..ppcbranch import BranchTrip, Raised
    T = BranchTrip(ctx, M)
    tests = list(T.cls_objs['ppc_bc'].all_tests)
    thorough = ctx.tier == 'thorough'

    def kind(name):
        base = re.sub('(LA|AL|L|A)$', '', name)
        for t in tests:
            if base.endswith(t):
                return base[:-len(t)] + 'cc'
        return base
    stats = {}
    n_eval = 0
    for cname, extra in (('ppc_bc', {'bd': 4}), ('ppc_bctr', {'opc10': 16}), ('ppc_bctr', {'opc10': 528})):
        if cname not in M.classes:
            raise AnalysisError('class %s not found' % cname)
        for bo in range(32):
            for bi in (range(32) if thorough else (0, 1, 2, 3, 4, 7, 30, 31)):
                for aa in ((0, 1) if cname == 'ppc_bc' else (0,)):
                    for lk in (0, 1):
                        f = dict(bo=bo, bi=bi, aa=aa, lk=lk, **extra)
                        n_eval += 1
                        name, args = T.render(cname, f)
                        k0 = (cname, kind(name))
                        st = stats.setdefault(k0, {'n': 0, 'bad': {}})
                        st['n'] += 1
                        try:
                            acc = T.accepting_classes(name)
                            if acc != [cname]:
                                st['bad'].setdefault('classes:%s' % ','.join(acc), []).append((f, name, args, None))
                                continue
                            o = T.assemble(cname, name, args)
                        except Raised as e:
                            st['bad'].setdefault('raises:%s' % e.exc_name, []).append((f, name, args, None))
                            continue
                        got = dict((k, getattr(o, k)) for k in f)
                        for k in f:
                            if got[k] != f[k]:
                                # two classes of words share one cause each (the text has no place for them): BO values with hint / ignored bits set (the
                                # architecture's y and z bits: every BO outside 0,2,4,8,10,12,16,18,20), and BI under a BO that ignores the condition (0x10 set).
                                # Every other word is its own finding: field, BO value, CR0 (not rendered as an operand) or another CR field
                                if k == 'bo' and bo not in CANONICAL_BO:
                                    sub = 'field:bo:hint-bits'
                                elif k == 'bi' and bo & 0x10:
                                    sub = 'field:bi:condition-ignored'
                                else:
                                    sub = 'field:%s:bo=%#x:%s' % (k, bo, 'cr0' if bi < 4 else 'crN')
                                st['bad'].setdefault(sub, []).append((f, name, args, got))
    R.note('%d field combinations rendered and assembled back (evaluated from the source of getname/args2str/check_mnemo/parse_opts/parse_args)' % n_eval)
    for (cname, kd), st in sorted(stats.items()):
        inst = '%s %s' % (cname, kd)
        if not st['bad']:
            R.ok(inst, sample='%s: %d combinations come back' % (inst, st['n']))
            continue
        for what, lst in sorted(st['bad'].items()):
            f, name, args, got = lst[0]
            word = 'BO=%#x BI=%d AA=%d LK=%d' % (f['bo'], f['bi'], f['aa'], f['lk'])
            if what.startswith('field:'):
                fld = what[6:].split(':')[0]
                cls_ = {'hint-bits': 'BO values with hint / ignored bits set', 'condition-ignored': 'BO values that ignore the condition'}.get(what.split(':')[-1]) \
                    or 'BO=%#x, BI in %s' % (f['bo'], 'CR0' if f['bi'] < 4 else 'CR1..7')
                msg = '%s, %s: %d of %d combinations do not get their %s back, e.g. %s renders as %r and assembles to %s=%#x' % (
                    inst, cls_, len(lst), st['n'], fld.upper(), word, (name + ' ' + ', '.join(args)).strip(), fld.upper(), got[fld])
            elif what.startswith('raises:'):
                msg = '%s: the assembler raises %s on %d of %d rendered texts, e.g. %r (%s)' % (inst, what[7:], len(lst), st['n'], (name + ' ' + ', '.join(args)).strip(), word)
            else:
                msg = '%s: %d of %d rendered mnemonics are accepted by %s instead of exactly %s, e.g. %r (%s)' % (
                    inst, len(lst), st['n'], what[8:] or 'no class', cname, name, word)
            R.violation(inst + ':' + what, 'branch-trip:%s:%s:%s' % (cname, kd, what), msg, where(mod, mod.cls(cname)))


def audit_pair(mod, bname, fi):
    """An overriding parse/bin pair is accepted when parse shifts left by k (optionally sign-extending) and bin shifts
    right by the same k and masks with (1<<l)-1."""
    meths = mod.methods(bname)
    if 'parse' in meths and 'bin' in meths:
        pt, bt = u(meths['parse']), u(meths['bin'])
        import re
        ks = re.findall(r'val <<= (\d+)', pt)
        kb = re.findall(r'>> (\d+)', bt)
        mk = re.findall(r'& (0x[0-9a-fA-F]+|\d+)', bt)
        if len(ks) == 1 and ks == kb[:1] and mk and int(mk[0], 0) == (1 << fi['l']) - 1:
            return True, ''
        if bname == 'bm_reglist':
            return True, ''
        return False, 'parse shifts by %s, bin by %s mask %s' % (ks, kb, mk)
    return False, 'only one of parse/bin is overridden'


def check_names(M, mod, R, cname, ci):
    c = M.classes[cname]
    bad = False
    fields = ci['fields']
    provided = set()
    for f in fields:
        provided.update(f.props)
    # class attributes through the MRO
    for k in c.mro:
        if k in M.classes:
            provided.update(M.classes[k].own.keys())
            provided.update(M.classes[k].methods.keys())
    provided.update(mod.methods('ppc_mn').keys())
    provided.update(['offset', 'l', 'm', 'arg', 'cmt', 'mask', 'mask_orig', 'mask_chk', 'args_list', 'args2str', 'parse_args',
                     'name2str', 'oe2str', 'rc2str', 'getname'])
    _, namestr = M.attr(cname, 'namestr')
    if namestr is None:
        R.violation(cname, '%s:namestr' % cname, '%s has no namestr' % cname, where(mod, c.node))
        return
    names = list(namestr.keys()) if isinstance(namestr, dict) else list(namestr)
    # which dict does the class use?
    sets = ci['sets']
    dct = None
    dct_name = None
    for nm in ('namedct', 'namsdct'):
        k, v = M.attr(cname, nm)
        if isinstance(v, dict):
            # own definition wins
            if dct is None or nm in c.own:
                dct, dct_name = v, nm
    if isinstance(namestr, dict):
        dct, dct_name = namestr, 'namestr'
    if dct is not None and (dct_name in c.own):
        if set(names) != set(dct.keys()):
            R.violation(cname, '%s:namestr-vs-%s:%s' % (cname, dct_name, sorted(set(names) ^ set(dct.keys()))),
                        '%s: namestr and %s disagree on %s' % (cname, dct_name, sorted(set(names) ^ set(dct.keys()))), where(mod, c.node))
            bad = True
        for s in sets:
            if 'fbits' and sorted(s.values) != sorted(dct.values()) and len(sets) == 1 and dct_name in c.own:
                # the set was written from the dict (values()); literal sets are compared too
                R.violation(cname, '%s:set-vs-%s' % (cname, dct_name), '%s: extended-opcode set %s differs from %s values %s'
                            % (cname, sorted(s.values), dct_name, sorted(dct.values())), where(mod, s.node))
                bad = True
    if dct is not None and dct_name in c.own:
        vals = list(dct.values())
        dups = sorted(set(v for v in vals if vals.count(v) > 1))
        if dups:
            R.violation(cname, '%s:%s:duplicate:%s' % (cname, dct_name, dups),
                        '%s.%s maps several mnemonics to the same extended opcode %s: one of them can never be decoded/re-encoded' % (cname, dct_name, dups),
                        where(mod, c.node))
            bad = True
    for s in sets:
        for v in s.values:
            if not (0 <= v < (1 << s.l)):
                R.violation(cname, '%s:xo-range:%d' % (cname, v), '%s: extended opcode %d does not fit the %d-bit set at bit %d: it can never match'
                            % (cname, v, s.l, s.off), where(mod, s.node))
                bad = True
    # rendering methods
    for mname in ('name2str', 'oe2str', 'rc2str', 'getname'):
        k, fn = M.method(cname, mname)
        if fn is None:
            R.violation(cname, '%s:%s:missing' % (cname, mname), '%s has no %s through its MRO: str() raises AttributeError' % (cname, mname),
                        where(mod, c.node), witness='str(ppc_mn(<word of %s>))' % cname)
            bad = True
            continue
        assigned = set(n.attr for n in ast.walk(fn) if isinstance(n, ast.Attribute) and isinstance(n.ctx, ast.Store)
                       and isinstance(n.value, ast.Name) and n.value.id == 'self')
        if mname == 'getname':
            provided |= assigned
        for n in ast.walk(fn):
            if isinstance(n, ast.Attribute) and isinstance(n.value, ast.Name) and n.value.id == 'self' and isinstance(n.ctx, ast.Load):
                if n.attr not in provided and n.attr not in assigned:
                    R.violation(cname, '%s:%s:self.%s' % (cname, mname, n.attr),
                                '%s.%s (from %s) reads self.%s which no field, class attribute or earlier method of %s provides'
                                % (cname, mname, k, n.attr, cname), where(mod, n))
                    bad = True
            # constant subscripts of namestr
            if isinstance(n, ast.Subscript) and u(n.value) == 'self.namestr' and isinstance(n.slice, ast.Constant) \
                    and isinstance(n.slice.value, int) and not isinstance(namestr, dict):
                # a dominating guard on the length of namestr makes the read safe
                guarded = False
                q = parent(n)
                while q is not None and q is not fn:
                    if isinstance(q, ast.If) and 'len(self.namestr) > %d' % n.slice.value in u(q.test) and any(n in list(ast.walk(b)) for b in q.body):
                        guarded = True
                    q = parent(q)
                if n.slice.value >= len(names) and not guarded:
                    R.violation(cname, '%s:%s:namestr[%d]' % (cname, mname, n.slice.value),
                                '%s.%s (inherited from %s) reads namestr[%d] but %s.namestr has %d entries: IndexError on that path'
                                % (cname, mname, k, n.slice.value, cname, len(names)), where(mod, n),
                                witness='str() of a %s word with ra == 0' % cname)
                    bad = True
            # strname lookups keyed by an opcode field: strname must be total over the accepted set
            if isinstance(n, ast.Subscript) and u(n.value) == 'self.strname':
                k2, strname = M.attr(cname, 'strname')
                if not isinstance(strname, dict):
                    R.violation(cname, '%s:%s:strname' % (cname, mname), '%s has no evaluable strname' % cname, where(mod, n))
                    bad = True
                else:
                    key_field = u(n.slice).replace('self.', '')
                    fl = [f for f in fields if key_field in f.props]
                    accepted = set()
                    for s in sets:
                        if fl and fl[0].start == s.off and fl[0].l == s.l:
                            accepted = set(s.values)
                    missing = accepted - set(strname.keys())
                    if missing:
                        R.violation(cname, '%s:strname-missing:%s' % (cname, sorted(missing)),
                                    '%s accepts extended opcodes %s that strname (from %s) does not name: KeyError in str()' % (cname, sorted(missing), k2),
                                    where(mod, n))
                        bad = True
                    wrong = [v for v in strname.values() if v not in names]
                    if wrong:
                        R.violation(cname, '%s:strname-not-in-namestr:%s' % (cname, sorted(wrong)),
                                    '%s can render names %s that its namestr (used by the assembler) does not list' % (cname, sorted(wrong)), where(mod, n))
                        bad = True
    # args2str
    if 'args2str' in c.methods or any('args2str' in M.classes[k].methods for k in c.mro if k in M.classes and k != 'ppc_mn'):
        k, fn = M.method(cname, 'args2str')
        for n in ast.walk(fn):
            if isinstance(n, ast.Attribute) and isinstance(n.value, ast.Name) and n.value.id == 'self' and isinstance(n.ctx, ast.Load):
                if n.attr not in provided:
                    R.violation(cname, '%s:args2str:self.%s' % (cname, n.attr), '%s.args2str (from %s) reads self.%s which %s does not provide'
                                % (cname, k, n.attr, cname), where(mod, n))
                    bad = True
    else:
        # generated from do_args by the metaclass: needs a DIRECT base that defines gen_args2str
        owner = None
        for k in c.mro:
            if k in M.classes and 'do_args' in M.classes[k].own:
                owner = k
                break
        if owner is None:
            R.note('%s renders "NO ARGS" (ppc_mn.args2str default)' % cname)
        else:
            direct = M.bases_of.get(owner, [])
            if 'ppc_mn' not in direct:
                R.violation(cname, '%s:args2str:none' % cname,
                            '%s takes do_args from %s whose direct bases %s do not define gen_args2str: the metaclass sets args2str = None, str() raises TypeError'
                            % (cname, owner, direct), where(mod, M.classes[owner].node), witness='str(ppc_mn(<word of %s>))' % cname)
                bad = True
            da = M.classes[owner].own['do_args']
            for ent in da:
                r = ent[0]
                if r not in provided:
                    R.violation(cname, '%s:do_args:%s' % (cname, r), '%s renders operand %r (do_args of %s) but its mask_list has no such field: AttributeError'
                                % (cname, r, owner), where(mod, M.classes[owner].node))
                    bad = True
    if not bad:
        R.ok(cname, sample='%s: names %s' % (cname, names[:6]))


def check_arch(M, mod, R, cname, ci, ref):
    c = M.classes[cname]
    prim = 0
    fx = ci['fixed']
    if not all(p in fx for p in range(6)):
        R.violation(cname, '%s:primary' % cname, '%s does not fix the 6-bit primary opcode' % cname, where(mod, c.node))
        return
    for p in range(6):
        prim = (prim << 1) | fx[p]
    entries = ref.get(prim)
    if entries is None:
        R.note('%s: primary opcode %d unknown to the reference (not judged)' % (cname, prim))
        R.ok(cname + ':unknown', nontrivial=False)
        return
    _, namestr = M.attr(cname, 'namestr')
    names = list(namestr.keys()) if isinstance(namestr, dict) else list(namestr or [])
    if not ci['sets']:
        e = [x for x in entries if x[0] is None]
        if not e:
            R.violation(cname, '%s:form' % cname, '%s decodes primary %d without extended opcode but the architecture has extended forms there' % (cname, prim),
                        where(mod, c.node))
            return
        xo, arch, aliases = e[0]
        for nm in names:
            inst = '%s:%s' % (cname, nm)
            if name_matches(nm, arch, aliases):
                R.ok(inst, sample='primary %d -> %s (arch %s)' % (prim, nm, arch))
            else:
                R.violation(inst, 'arch:%s:%d:%s' % (cname, prim, nm), 'primary opcode %d is %s in the PowerPC architecture, %s names it %s' % (prim, arch, cname, nm),
                            where(mod, c.node))
        return
    _, strname = M.attr(cname, 'strname')
    for s in ci['sets']:
        for v in sorted(set(s.values)):
            if not (0 <= v < (1 << s.l)):
                continue
            inst = '%s:%d/%d' % (cname, prim, v)
            cands = [x for x in entries if x[0] is not None and x[0][0] == s.l and x[0][1] == v]
            # a 9-bit XO-form opcode may be stated in the repository as 10-bit with OE=0 and vice versa
            if not cands and s.l == 10:
                cands = [x for x in entries if x[0] is not None and x[0][0] == 9 and x[0][1] == (v & 0x1FF)]
            if not cands and s.l == 9:
                cands = [x for x in entries if x[0] is not None and x[0][0] == 10 and x[0][1] == v]
            repo_name = None
            if isinstance(strname, dict) and v in strname and ('strname' in c.own or True):
                repo_name = strname.get(v)
            if len(names) == 1:
                repo_name = names[0]
            if not cands and repo_name is not None:
                # the reference assigns this mnemonic to another opcode: a positive contradiction
                elsewhere = [(p2, x) for p2, es in ref.items() for x in es if name_matches(repo_name, x[1], x[2]) and x[0] is not None]
                if elsewhere:
                    p2, x = elsewhere[0]
                    R.violation(inst, 'arch:%s:%d/%d:%s' % (cname, prim, v, repo_name),
                                '%s decodes (primary %d, extended %d) as %s; the PowerPC architecture assigns %s to (primary %d, extended %d) and '
                                'nothing to this opcode' % (cname, prim, v, repo_name, x[1], p2, x[0][1]), where(mod, s.node))
                    continue
            if not cands:
                R.note('%s: (primary %d, xo %d) unknown to the reference (not judged)' % (cname, prim, v))
                R.ok(inst + ':unknown', nontrivial=False)
                continue
            if repo_name is None:
                R.ok(inst + ':unnamed', nontrivial=False)
                continue
            xo, arch, aliases = cands[0]
            if name_matches(repo_name, arch, aliases):
                R.ok(inst, sample='(%d, %d:%d) -> %s (arch %s)' % (prim, s.l, v, repo_name, arch))
            else:
                R.violation(inst, 'arch:%s:%d/%d:%s' % (cname, prim, v, repo_name),
                            '(primary %d, extended %d) is %s in the PowerPC architecture, %s names it %s' % (prim, v, arch, cname, repo_name),
                            where(mod, s.node))


MUTANTS = [
    ('check-skips-zero-fbits', 'miasmx/arch/ppc_arch.py', "            if m.fbits is None:\n                continue\n            if not m.check(op):", "            if not m.fbits:\n                continue\n            if not m.check(op):", 'C18.D10'),
    ('exts-no-dot', 'miasmx/arch/ppc_arch.py', "    do_args = [('ra',reg), ('rs',reg)]\n\n    @classmethod\n    def check_opts(cls, rest):\n        if rest in [\"\", \".\"]:\n            return True\n        return False\n", "    do_args = [('ra',reg), ('rs',reg)]\n", 'C18.D8'),
    ('sc-operand-dropped', 'miasmx/arch/ppc_arch.py', "        if args:\n            self.offs = str2imm(args.pop())\n", "", 'C18.D8'),
    ('sr-not-registers', 'miasmx/arch/ppc_arch.py', "+fpr_str+spr_str+sr_str\n", "+fpr_str+spr_str\n", 'C18.D8'),
    ('bctr-cr-ignored', 'miasmx/arch/ppc_arch.py', "        if args:\n            tmp = str2cr(args.pop())", "        if len(args) >1:\n            tmp = str2cr(args.pop())", 'C18.D7'),
    ('bc-AL-order', 'miasmx/arch/ppc_arch.py', "        if self.lk:\n            name+='L'\n        if self.aa:\n            name+='A'\n", "        if self.aa:\n            name+='A'\n        if self.lk:\n            name+='L'\n", 'C18.D7'),
    ('cond-whitelist-arm', 'miasmx/arch/ppc_arch.py', "                if not is_symbol(a) or a in ppc_bc.all_tests:", "                if not is_symbol(a) or a in bm_cond.n:", 'C18.D7'),
    ('name2str-unguarded', 'miasmx/arch/ppc_arch.py', "        if self.ra == 0 and len(self.namestr) > 1:", "        if self.ra == 0:", 'C18.D4'),
    ('addc-8', 'miasmx/arch/ppc_arch.py', "namsdct = {'ADD':266, 'ADDC':10,", "namsdct = {'ADD':266, 'ADDC':8,", 'C18.D'),
    ('rb-width', 'miasmx/arch/ppc_arch.py', "class bm_rb(bm):\n    l = 5", "class bm_rb(bm):\n    l = 4", 'C18.D1'),
    ('cmp-vs-tw', 'miasmx/arch/ppc_arch.py', "namedct = {'CMP':0, 'CMPL':32}", "namedct = {'CMP':4, 'CMPL':32}", 'C18.D2'),
    ('and-swap-names', 'miasmx/arch/ppc_arch.py', "namedct = {'AND':28, 'ANDC':60,", "namedct = {'AND':60, 'ANDC':28,", 'C18.D5'),
    ('lwz-primary', 'miasmx/arch/ppc_arch.py', "class ppc_lwz(ppc_lbz):\n    mask_list = [bm_int100000,", "class ppc_lwz(ppc_lbz):\n    mask_list = [bm_int100001,", 'C18.D2'),
    ('extsh-set-width', 'miasmx/arch/ppc_arch.py', '{"fbits":namedct.values(), \'l\':10})}\n\n    strname = dict((x[1], x[0]) for x in namedct.items())\n\n    do_args = [(\'ra\',reg), (\'rs\',reg)]\n\n    @classmethod',
     '{"fbits":namedct.values()})}\n\n    strname = dict((x[1], x[0]) for x in namedct.items())\n\n    do_args = [(\'ra\',reg), (\'rs\',reg)]\n\n    @classmethod', 'C18.D'),
    ('offs-pair', 'miasmx/arch/ppc_arch.py', "        v = (self.offs>>2)&0xffffff\n", "        v = (self.offs>>1)&0xffffff\n", 'C18.D3'),
    ('srawi-name', 'miasmx/arch/ppc_arch.py', "{\"fbits\":[824], 'l':10}", "{\"fbits\":[792], 'l':10}", 'C18.D'),
    ('stw-name', 'miasmx/arch/ppc_arch.py', "    namestr = ['STW']", "    namestr = ['STH']", 'C18.D5'),
    ('spr-name-twice', 'miasmx/arch/ppc_arch.py', "spr_str[864] = 'SR1'", "spr_str[864] = 'SR0'", 'C18.D9'),
]
