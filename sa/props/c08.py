"""C08 -- read/write sets of the lifted semantics never omit an architectural dependency."""
import ast

from ..core import AnalysisError, where, norm
from ..srcmodel import walk_no_nested
from ..shapes import u
from ..liftforms import LifterModel
from ..lifter import LiftError, Term, show
from ..irsets import rw_sets, reads_of, mem_mentions, load_effects_ref, load_cc_ref, cc_flags, load_getr_spec
from .c04 import cc_of_name

FAMILIES = {'j': 'jcc', 'set': 'setcc', 'cmov': 'cmovcc'}


def base_id(t):
    if t.kind == 'Slice':
        t = t.arg
    return t


def operand_reads(op):
    """(ids, mems) that reading the operand implies."""
    b = base_id(op)
    if b.kind == 'Id':
        return {b.name}, set()
    if b.kind == 'Mem':
        ids, mems = reads_of(b.arg)
        return ids, {b}
    return set(), set()


def run(ctx, report):
    thorough = ctx.tier == 'thorough'
    L = LifterModel(ctx, opmodes=('u32', 'u16'), rich=True)
    sem = L.sem
    eff = load_effects_ref()
    ccref = load_cc_ref()
    spec = load_getr_spec(ctx)
    report.analysed['get_r_recursion'] = dict((k, ['%s%s' % (f, '' if fw else ' (mem_read dropped)') for f, fw in v]) for k, v in spec.items())
    report.explanation = (
        'For every live decoder variant x operand form whose mnemonic is in ref/ia32_effects.ref (integer core, plus the x87/SSE instructions with implicit '
        'flag/register effects), the read set (identifiers and memory cells reached by get_r(mem_read=True) semantics over the E4 template, plus the address of '
        'memory destinations) contains every architectural input (explicit operands by position, implicit registers, flags of the condition code, df, memory through '
        'esi/edi/esp) and the write set contains every architectural output.  D2: the generic MMX fallback only writes its first operand, so every '
        '"#"-mnemonic with implicit effects must have its own entry in mnemo_func -- checked through the same table. D3: for every register-operand shape the decoder produces (register file, size key, modifier context, operand size) and every register number 0..7, dict_to_Expr (partially evaluated) yields the IR register of that file and number (sub-register slices for 8/16-bit).')
    report.not_decided = 'dependencies that my reference table does not list; fidelity of the row -> operand-form model (assumption, validated at authoring time).'
    report.assumptions.append('read set = union of src.get_r(mem_read=True) of every assignment plus the address identifiers of memory destinations')
    R1 = report.rule('C08.D1', 'architectural reads and writes are contained in the lifted read/write sets', floor=250)
    # ---------------------------------------------------------------- D3 register operands denote the right register
    R3 = report.rule('C08.D3', 'a register operand is lifted to the register (file and number) the decoder means', floor=300)
    X, E, afs = L.X, L.X.env, L.X.afs
    I = L.I
    d2e = I.g.get('dict_to_Expr')
    shapes = {}
    for inst in L.instances:
        for od in inst.operands:
            if od.get(afs.ad) or afs.imm in od:
                continue
            regs = [k for k in od if isinstance(k, int)]
            if len(regs) != 1:
                continue
            n = regs[0]
            cm = tuple(sorted((str(k), str(v)) for k, v in inst.modifs.items() if v is not None and k in (E['mmx'], E['sd'], E['sg'], E['cr'], E['dr'], E['w8'], E['wd'])))
            shapes.setdefault((n - (n & 7), od.get(afs.size), cm, inst.opmode), (od, inst))
    r32 = list(afs.reg_list32)
    FILES = {afs.reg_mm_base: lambda k: 'mm%d' % k, afs.reg_xmm_base: lambda k: 'xmm%d' % k}

    def expected(base, size, cm, k):
        if base in FILES:
            return FILES[base](k)
        cmd = dict(cm)
        if base == 0:
            if 'sd' in cmd:
                return 'float_st%d' % k
            if size == afs.u08:
                return '%s[0:8]' % r32[k] if k < 4 else '%s[8:16]' % r32[k - 4]
            if size == afs.u16:
                return '%s[0:16]' % r32[k]
            return r32[k]
        if 'dr' in cmd and base == 8:
            return 'dr%d' % k
        if 'cr' in cmd and base == 16:
            return 'cr%d' % k
        if 'sg' in cmd:
            return list(afs.reg_sg)[k] if k < len(afs.reg_sg) else None
        return None
    from ..lifter import show as tshow
    for key, (od, inst) in sorted(shapes.items(), key=str):
        base, size, cm, opm = key
        for k in range(8):
            want = expected(base, size, cm, k)
            if want is None:
                continue
            d = dict((a, b) for a, b in od.items() if not isinstance(a, int))
            d[base + k] = 1
            try:
                r = I.run(d2e, [d, inst.modifs, inst.opmode, 'u32', set()])
            except LiftUnknown as e:
                raise AnalysisError('dict_to_Expr outside the modelled subset on %s: %s' % (d, e))
            v = r[0][1]
            iid = 'reg file %s number %d size %s ctx %s opmode %s' % (base, k, size, ','.join('%s=%s' % c for c in cm) or '-', opm)
            if isinstance(v, LiftError):
                R3.ok(iid + ':error', nontrivial=False)      # reported by C11.D1
                continue
            got = tshow(v)
            if got == want:
                R3.ok(iid, sample='%s -> %s' % (iid, got))
            else:
                R3.violation(iid, 'regmap:%s:%s:%s:%d' % (base, size, ','.join(c[0] for c in cm), k), 'dict_to_Expr lifts the register operand (file base %s, number %d, size %s, %s) to %s; '
                             'the decoder means %s' % (base, k, size, ','.join('%s=%s' % c for c in cm) or 'no modifier', got, want), where(sem, d2e.node),
                             witness='66 0f 72 d7 01 (psrld xmm7, 1) is lifted as an assignment to edi' if want == 'xmm7' else None)

    R2 = report.rule('C08.D2', 'SSE/x87 instructions with implicit effects are not left to the generic fallback', floor=8)
    seen_names = set()
    for inst in L.lift_all():
        if inst.func is None or inst.unknown:
            continue
        name = inst.name
        rname = name
        cc = cc_of_name(ccref, name)
        ccflags = set()
        if cc and name not in ('jmp', 'jmpf', 'jecxz', 'setalc'):
            rname = FAMILIES[cc[0]]
            ccflags = cc_flags(ccref[cc[1]]['pred'])
        e = eff.get('%s/%d' % (rname, len(inst.args or []))) or eff.get(rname)
        if e is None:
            continue
        R = R2 if e['ext'] else R1
        for dec, tmpl in inst.results:
            if isinstance(tmpl, LiftError) or not isinstance(tmpl, list):
                continue
            seen_names.add(rname)
            seen_names.add('%s/%d' % (rname, len(inst.args or [])))
            rid, rmem, wid, wmem = rw_sets(tmpl)
            rmem_keys = set(m.key() for m in rmem)
            wmem_keys = set(m.key() for m in wmem)
            args = inst.args or []
            # jcc/call receive (next_eip, operand): architecture operand 0 is args[0]
            byte_form = bool(args) and isinstance(args[0], Term) and _width(args[0]) == 8
            want_r, want_w = list(e['R']), list(e['W'])
            if rname == 'imul':
                if len(args) == 1:
                    want_r, want_w = ['op0', 'eax'], ['eax'] + ([] if byte_form else ['edx'])
                elif len(args) == 2:
                    want_r, want_w = ['op0', 'op1'], ['op0']
                else:
                    want_r, want_w = ['op1', 'op2'], ['op0']
            if rname in ('mul', 'div', 'idiv') and byte_form:
                want_r = [x for x in want_r if x != 'edx']
                want_w = [x for x in want_w if x != 'edx']
            if rname in ('shl', 'sal', 'shr', 'sar', 'rol', 'ror', 'rcl', 'rcr') and len(args) < 2:
                want_r = [x for x in want_r if x != 'op1']
            if rname in ('jmp', 'call') and args and args[0].kind == 'Int':
                want_r = [x for x in want_r if x != 'op0']
            if rname in ('ret', 'retf') and args:
                pass
            # the degenerate x87 forms on st(0) itself: fxch st(0) exchanges nothing (no result depends on st(0), nothing is modified); a popping arithmetic
            # instruction whose destination is st(0) computes a value that the pop discards at once -- no modelled result depends on st(0) (the x87 exception
            # flags are modelled for no x87 row); what the pop reads and writes stays required
            if args and args[0].kind == 'Id' and args[0].name == 'float_st0':
                if rname == 'fxch':
                    want_r = [x for x in want_r if x not in ('float_st0', 'op0')]
                    want_w = [x for x in want_w if x not in ('float_st0', 'op0')]
                elif rname in POPPING_ARITH and len(args) == 1:
                    want_r = [x for x in want_r if x not in ('float_st0', 'op0')]
            # NR:opK = operand K is overwritten before the stack moves: its old value is not an input
            not_read = set()
            for item in [x for x in want_r if x.startswith('NR:op')]:
                want_r.remove(item)
                k_ = int(item[5:])
                if k_ < len(args) and base_id(args[k_]).kind == 'Id':
                    not_read.add(base_id(args[k_]).name)
            want_r = [x for x in want_r if x not in not_read]
            missing = []
            for item in want_r:
                if item == 'CC':
                    for fl in sorted(ccflags):
                        if fl not in rid:
                            missing.append('read of flag %s (condition %s)' % (fl, ccref[cc[1]]['pred']))
                elif item.startswith('ADDR('):
                    k = int(item[7:-1])
                    if k < len(args) and base_id(args[k]).kind == 'Mem':
                        ids, _ = reads_of(base_id(args[k]).arg)
                        for i in sorted(ids - rid):
                            missing.append('read of address register %s' % i)
                elif item.startswith('op'):
                    k = int(item[2:])
                    if k < len(args):
                        ids, mems = operand_reads(args[k])
                        for i in sorted(ids - rid):
                            missing.append('read of operand %d (%s)' % (k, i))
                        for m in mems:
                            if m.key() not in rmem_keys and not _derived_cell(rmem, m):
                                missing.append('read of memory operand %d (%s)' % (k, show(m)))
                elif item.startswith('['):
                    reg = item[1:-1]
                    if not mem_mentions(rmem, reg):
                        missing.append('read of memory through %s' % reg)
                else:
                    if item not in rid:
                        missing.append('read of %s' % item)
            for item in want_w:
                if item.startswith('op'):
                    k = int(item[2:])
                    if k < len(args):
                        b = base_id(args[k])
                        if b.kind == 'Id' and b.name not in wid:
                            missing.append('write of operand %d (%s)' % (k, b.name))
                        elif b.kind == 'Mem' and b.key() not in wmem_keys and not _derived_cell(wmem, b):
                            missing.append('write of memory operand %d (%s)' % (k, show(b)))
                elif item.startswith('['):
                    reg = item[1:-1]
                    if not mem_mentions(wmem, reg):
                        missing.append('write of memory through %s' % reg)
                else:
                    if item not in wid:
                        missing.append('write of %s' % item)
            if e['F'] - wid:
                missing.append('write of flags %s' % ','.join(sorted(e['F'] - wid)))
            for fl in sorted(e['D'] - wid):
                missing.append('write of %s' % fl)
            iid = inst.key()
            R.instances += 1
            R.nontrivial.add('%s:%s' % (rname, inst.form))
            if missing:
                for ms in missing:
                    R.violation(iid, 'rw:%s:%s:%s' % (inst.func.name, rname if inst.func.name in ('MMXnoflags', 'fcmovX', 'aaa_stub') else '', ms),
                                '%s (%s, lifted by %s): the lifted semantics omit the %s' % (name, inst.form, inst.func.name, ms),
                                where(sem, inst.func.node), count=False)
            elif len(R.samples) < 5:
                R.samples.append('%s %s: reads %s%s, writes %s%s' % (name, inst.form, sorted(rid)[:6], ' +mem' if rmem else '', sorted(wid)[:6], ' +mem' if wmem else ''))
    for mn, e in eff.items():
        if mn not in seen_names and mn not in ('jcc', 'setcc', 'cmovcc'):
            report.analysed.setdefault('ref_mnemonics_not_reached', []).append(mn)
    report.analysed['effects_ref_mnemonics'] = len(eff)

    # ------------------------------------------------------------ D4 far-pointer loads: selector after the offset
    R4 = report.rule('C08.D4', 'lds/les/lss/lfs/lgs read the selector at operand-size/8 bytes after the offset', floor=3)
    SEG = {'lds': 'ds', 'les': 'es', 'lss': 'ss', 'lfs': 'fs', 'lgs': 'gs'}
    n_far = 0
    for inst in L.lift_all():
        if inst.func is None or inst.unknown or inst.name not in SEG:
            continue
        args = inst.args or []
        if len(args) != 2 or args[1].kind != 'Mem':
            continue
        for dec, tmpl in inst.results:
            if isinstance(tmpl, LiftError) or not isinstance(tmpl, list):
                continue
            if inst.func.name in ('MMXnoflags',):
                continue
            n_far += 1
            iid = inst.key()
            w = _width(args[0])
            sel = [a for a in tmpl if a.kind == 'Aff' and a.dst.kind == 'Id' and a.dst.name == SEG[inst.name]]
            off = [a for a in tmpl if a.kind == 'Aff' and a.dst.key() == args[0].key()]
            problems = []
            if not off or off[0].src.kind != 'Mem' or off[0].src.arg.key() != args[1].arg.key() or _width(off[0].src) != w:
                problems.append('the offset is not loaded from the operand address with the operand size')
            if not sel or sel[0].src.kind != 'Mem' or _width(sel[0].src) != 16:
                problems.append('no 16-bit selector load into %s' % SEG[inst.name])
            else:
                a = sel[0].src.arg
                k = None
                if a.kind == 'Op' and a.op == '+' and len(a.args) == 2 and a.args[0].key() == args[1].arg.key() and a.args[1].kind == 'Int':
                    k = a.args[1].mod.val
                if k is None:
                    problems.append('selector address is not <operand address> + constant')
                elif w and k != w // 8:
                    problems.append('selector read at offset %s, the %d-bit offset occupies %d bytes' % (k, w, w // 8))
            if problems:
                R4.violation(iid, 'far-pointer:%s:%s' % (inst.func.name, ';'.join(problems)[:90]), '%s (%s): %s' % (inst.name, inst.form, '; '.join(problems)),
                             where(sem, inst.func.node), witness='%s eax, [ebx]: selector is at [ebx+4]' % inst.name)
            else:
                R4.ok(iid, sample='%s %s: offset @%d[addr], selector @16[addr+%d]' % (inst.name, inst.form, w, w // 8))
    report.analysed['far_pointer_forms'] = n_far

    # ---------------------------------------------------------------- D5 the read set of one assignment (ExprAff.get_r), evaluated
    R5 = report.rule('C08.D5', 'an assignment reports the reads of its source, its store address and segment, and the written cell when the source reads it', floor=1)
    from .c16 import aff_reads_rule
    aff_reads_rule(ctx, R5)

    # ---------------------------------------------------------------- D6 the cell a pop / push through esp really touches
    R6 = report.rule('C08.D6', 'push/pop with esp as operand or base register: the written cell and the read cell are addressed with the value of esp IA-32 prescribes', floor=7)
    from .c04 import stack_operand_rule
    stack_operand_rule(ctx, R6, L, L.sem)

    # ---------------------------------------------------------------- D8 flags a masked-zero count keeps are inputs of the instruction (shared with C04.D10)
    R8 = report.rule('C08.D8', 'a shift or rotate whose count (cl or imm8) masked to five bits is 0 keeps every flag: the lifted assignments carry the old flag values through '
                     '(so the old flags are in the read set), evaluated for counts 0, 0x20, 0x40, 0xE0 in cl and as immediate', floor=100)
    from .c04 import count_zero_rule
    count_zero_rule(ctx, R8, L, L.sem)

    # ---------------------------------------------------------------- D7 the repeat count of a rep-prefixed string instruction
    R7 = report.rule('C08.D7', 'the lifted list of a rep-prefixed string instruction reads and writes the count register the address size selects, for every string instruction under F2 or F3 (predicate and count evaluated)', floor=6)
    rep_count_rule(ctx, R7)

    # ---------------------------------------------------------------- D10 MMX/SSE destinations that keep part of their old value
    R10 = report.rule('C08.D10', 'an MMX/SSE instruction that merges into its destination register (two-operand arithmetic, scalar forms that keep the upper lanes: movss / movsd between '
                      'registers, sqrtss, cvtss2sd, movlps / movhps loads, ...) reports the destination among its reads, whichever semantic function lifts it', floor=150)
    sse_merge_rule(ctx, R10, L, sem)

    # ---------------------------------------------------------------- D9 kept operand expressions
    R9 = report.rule('C08.D9', 'operand expressions and lifted lists that are kept with an instruction or in a table are computed only from what selects the slot they are kept in '
                     '(the instruction, the key): the segments asked for (segm_to_do) and the other arguments of the lifting call select the answer of every call (shared with C12.D17)', floor=1)
    from .c12 import cache_key_rule
    cache_key_rule(R9, [ctx.mod(n_) for n_ in ('emul_helper', 'ia32_sem', 'ia32_arch', 'ppc_sem', 'ppc_arch') if n_ in __import__('sa.srcmodel', fromlist=['MODULES']).MODULES])


SSE_FULL_OVERWRITE = ('mova#ps#', 'mov#qa#', 'movnt#ps#', 'movnt#q#', 'movq', 'mov#d#', 'pshuf#w#', 'cvt#dq2ps', 'cvt#pd2dq', 'round##PD#', 'round##PS#', 'extract##PS#',
                      'movmskp#S#', 'pmovmskb', '#p#absb', '#p#absd', '#p#absw', '#p#hminposuw', '#p#extrb', '#p#extrd', '#p#extrw', 'maskmov#qu#')
SSE_SCALAR_MERGE = ('sqrt#ps#', 'rcp#ps#', 'rsqrt#ps#', 'cvt#ps2pd')          # packed under no prefix / 66 (full overwrite), scalar under F3 / F2 (upper lanes kept)
SSE_NO_VERDICT = ('#p#test', 'comis#s#', 'ucomis#s#', '#p#cmpestri', '#p#cmpestrm', '#p#cmpistri', '#p#cmpistrm', 'cvt#pi2ps', 'cvt#ps2pi', 'cvtt#ps2pi')


# x OP x is one constant whatever x holds (IA-32 optimisation manual, dependency-breaking idioms), keyed by opcode bytes behind 0F: bitwise xor / and-not, integer
# subtraction (wrapping and saturating), integer greater-than (all zeroes), integer equality (all ones).  Floating-point subtraction and compares are not among them
# (inf - inf and NaN - NaN are NaN), nor are the horizontal subtractions.
SSE_SAME_REGISTER_CONSTANT = {(0xEF,): 'pxor', (0xDF,): 'pandn', (0x57,): 'xorps / xorpd', (0x55,): 'andnps / andnpd',
                              (0xF8,): 'psubb', (0xF9,): 'psubw', (0xFA,): 'psubd', (0xFB,): 'psubq', (0xD8,): 'psubusb', (0xD9,): 'psubusw', (0xE8,): 'psubsb', (0xE9,): 'psubsw',
                              (0x64,): 'pcmpgtb', (0x65,): 'pcmpgtw', (0x66,): 'pcmpgtd', (0x38, 0x37): 'pcmpgtq',
                              (0x74,): 'pcmpeqb', (0x75,): 'pcmpeqw', (0x76,): 'pcmpeqd', (0x38, 0x29): 'pcmpeqq'}


def same_register_constant(inst):
    """The form names one register twice and the architecture's result does not depend on what it holds."""
    opc = tuple(getattr(inst, 'opc', ()) or ())
    if not inst.form.startswith('reg,rm=same') or opc[:1] != (0x0F,):
        return False
    if opc[1:] in ((0x57,), (0x55,)) and any(p in (0xF3, 0xF2) for p in inst.prefix or ()):
        return False                    # no such instruction (rejected by the decoder; kept out of the idioms anyway)
    return opc[1:] in SSE_SAME_REGISTER_CONSTANT


def sse_merges(rowname, prefix, src_is_reg):
    """True: the architecture keeps part of the old destination register (it is an input); False: every bit of it is overwritten; None: no verdict here."""
    scalar = any(p in (0xF3, 0xF2) for p in prefix)
    if rowname in SSE_NO_VERDICT:
        return None
    if rowname == 'mov#ups#':
        return scalar and src_is_reg           # movss / movsd xmm, xmm keep the upper lanes; from memory they clear them
    if rowname in SSE_FULL_OVERWRITE or rowname.startswith(('#p#movsx', '#p#movzx')):
        return False
    if rowname in SSE_SCALAR_MERGE:
        return scalar
    if rowname in ('mov#lps#', 'mov#hps#'):
        return True                            # one half is loaded, the other kept (movhlps / movlhps between registers as well)
    return True                                # two-operand arithmetic, logic, compare, pack / unpack, shuffle with two sources, insert, blend, round scalar


def sse_merge_rule(ctx, R, L, sem):
    afs, E = L.X.afs, L.X.env
    n = 0
    n_same = [0, 0]
    for inst in L.lift_all():
        if inst.func is None or inst.unknown or not inst.modifs.get(E['mmx']):
            continue
        args = inst.args or []
        if len(args) < 2 or not isinstance(args[0], Term):
            continue
        dst = base_id(args[0])
        if dst.kind != 'Id' or not dst.name.startswith(('xmm', 'mm')):
            continue
        src_is_reg = isinstance(args[1], Term) and base_id(args[1]).kind == 'Id'
        verdict = sse_merges(inst.rowname, tuple(inst.prefix or ()), src_is_reg)
        if same_register_constant(inst):
            verdict = False
            n_same[0] += 1
        elif inst.form.startswith('reg,rm=same'):
            n_same[1] += 1
        for dec, tmpl in inst.results:
            if isinstance(tmpl, LiftError) or not isinstance(tmpl, list):
                continue
            rid, rmem, wid, wmem = rw_sets(tmpl)
            n += 1
            iid = 'sse-dst:' + inst.key()
            if dst.name in rid:
                R.ok(iid, nontrivial=(n % 9 == 0), sample='%s: the destination %s is among the reads' % (inst.key(), dst.name))
            elif verdict is True:
                R.violation(iid, 'sse-merge:%s:%s' % (inst.rowname, 'scalar' if any(p in (0xF3, 0xF2) for p in inst.prefix or ()) else 'packed'),
                            '%s (lifted by %s): the processor keeps part of the old value of %s, the lifted semantics do not read it (reads: %s)'
                            % (inst.key(), inst.func.name, dst.name, ', '.join(sorted(rid)) or 'none'), where(sem, inst.func.node), witness='f3 0f 10 c1 (movss xmm0, xmm1)')
            elif verdict is False:
                R.ok(iid, sample='%s %s' % (inst.key(), ('gives one constant whatever %s holds' if same_register_constant(inst) else 'overwrites %s entirely') % dst.name))
            else:
                R.note('%s does not read its destination %s: no verdict from the merge table' % (inst.key(), dst.name))
    if not n:
        raise AnalysisError('no MMX/SSE form with a register destination among the lifter forms')
    if n_same[0] < 20 or n_same[1] < 100:
        raise AnalysisError('forms naming one MMX/SSE register twice: %d dependency-breaking idioms, %d others among the lifter forms (expected at least 20 / 100)' % tuple(n_same))
    R.note('%d forms name one register twice and are dependency-breaking idioms (pxor, psub*, pcmpgt*, pcmpeq*, pandn, xorps, andnps: need not read it); %d others must read it'
           % tuple(n_same))


POPPING_ARITH = ('faddp', 'fsubp', 'fsubrp', 'fmulp', 'fdivp', 'fdivrp')


def rep_count_rule(ctx, R):
    """emul_full_expr repeats a string instruction under F2/F3; the count register decides whether anything happens and is decremented, so the lifted
    list of such an instruction has to assign ecx from ecx.  Evaluated from the source of emul_helper:
    (1) the predicate by which get_instr_expr_args adds the count (and by which emul_full_expr selects its loop), on prefix x mnemonic: both F2 and F3
        repeat every string instruction (ins outs movs lods stos cmps scas, b/w/d), nothing else is repeated;
    (2) the statements under that predicate, on the four operand/address-size combinations with ecx = 0x10000: the count is ecx, or cx when the ADDRESS
        size is 16 bits (the operand size does not matter), and one iteration takes 1 from it."""
    from ..core import norm
    from ..consteval import Evaluator, Obj, Native, NotConst, PyRaise
    from ..x86table import model as x86model
    afs = x86model(ctx).afs
    eh = ctx.mod('emul_helper')
    lift = eh.func('get_instr_expr_args')
    emu = eh.func('emul_full_expr')

    def mk_l(prefix, name, opmode=None, admode=None):
        l = Obj('l')
        l.prefix = list(prefix)
        m = Obj('m')
        m.name = name
        l.m = m
        l.opmode = opmode or afs.u32
        l.admode = admode or afs.u32
        l.mnemo_mode = afs.u32
        return l

    def scope():
        sc = {'x86_afs': afs}
        for st in eh.tree.body:
            if isinstance(st, ast.Assign) and len(st.targets) == 1 and isinstance(st.targets[0], ast.Name) and isinstance(st.value, (ast.List, ast.Tuple)):
                try:
                    sc[st.targets[0].id] = Evaluator({}).ev(st.value)
                except NotConst:
                    pass
        for fname_, fnode_ in eh.funcs.items():
            sc.setdefault(fname_, fnode_)
        return sc

    def rep_if(fn):
        """the if-statement of fn whose test (through the functions it calls) reads the F2/F3 prefix"""
        for n in walk_no_nested(fn):
            if isinstance(n, ast.If):
                txt = u(n.test)
                for c in ast.walk(n.test):
                    if isinstance(c, ast.Call) and isinstance(c.func, ast.Name) and c.func.id in eh.funcs:
                        txt += ' ; ' + ' ; '.join(u(x) for x in eh.funcs[c.func.id].body)
                if '.prefix' in txt and ('243' in txt or '0xf3' in txt.lower()):
                    return n
        return None
    lt, et = rep_if(lift), rep_if(emu)
    if et is None:
        raise AnalysisError('emul_full_expr no longer selects the repeat loop by the F2/F3 prefix')
    inst = 'get_instr_expr_args: count of a repeated string instruction'
    if lt is None:
        R.violation(inst, 'rep-count:missing', 'get_instr_expr_args lifts a rep-prefixed string instruction as one unprefixed iteration: ecx, which decides whether anything happens and is '
                    'decremented, is neither read nor written by the lifted list (emul_full_expr loops on it)', where(eh, lift),
                    witness="get_instr_expr(dis(f3 a4)) = [@8[edi] = @8[esi], edi = .., esi = ..]: no ecx")
        return
    # (1) the two predicates, evaluated
    STEMS = ('ins', 'outs', 'movs', 'lods', 'stos', 'cmps', 'scas')
    cases = [((pfx,), stem + sfx, True) for pfx in (0xF2, 0xF3) for stem in STEMS for sfx in 'bwd']
    cases += [((), stem + 'b', False) for stem in STEMS] + [((0xF3,), nm, False) for nm in ('mov', 'add', 'nop', 'pause', 'ret', 'lodsq_', 'movsx', 'movzx')]
    cases += [((0xF2,), nm, False) for nm in ('mov#ups#', 'cmp#ps#', '#MMX#movs')] + [((0x66, 0xF3), 'movsw', True), ((0x67, 0xF2), 'stosb', True)]
    for who, node, negated in (('get_instr_expr_args', lt, False), ('emul_full_expr', et, isinstance(et.test, ast.UnaryOp) and isinstance(et.test.op, ast.Not))):
        bad = []
        for prefix, name, want in cases:
            try:
                got = bool(Evaluator(scope()).ev(node.test, {'l': mk_l(prefix, name)}))
            except PyRaise as e:
                bad.append('%s %s: raises %s' % (list(map(hex, prefix)), name, e.exc_name))
                continue
            except NotConst as e:
                raise AnalysisError('the repeat predicate of %s is outside the evaluable subset: %s' % (who, e))
            if negated:
                got = not got
            if got != want:
                bad.append('%s %s %s' % (' '.join('%02x' % b for b in prefix) or 'no prefix', name, 'is not repeated' if want else 'is repeated'))
        inst1 = '%s: which instructions are repeated' % who
        if bad:
            R.violation(inst1, 'rep-count:predicate:%s' % who, '%s: %s (F2 and F3 both repeat every string instruction; the count register is read and decremented)'
                        % (who, '; '.join(bad[:4]) + (' .. %d in all' % len(bad) if len(bad) > 4 else '')), where(eh, node),
                        witness="f2 a4 (repnz movsb) copies ecx bytes on the processor")
        else:
            R.ok(inst1, sample='%s: predicate evaluated on %d prefix x mnemonic pairs' % (who, len(cases)))
    # (2) the count, evaluated
    class T(object):
        def __init__(self, kind, *a):
            self.kind, self.a = kind, a

        def __getitem__(self, sl):
            return T('slice', self, sl.start or 0, sl.stop)

        def __sub__(self, o):
            return T('sub', self, o)

        def __add__(self, o):
            return T('add', self, o)

    def val(t, ecx0):
        """(value, width)"""
        if t.kind == 'reg':
            return ecx0, 32
        if t.kind == 'int':
            return t.a[0] & ((1 << t.a[1]) - 1), t.a[1]
        if t.kind == 'slice':
            v, w = val(t.a[0], ecx0)
            return (v >> t.a[1]) & ((1 << (t.a[2] - t.a[1])) - 1), t.a[2] - t.a[1]
        if t.kind in ('sub', 'add'):
            (a, wa), (b, wb) = val(t.a[0], ecx0), val(t.a[1], ecx0)
            if wa != wb:
                raise AnalysisError('rep count: operands of different widths')
            return ((a - b) if t.kind == 'sub' else (a + b)) & ((1 << wa) - 1), wa
        if t.kind == 'neg':
            v, w = val(t.a[0], ecx0)
            return (-v) & ((1 << w) - 1), w
        if t.kind == 'compose':
            out = 0
            for piece, lo, hi in t.a[0]:
                v, w = val(piece, ecx0)
                out |= (v & ((1 << (hi - lo)) - 1)) << lo
            return out, max(hi for _, _, hi in t.a[0])
        raise AnalysisError('rep count: unmodelled term %s' % t.kind)
    ecx_t = T('reg')

    def exprop(op, *args):
        if op == '+':
            return T('add', *args)
        if op == '-' and len(args) == 2:
            return T('sub', *args)
        if op == '-':
            return T('neg', *args)
        raise NotConst('operator %s' % op)
    ECX0 = 0x10000
    for opm, adm in ((afs.u32, afs.u32), (afs.u16, afs.u32), (afs.u32, afs.u16), (afs.u16, afs.u16)):
        sc = scope()
        sc.update({'ecx': ecx_t, 'ExprInt': Native(lambda v: T('int', v[0], v[1])), 'uint16': Native(lambda v: (v, 16)), 'uint32': Native(lambda v: (v, 32)),
                   'ExprInt32': Native(lambda v: T('int', v, 32)), 'ExprInt16': Native(lambda v: T('int', v, 16)),
                   'ExprCompose': Native(lambda l_: T('compose', l_)), 'ExprOp': Native(exprop), 'ExprAff': Native(lambda d, s_: ('aff', d, s_))})
        loc = {'l': mk_l((0xF3,), 'movsb', opm, adm), 'e': []}
        try:
            Evaluator(sc).exec_stmts(lt.body, loc)
        except NotConst as e:
            raise AnalysisError('the count statements of get_instr_expr_args are outside the evaluable subset: %s' % e)
        affs = [x for x in loc['e'] if isinstance(x, tuple) and x[0] == 'aff' and x[1] is ecx_t]
        inst2 = 'count register: operand size %s, address size %s' % (opm, adm)
        if len(affs) != 1:
            R.violation(inst2, 'rep-count:not-assigned', 'under the prefix test get_instr_expr_args appends %d assignments of ecx' % len(affs), where(eh, lt))
            continue
        got, _ = val(affs[0][2], ECX0)
        want = 0xFFFF if adm == afs.u32 else 0x1FFFF
        if got != want:
            R.violation(inst2, 'rep-count:value:%s:%s' % (opm, adm), 'one iteration of a repeated string instruction with operand size %s, address size %s and ecx = %#x leaves ecx = %#x; '
                        'IA-32: %#x (the count is %s: the address size selects it, the operand size does not)' % (opm, adm, ECX0, got, want, 'cx' if adm == afs.u16 else 'ecx'), where(eh, lt),
                        witness='66 f3 a5 (rep movsw) with ecx = 0x10000: 0xffff iterations remain')
        else:
            R.ok(inst2, sample='%s: ecx = %#x -> %#x' % (inst2, ECX0, got))

def _derived_cell(mems, m):
    """A cell whose address is computed from the operand's address (bit-string instructions address base + offset)."""
    from ..lifter import walk_terms
    for c in mems:
        if any(x == m.arg for x in walk_terms(c.arg)):
            return True
    return False


def _width(t):
    from ..lifter import get_size, SizeError
    try:
        return get_size(t)
    except SizeError:
        return None


MUTANTS = [
    ('operands-kept-per-instruction', 'miasmx/tools/emul_helper.py', "    for x in l.arg:\n        args.append(dict_to_Expr(x, l.m.modifs, l.opmode, l.admode, segm_to_do))\n    l.arg_expr = args\n",
     "    if getattr(l, 'arg_expr', None) is None:\n        l.arg_expr = [dict_to_Expr(x, l.m.modifs, l.opmode, l.admode, segm_to_do) for x in l.arg]\n    args.extend(l.arg_expr)\n", 'C08.D9'),
    ('lds-selector-offset', 'miasmx/arch/ia32_sem.py', "    e.append(ExprAff(ds, ExprMem(ExprOp('+', b.arg,\n                                        ExprInt_from(b.arg, a.get_size()//8)),", "    e.append(ExprAff(ds, ExprMem(ExprOp('+', b.arg,\n                                        ExprInt_from(b.arg, 2)),", 'C08.D4'),
    ('xmm7-fencepost', 'miasmx/arch/ia32_sem.py', "            if 0 <= n-x86_afs.reg_xmm_base < 8:\n                t = ia32_rexpr.reg_xmm", "            if 0 <= n-x86_afs.reg_xmm_base < 7:\n                t = ia32_rexpr.reg_xmm", 'C08.D3'),
    ('cmovb-zf', 'miasmx/arch/ia32_sem.py', "    e.append(ExprAff(a, ExprCond( cf , b, a)))", "    e.append(ExprAff(a, ExprCond( zf , b, a)))", 'C08.D1'),
    ('stos-noedi', 'miasmx/arch/ia32_sem.py', "def stos(info, a):\n    e = []\n    off = a.get_size()/8\n    e.append(ExprAff(a, eax[0:a.get_size()]))\n    e.append(ExprAff(a.arg, ExprCond(df,\n                                     ExprOp('-', a.arg, ExprInt_from(a.arg, off)),\n                                     ExprOp('+', a.arg, ExprInt_from(a.arg, off)))))\n",
     "def stos(info, a):\n    e = []\n    off = a.get_size()/8\n    e.append(ExprAff(a, eax[0:a.get_size()]))\n", 'C08.D1'),
    ('adc-nocf', 'miasmx/arch/ia32_sem.py', "def adc(info, a, b):\n    e= []\n    c = ExprOp('+',\n               a,\n               ExprOp('+',\n                      b,\n                      ExprCompose([(ExprInt32(0), 1, a.get_size()),\n                                   (cf, 0, 1)])))",
     "def adc(info, a, b):\n    e= []\n    c = ExprOp('+',\n               a,\n               b)", 'C08.D1'),
    ('movs-nodf', 'miasmx/arch/ia32_sem.py', "    e.append(ExprAff(b.arg, ExprCond(df,\n                                     ExprOp('-', b.arg, ExprInt_from(b.arg, off)),\n                                     ExprOp('+', b.arg, ExprInt_from(b.arg, off)))))\n\n    return e",
     "    e.append(ExprAff(b.arg, ExprOp('+', b.arg, ExprInt_from(b.arg, off))))\n    e[1] = ExprAff(a.arg, ExprOp('+', a.arg, ExprInt_from(a.arg, off)))\n\n    return e", 'C08.D1'),
    ('xchg-half', 'miasmx/arch/ia32_sem.py', "    return [ExprAff(a, va), ExprAff(b, vb)]\n\ndef xchg", "    return [ExprAff(a, va)]\n\ndef xchg", 'C08.D1'),
    ('comis-nozf', 'miasmx/arch/ia32_sem.py', "    e.append(ExprAff(zf, ExprOp('MMX', a, b)))\n    e.append(ExprAff(cf, ExprOp('MMX', a, b)))", "    e.append(ExprAff(cf, ExprOp('MMX', a, b)))", 'C08.D2'),
    ('push-noesp', 'miasmx/arch/ia32_sem.py', "    c = ExprOp('-', esp, ExprInt32(s/8))\n    e.append(ExprAff(esp, c))\n    e.append(ExprAff(ExprMem(c, a.get_size()), a))", "    c = ExprOp('-', esp, ExprInt32(s/8))\n    e.append(ExprAff(ExprMem(c, a.get_size()), a))", 'C08.D1'),
    ('lods-noeax', 'miasmx/arch/ia32_sem.py', "    e.append(ExprAff(eax[0:a.get_size()], a))\n", "    e.append(ExprAff(edx[0:a.get_size()], a))\n", 'C08.D1'),
    ('rep-count-dropped', 'miasmx/tools/emul_helper.py', "        e.append(ExprAff(ecx, count))\n", "        pass\n", 'C08.D7'),
    ('rep-count-fewer-mnemonics', 'miasmx/tools/emul_helper.py', "    if is_rep_string(l):\n        # one iteration", "    if 0xF3 in l.prefix and l.m.name[:-1] in ['movs', 'stos']:\n        # one iteration", 'C08.D7'),
    ('fcomip-no-pop', 'miasmx/arch/ia32_sem.py', "    e.append(ExprAff(cf, ExprCond(cond, ExprInt_from(zf, 0), ExprInt_from(zf, 1))))\n    e += float_pop()\n", "    e.append(ExprAff(cf, ExprCond(cond, ExprInt_from(zf, 0), ExprInt_from(zf, 1))))\n", 'C08.D2'),
    ('fmulp-result-in-st0', 'miasmx/arch/ia32_sem.py', "    e.append(ExprAff(float_prev(dst), ExprOp('fmul', a, src)))\n    e += set_float_cs_eip(info)\n    e += float_pop(dst)", "    e.append(ExprAff(float_prev(a), ExprOp('fmul', a, src)))\n    e += set_float_cs_eip(info)\n    e += float_pop(a)", 'C08.D2'),
    ('fsincos-no-stackptr', 'miasmx/arch/ia32_sem.py', "    e.append(ExprAff(float_st1, ExprOp('sin', float_st0)))\n    e.append(ExprAff(float_stack_ptr, ExprOp('+', float_stack_ptr, ExprInt32(1))))\n", "    e.append(ExprAff(float_st1, ExprOp('sin', float_st0)))\n", 'C08.D2'),
    ('far-call-selector-dropped', 'miasmx/tools/emul_helper.py', "        e = mnemo_func[l.m.name](l, my_eip, *args)", "        e = mnemo_func[l.m.name](l, my_eip, args[0])", 'C08.D1'),
    ('far-call-cs-not-pushed', 'miasmx/arch/ia32_sem.py', "        e.append(ExprAff(ExprMem(c_cs, size=s), old_cs))\n", "", 'C08.D1'),
    ('cmpxchg8b-no-edx', 'miasmx/arch/ia32_sem.py', "    e.append(ExprAff(edx, ExprCond(cond, m[32:64], edx)))\n", "", 'C08.D1'),
    ('rep-count-by-opmode', 'miasmx/tools/emul_helper.py', "        if l.admode == x86_afs.u16:\n            count = ExprCompose", "        if l.opmode == x86_afs.u16:\n            count = ExprCompose", 'C08.D7'),
    ('rep-movsx-again', 'miasmx/tools/emul_helper.py', " and \\\n           l.m.name[-1] in \"bwd\"\n", "\n", 'C08.D7'),
]
