"""C05 -- simplifier preserves meaning: the two operand-discipline clauses that
are visible in the shape of the code (fold operand order / operator identity,
neutral-element vs unwrap consistency)."""
import ast

from ..core import AnalysisError, where, norm
from ..consteval import Evaluator, NotConst
from ..shapes import u
from ..srcmodel import walk_no_nested, parent

PYOP = {'+': ast.Add, '*': ast.Mult, '^': ast.BitXor, '&': ast.BitAnd, '|': ast.BitOr, '>>': ast.RShift, '<<': ast.LShift,
        '-': ast.Sub, '%': ast.Mod}
COMMUTATIVE = {'+', '*', '^', '&', '|'}
# operators for which a literal 0 as LAST operand is neutral (right-neutral is enough: only args[-1] is tested)
RIGHT_NEUTRAL_ZERO = {'+', '-', '|', '^', '<<', '>>', '<<<', '>>>', 'a>>', 'a<<'}


def find_simplifier(hlp):
    for name, f in hlp.funcs.items():
        for n in ast.walk(f):
            if isinstance(n, ast.While) and 'isinstance(args[-1], ExprInt)' in u(n.test) and 'args[-2]' in u(n.test):
                return f, n
    raise AnalysisError('constant-folding loop of the simplifier not found')


def merge_rule(ctx, R3):
    """Bit positions in merge_sliceto_slice (shared with C07: a read overlapping several stores is assembled by expr_simp(ExprCompose(pieces)))."""
    hlp = ctx.mod('expr_helper')
    from ..linarith import lin, lin_add, show
    ms = hlp.funcs.get('merge_sliceto_slice')
    if ms is None:
        raise AnalysisError('expression_helper.merge_sliceto_slice not found')
    LOW = 'sorted_s[-1][1]'

    def atoms(e):
        """linear form with the lower neighbour sorted_s[-1][1] written as low"""
        t = u(e).replace(LOW, 'low')
        return lin(ast.parse(t, mode='eval').body)
    # masking of constant pieces to their width
    masks = [n for n in ast.walk(ms) if isinstance(n, ast.BinOp) and isinstance(n.op, ast.BitAnd) and isinstance(n.right, ast.BinOp) and isinstance(n.right.op, ast.Sub)
             and isinstance(n.right.left, ast.BinOp) and isinstance(n.right.left.op, ast.LShift)]
    if not masks:
        R3.violation('const-mask', 'merge:const-mask:none', 'constant pieces are no longer masked to their width before merging', where(hlp, ms))
    for n in masks:
        width = lin(n.right.left.right)
        if width == {'x[2]': 1, 'x[1]': -1} and u(n.right.left.left) == '1' and u(n.right.right) == '1':
            R3.ok('const-mask', sample='constant piece masked with (1 << (stop - start)) - 1')
        else:
            R3.violation('const-mask', 'merge:const-mask:%s' % show(width), 'a constant piece is masked to %s bits instead of stop - start' % show(width), where(hlp, n))
    inner = [n for n in ast.walk(ms) if isinstance(n, ast.While) and u(n.test) == 'sorted_s' and not any(isinstance(x, ast.While) for s2 in n.body for x in ast.walk(s2))]
    if len(inner) != 2:
        raise AnalysisError('merge_sliceto_slice: expected the two inner merge loops, found %d' % len(inner))
    for k, loop in enumerate(inner):
        which = 'constants' if any('uint64' in u(s2) for s2 in loop.body) else 'slices'
        # invariant start == out[1] is established before the loop: start, v = pop(); out = [.., v[1], v[2]] with entries (x[1], x)
        guards = [g for g in loop.body if isinstance(g, ast.If) and len(g.body) == 1 and isinstance(g.body[0], ast.Break)]
        gtxt = [u(g.test) for g in guards]
        inst = 'merge[%s]' % which
        if '%s[2] != start' % LOW in gtxt:
            R3.ok(inst + ':adjacent', sample='%s pieces merge only when low.stop == start' % which)
        else:
            R3.violation(inst + ':adjacent', 'merge:%s:adjacency' % which, 'the %s merge loop no longer requires the lower piece to end where the current one starts (guards: %s)'
                         % (which, gtxt), where(hlp, loop))
        env = {'start': {'out[1]': 1}}            # loop invariant
        eq_low2 = {'out[1]': 1}                   # after the guard: low[2] == start == out[1]
        seen_shift = seen_restore = False
        for st in loop.body:
            if isinstance(st, ast.Assign) and u(st.targets[0]) == 'start':
                env['start'] = atoms(st.value)
                if env['start'] != {'low[1]': 1}:
                    R3.violation(inst + ':start', 'merge:%s:start:%s' % (which, u(st.value)), 'after merging, the piece must start at the lower piece\'s start; found start = %s' % u(st.value),
                                 where(hlp, st))
                else:
                    R3.ok(inst + ':start', sample='start = low.start')
            for n in ast.walk(st):
                if which == 'constants' and isinstance(n, ast.BinOp) and isinstance(n.op, ast.LShift) and 'out[0].arg' in u(n.left):
                    seen_shift = True
                    amt = atoms(n.right)
                    # substitute start and the adjacency equality low[2] == out[1]
                    if 'start' in amt:
                        c = amt.pop('start')
                        amt = lin_add(amt, env['start'], c)
                    if 'out[1]' in amt:
                        c = amt.pop('out[1]')
                        amt = lin_add(amt, {'low[2]': 1}, c)
                    want = {'low[2]': 1, 'low[1]': -1}
                    par = parent(n)
                    while par is not None and not isinstance(par, ast.BinOp):
                        par = parent(par)
                    addend_ok = par is not None and isinstance(par.op, (ast.Add, ast.BitOr)) and '%s[0].arg' % LOW in u(par.right if par.left is n or n in list(ast.walk(par.left)) else par.left)
                    if amt == want and addend_ok:
                        R3.ok(inst + ':shift', sample='high part shifted by the width of the lower piece (low.stop - low.start), lower constant added')
                    elif amt != want:
                        R3.violation(inst + ':shift', 'merge:constants:shift:%s' % u(n.right), 'the accumulated high constant is shifted by %s (= %s), not by the width of the lower piece low.stop - low.start'
                                     % (u(n.right), show(amt)), where(hlp, n), witness='Compose(0x11@0:8, 0x22@8:16, 0x33@16:24) folds to a different constant')
                    else:
                        R3.violation(inst + ':shift', 'merge:constants:addend', 'the lower constant is no longer added below the shifted high part', where(hlp, n))
            if isinstance(st, ast.Assign) and u(st.targets[0]) == 'out[1]':
                seen_restore = u(st.value) == 'start'
            if which == 'slices' and isinstance(st, ast.Assign) and u(st.targets[0]) == 'out[0].start':
                if u(st.value) == '%s[0].start' % LOW and '%s[0].stop != out[0].start' % LOW in gtxt:
                    R3.ok(inst + ':source-bits', sample='slices of one source merge only when low.slice.stop == cur.slice.start; merged slice starts at low.slice.start')
                else:
                    R3.violation(inst + ':source-bits', 'merge:slices:source-bits', 'merged slice start is %s under guards %s: source bits are no longer contiguous' % (u(st.value), gtxt), where(hlp, st))
        if which == 'constants':
            if not seen_shift:
                R3.violation(inst + ':shift', 'merge:constants:shift:none', 'constant merge no longer shifts the high part', where(hlp, loop))
            if seen_restore:
                R3.ok(inst + ':invariant', sample='out[1] = start restores the invariant start == out.start')
            else:
                R3.violation(inst + ':invariant', 'merge:constants:invariant', 'the merged constant piece does not record its new start (out[1] = start)', where(hlp, loop))



def run(ctx, report):
    hlp = ctx.mod('expr_helper')
    fn, loop = find_simplifier(hlp)
    fold_loop = loop
    env = {}
    try:
        OP_ASSOC = env['op_assoc'] = Evaluator({}).ev(hlp.assign_value('op_assoc'))
    except (NotConst, AnalysisError) as e:
        raise AnalysisError('expression_helper.op_assoc not evaluable: %s' % e)
    # every module-level list / tuple of operator tokens (op_assoc, and whatever other named lists the guards use)
    for st_ in hlp.tree.body:
        if isinstance(st_, ast.Assign) and len(st_.targets) == 1 and isinstance(st_.targets[0], ast.Name) and isinstance(st_.value, (ast.List, ast.Tuple, ast.BinOp)):
            try:
                env.setdefault(st_.targets[0].id, Evaluator(dict(env)).ev(st_.value))
            except NotConst:
                pass
    ev = Evaluator(env)
    report.explanation = (
        'D1: in the constant-folding loop of the simplifier an abstract interpretation of list positions (args = [.., x_{n-2}, x_{n-1}], '
        'pop() yields the last) identifies which local holds the LEFT (earlier) and RIGHT (later) operand; every branch `op == S` must '
        'apply the Python operator that S names, and for non-commutative S as LEFT.arg OP RIGHT.arg. D2: every operator for which the '
        '"trailing literal 0 is dropped" rule can fire has 0 as a right-neutral element and, when a single operand remains, is unwrapped to '
        'that operand (operator-set inclusion between the two guards, located by meaning). D3: in merge_sliceto_slice the bit-position arithmetic is checked as linear forms: constant pieces are masked to stop - start bits, pieces merge only when adjacent (low.stop == start), the accumulated high constant is shifted by exactly the width of the lower piece (under the loop invariant start == out.start and the adjacency equality), slices of one source merge only when their source bits are contiguous. D4: the side condition of each recognised rewrite ((A & m) >> s -> 0 needs m < 2**s strictly; rotation by the operand size; (A|c)==0; int==int; conditional on a constant; identity slice) and the re-basing arithmetic of slice-of-slice / slice-of-concatenation / slice-of-constant / slice-of-memory, as linear forms.')
    report.not_decided = ('soundness of the side condition of each rewrite for all constants and widths (e.g. 2**shift >= mask), termination of the fixpoint loop `while e_new != e` -- these quantify over values.')

    R1 = report.rule('C05.D1', 'constant folding applies the named operator with operands in expression order', floor=7)
    fold_eval_rule(ctx, R1, hlp, fn, loop)

    R2 = report.rule('C05.D2', 'zero-drop rule is consistent with neutral elements and with the single-operand unwrap', floor=4)
    drop_ops = unwrap_ops = None
    drop_node = unwrap_node = None
    for n in walk_no_nested(fn):
        if not isinstance(n, ast.If):
            continue
        tests = n.test.values if isinstance(n.test, ast.BoolOp) and isinstance(n.test.op, ast.And) else [n.test]
        oplist = None
        lencond = None
        for t in tests:
            if isinstance(t, ast.Compare) and u(t.left) == 'op' and isinstance(t.ops[0], ast.In):
                try:
                    oplist = set(ev.ev(t.comparators[0]))
                except NotConst:
                    oplist = None
            if isinstance(t, ast.Compare) and u(t.left) == 'len(args)':
                lencond = (type(t.ops[0]).__name__, u(t.comparators[0]))
        if oplist is None or lencond is None:
            continue
        body = ' ; '.join(u(s) for s in n.body)
        if lencond == ('Gt', '1') and 'args[-1].arg == 0' in body and 'args.pop()' in body:
            drop_ops, drop_node = oplist, n
        if lencond == ('Eq', '1') and body.strip() == 'return args[0]':
            unwrap_ops, unwrap_node = oplist, n
    if drop_ops is None or unwrap_ops is None:
        raise AnalysisError('zero-drop or unwrap guard of the simplifier not found')
    for op in sorted(drop_ops):
        inst = 'zero-drop[%s]' % op
        if op not in RIGHT_NEUTRAL_ZERO:
            R2.violation(inst, '%s:zero-drop:%s:neutral' % (fn.name, op), '0 is not a right-neutral element of %r but a trailing 0 is dropped' % op,
                         where(hlp, drop_node))
        elif op not in unwrap_ops:
            R2.violation(inst, '%s:zero-drop:%s:unwrap' % (fn.name, op),
                         'a trailing 0 of %r is dropped but a single remaining operand of %r is not unwrapped: x %s 0 becomes (%s x)' % (op, op, op, op),
                         where(hlp, drop_node), witness='expr_simp(ExprOp("-", x, ExprInt32(0))) == -x')
        else:
            R2.ok(inst, sample='%s: 0 right-neutral and single operand unwrapped' % inst)
    # unwrap must not cover operators with a unary meaning
    UNARY_MEANING = {'-', '!', 'parity'}
    bad = unwrap_ops & UNARY_MEANING
    if bad:
        R2.violation('unwrap', '%s:unwrap:%s' % (fn.name, sorted(bad)), 'single-operand unwrap covers unary operators %s (would turn -x into x)' % sorted(bad),
                     where(hlp, unwrap_node))
    else:
        R2.ok('unwrap', sample='unwrap list %s has no unary operator' % sorted(unwrap_ops))
    report.analysed['fold_branches'] = 'evaluated'

    # ---------------------------------------------------------------- D3 bit positions in merge_sliceto_slice
    R3 = report.rule('C05.D3', 'merging adjacent pieces of a Compose keeps every piece at its bit position', floor=7)
    merge_rule(ctx, R3)

    # ---------------------------------------------------------------- D4 side conditions and bit arithmetic of the rewrites
    R4 = report.rule('C05.D4', 'rewrite rules fire only under their algebraic side condition and re-base slices exactly', floor=9)
    from ..linarith import lin as _lin, show as _show

    def ifs_where(pred):
        return [n for n in walk_no_nested(fn) if isinstance(n, ast.If) and pred(u(n.test))]
    # (A & mask) >> shift == 0  iff  mask < 2**shift
    hits = ifs_where(lambda t: "op == '>>'" in t and "args[0].op == '&'" in t)
    if not hits:
        R4.ok('mask-shift:absent', nontrivial=False)
    for n in hits:
        inner = [x for x in ast.walk(n) if isinstance(x, ast.Compare) and any(isinstance(y, ast.BinOp) and isinstance(y.op, ast.Pow) for y in ast.walk(x))]
        if not inner:
            raise AnalysisError('mask/shift rewrite: side condition not found')
        c = inner[0]
        pow_left = any(isinstance(y, ast.BinOp) and isinstance(y.op, ast.Pow) for y in ast.walk(c.left))
        strict = (pow_left and isinstance(c.ops[0], ast.Gt)) or (not pow_left and isinstance(c.ops[0], ast.Lt))
        if strict:
            R4.ok('mask-shift', sample='((A & mask) >> s) -> 0 only if mask < 2**s: %s' % u(c))
        else:
            R4.violation('mask-shift', 'rewrite:mask-shift:%s' % type(c.ops[0]).__name__, '((A & mask) >> shift) is rewritten to 0 under `%s`: for mask == 2**shift the bit A[shift] survives, '
                         'so the condition must be strict' % u(c), where(hlp, c), witness='expr_simp((A & 0x80000000) >> 31) == 0')
    # (constant shifts by a count >= the width: decided by the evaluated folding step, C05.D1 fold[<<]:bound)
    for n in hits:
        if 'args[1].arg >= args[0].get_size()' in u(n) :
            R4.ok('mask-shift-bound', sample='(A & m) >> s: s >= width is decided without computing 2**s')
        else:
            R4.violation('mask-shift-bound', 'rewrite:mask-shift:unbounded', 'the side condition of ((A & mask) >> shift) evaluates 2**shift for any constant shift', where(hlp, n),
                         witness='expr_simp((a & 1) >> 0x80000000) takes seconds and gigabytes')
    # A <<< size(A) -> A : identified by its action (the If that returns the rotated operand unchanged)
    def returns_operand(n):
        return any(isinstance(x, ast.Return) and x.value is not None and u(x.value) == 'args[0]' for x in n.body)
    for n in ifs_where(lambda t: "op in ['<<<', '>>>']" in t):
        if not returns_operand(n):
            continue
        if 'args[1].arg == args[0].get_size()' in u(n.test):
            R4.ok('rot-by-size', sample='A <<< size(A) -> A')
        else:
            R4.violation('rot-by-size', 'rewrite:rot-by-size', 'rotation identity fires under %s, expected count == operand size' % u(n.test), where(hlp, n))
    # (A <<< X) <<< Y -> A <<< (X+Y): the two counts are added, so they must have the same width
    for n in ifs_where(lambda t: "op in ['<<<', '>>>']" in t):
        sums = [x for st in n.body for x in ast.walk(st) if isinstance(x, ast.BinOp) and isinstance(x.op, (ast.Add, ast.Sub))
                and u(x.left) == 'args[0].args[1]' and u(x.right) == 'args[1]']
        if not sums:
            continue
        t = u(n.test).replace(' ', '')
        if 'args[0].args[1].get_size()==args[1].get_size()' in t or 'args[1].get_size()==args[0].args[1].get_size()' in t:
            R4.ok('rot-merge-width', sample='(A <<< X) <<< Y merged only when X and Y have the same width')
        else:
            R4.violation('rot-merge-width', 'rewrite:rot-merge:width', 'nested rotations are merged by adding their counts (%s) without requiring the counts to have the same width'
                         % u(sums[0]), where(hlp, n), witness="expr_simp(ExprOp('>>>', ExprOp('>>>', s, ecx & 0x1f), ExprInt8(3))) builds a 32-bit + 8-bit sum")
    # constant folding: equal widths are demanded of the operands of the associative operators only (a shift count may be narrower)
    diff = [n for n in walk_no_nested(fold_loop) if isinstance(n, ast.If) and 'i1.get_size() != i2.get_size()' in u(n.test) and any(isinstance(x, ast.Raise) for x in n.body)]
    for n in diff:
        from ..consteval import Evaluator as _Ev, NotConst as _NC, Obj as _Obj, Native as _Nat
        verdict = {}
        for opv in ('+', '>>', '<<'):
            i1, i2 = _Obj('i1'), _Obj('i2')
            i1.get_size = _Nat(lambda: 32)
            i2.get_size = _Nat(lambda: 8)
            try:
                verdict[opv] = bool(_Ev({'op': opv, 'op_assoc': list(OP_ASSOC), 'i1': i1, 'i2': i2}).ev(n.test))
            except _NC as e:
                raise AnalysisError('fold loop width test not evaluable: %s' % e)
        if verdict['+'] and not verdict['>>'] and not verdict['<<']:
            R4.ok('shift-fold-mixed', sample='int OP int: equal widths demanded for associative operators, not for shift counts')
        else:
            R4.violation('shift-fold-mixed', 'rewrite:shift-fold:width', 'constant folding raises "diff size" under `%s` (raises for +: %s, >>: %s, <<: %s): a constant shift by a narrower count '
                         '(the lifter\'s imm8 / cl counts) cannot be folded' % (u(n.test), verdict['+'], verdict['>>'], verdict['<<']), where(hlp, n),
                         witness="expr_simp(ExprOp('>>', ExprInt32(0x100), ExprInt8(4))) raises ValueError")
    # (A | c) == 0 -> 0 needs c != 0
    for n in ifs_where(lambda t: "op == '=='" in t and 'args[1].arg == 0' in t):
        inner = [x for x in ast.walk(n) if isinstance(x, ast.If) and "args[0].op == '|'" in u(x.test)]
        for x in inner:
            if 'args[0].args[1].arg != 0' in u(x.test):
                R4.ok('or-eq-zero', sample='(A | c) == 0 -> 0 only for c != 0')
            else:
                R4.violation('or-eq-zero', 'rewrite:or-eq-zero', '(A | c) == 0 is rewritten to 0 without requiring c != 0', where(hlp, x), witness='expr_simp((A | 0) == 0) == 0')
    # int == int
    for n in ifs_where(lambda t: "op == '=='" in t and 'isinstance(args[0], ExprInt)' in t and 'isinstance(args[1], ExprInt)' in t):
        inner = [x for x in n.body if isinstance(x, ast.If)]
        good = False
        for x in inner:
            if u(x.test).replace(' ', '') == 'args[0].arg==args[1].arg' and x.orelse:
                t1, t0 = u(x.body[0]), u(x.orelse[0])
                good = t1.endswith('(1))') and t0.endswith('(0))')
        if good:
            R4.ok('int-eq-int', sample='int == int -> 1 when equal else 0')
        else:
            R4.violation('int-eq-int', 'rewrite:int-eq-int', 'folding of int == int no longer yields 1 for equal operands and 0 otherwise', where(hlp, n))
    # slice rules live in the ExprSlice branch
    sl_ifs = [n for n in walk_no_nested(fn) if isinstance(n, ast.If) and u(n.test) == 'isinstance(e, ExprSlice)']
    if not sl_ifs:
        raise AnalysisError('simplifier: ExprSlice branch not found')
    chain = []
    node = sl_ifs[0].body[0] if sl_ifs[0].body and isinstance(sl_ifs[0].body[0], ast.If) else None
    # the slice branch is an if/elif chain; first statement may be a comment-less If
    for st in sl_ifs[0].body:
        if isinstance(st, ast.If):
            node = st
            break
    while node is not None:
        chain.append(node)
        node = node.orelse[0] if len(node.orelse) == 1 and isinstance(node.orelse[0], ast.If) else None
    by = dict((u(n.test), n) for n in chain)
    full = [t for t in by if 'e.start == 0' in t and 'e.stop == e.arg.get_size()' in t]
    if full:
        R4.ok('slice-full', sample='A[0:size(A)] -> A under start == 0 and stop == size')
    else:
        R4.violation('slice-full', 'rewrite:slice-full', 'the identity slice rule no longer requires start == 0 and stop == size(A): %s' % list(by)[:2], where(hlp, sl_ifs[0]))
    for t, n in by.items():
        if t == 'isinstance(e.arg, ExprSlice)':
            news = [c for c in ast.walk(n) if isinstance(c, ast.Call) and u(c.func) == 'ExprSlice' and len(c.args) == 3]
            if not news:
                raise AnalysisError('slice-of-slice rewrite: new slice not found')
            c = news[0]
            st_, sp_ = _lin(c.args[1]), _lin(c.args[2])
            want_st = {'e.start': 1, 'e.arg.start': 1}
            want_sp = {'e.stop': 1, 'e.arg.start': 1}
            if u(c.args[0]) == 'e.arg.arg' and st_ == want_st and sp_ == want_sp:
                R4.ok('slice-of-slice', sample='A[a:b][c:d] -> A[a+c : a+d]')
            else:
                R4.violation('slice-of-slice', 'rewrite:slice-of-slice:%s:%s' % (_show(st_), _show(sp_)), 'A[a:b][c:d] is rewritten to %s[%s : %s]; expected A[a+c : a+d]'
                             % (u(c.args[0]), _show(st_), _show(sp_)), where(hlp, c), witness='expr_simp(eax[8:32][8:16]) must be eax[16:24]')
        if t == 'isinstance(e.arg, ExprCompose)':
            tests = [x for x in ast.walk(n) if isinstance(x, ast.If) and 'a[1]' in u(x.test)]
            good = False
            for x in tests:
                tt = u(x.test).replace(' ', '')
                sub = [c for c in ast.walk(x) if isinstance(c, ast.Subscript) and u(c.value) == 'a[0]' and isinstance(c.slice, ast.Slice)]
                if tt in ('a[1]<=e.startanda[2]>=e.stop',) and sub and _lin(sub[0].slice.lower) == {'e.start': 1, 'a[1]': -1} and _lin(sub[0].slice.upper) == {'e.stop': 1, 'a[1]': -1}:
                    good = True
            if good:
                R4.ok('slice-of-compose', sample='Compose(..)[s:t] -> piece[s-p : t-p] when the piece [p:q) contains [s:t)')
            else:
                R4.violation('slice-of-compose', 'rewrite:slice-of-compose', 'slice of a concatenation is not re-based as piece[start-p : stop-p] under p <= start and q >= stop', where(hlp, n),
                             witness='expr_simp(Compose(a@0:16, b@16:32)[16:24]) must be b[0:8]')
        if t == 'isinstance(e.arg, ExprInt)':
            txt = u(n).replace(' ', '')
            if '(1<<e.stop-e.start)-1' in txt and '>>e.start' in txt:
                R4.ok('slice-of-int', sample='int[s:t] -> (int >> s) & ((1 << (t-s)) - 1)')
            else:
                R4.violation('slice-of-int', 'rewrite:slice-of-int', 'slice of a constant is not (value >> start) & ((1 << (stop-start)) - 1)', where(hlp, n))
        if 'isinstance(e.arg, ExprMem)' in t:
            mems = [c for c in ast.walk(n) if isinstance(c, ast.Call) and u(c.func) == 'ExprMem']
            keeps_seg = any(any(k.arg == 'segm' and u(k.value) == 'e.arg.segm' for k in c.keywords) or (len(c.args) >= 3 and u(c.args[2]) == 'e.arg.segm') for c in mems)
            if not keeps_seg:
                R4.violation('slice-of-mem:segment', 'rewrite:slice-of-mem:segm', 'narrowing a memory read by a slice rebuilds the ExprMem without the segment selector of the original', where(hlp, n),
                             witness='expr_simp(es:@32[a][0:8]) == @8[a]')
            else:
                R4.ok('slice-of-mem:segment', sample='@n[a][0:k] keeps the segment selector')
            if 'e.start == 0' in t and 'e.arg.size > e.stop' in t and 'e.stop % 8 == 0' in t:
                R4.ok('slice-of-mem', sample='@n[a][0:k] -> @k[a] only for start == 0, k < n, k a multiple of 8 (little endian)')
            else:
                R4.violation('slice-of-mem', 'rewrite:slice-of-mem', 'narrowing a memory read by a slice requires start == 0, stop < size and stop a multiple of 8; found %s' % t, where(hlp, n),
                             witness='@32[a][8:16] is not @8[a]')
    # conditional on a constant
    cd = [n for n in walk_no_nested(fn) if isinstance(n, ast.If) and u(n.test) == 'isinstance(e.cond, ExprInt)']
    for n in cd:
        inner = [x for x in n.body if isinstance(x, ast.If)]
        good = any(u(x.test).replace(' ', '') == 'e.cond.arg==0' and 'src2' in u(x.body[0]) and x.orelse and 'src1' in u(x.orelse[0]) for x in inner)
        if good:
            R4.ok('cond-const', sample='(c ? A : B) -> B when c == 0 else A')
        else:
            R4.violation('cond-const', 'rewrite:cond-const', 'a conditional on a constant no longer selects src2 for 0 and src1 otherwise', where(hlp, n))

    # ---------------------------------------------------------------- D5 size-table lookups are guarded
    R5 = report.rule('C05.D5', 'the simplifier indexes the width->integer-type table only with widths that have an integer type', floor=8)
    size_table_rule(R5, hlp, [fn, hlp.func('merge_sliceto_slice')])

    # ---------------------------------------------------------------- D6 the equality the rewrites rely on is exact
    R6 = report.rule('C05.D6', 'A ^ A, A + (-A), A | A, A & A and the fixpoint test compare with an exact structural equality', floor=8)
    from .c15 import eq_rule
    eq_rule(ctx, R6)

    # ---------------------------------------------------------------- D7 the parity fold is the parity of the low byte
    R7 = report.rule('C05.D7', 'the constant fold of parity gives the x86 parity flag (low byte) at every width, as the evaluator does', floor=1)
    from .c06 import parity_rule
    ea_ = ctx.mod('eval_abs')
    parity_rule(R7, ea_, ctx.mod('expr_helper'), ea_.methods('eval_abs'))

    # ---------------------------------------------------------------- D8 the copies the simplifier edits are real copies
    R8 = report.rule('C05.D8', 'copy() of every node class builds a new node from copied fields: merge_sliceto_slice edits the start/stop of a copy, which must not be the caller\'s node', floor=8)
    from .c15 import copy_visit_rule
    copy_visit_rule(ctx, R8, only='copy')

    R9 = report.rule('C05.D9', 'the simplifier never modifies the expression it is given (shared with C13.D4)', floor=3)
    from .c13 import input_untouched_rule
    input_untouched_rule(ctx, R9)


def fold_eval_rule(ctx, R1, hlp, fn, loop):
    """The statement that folds two trailing constants (the guard `if op in ..:` around the loop, or the loop itself) is executed from the source on
    model constants for every operator token and compared with the operator's meaning on 32-bit and 8-bit values: the left operand is the earlier one,
    shifts are logical, a count of at least the width gives 0, the result has the operands' width.  Whether the operators are spelled as an if/elif chain
    or looked up in a table does not matter."""
    from ..consteval import Obj, Native, PyRaise
    stmt = getattr(loop, '_parent', None)
    if not isinstance(stmt, ast.If):
        stmt = loop

    class MInt(Obj):
        def __init__(self, typed):
            Obj.__init__(self, 'ExprInt')
            size, val = typed if isinstance(typed, tuple) else (32, typed)
            self.arg = val
            self.size = size
            self.get_size = Native(lambda: size)
    scope = {'ExprInt': MInt, 'ExprOp': type('MOp', (Obj,), {}), 'tab_size_int': dict((w, Native(lambda v, w=w: (w, int(v) & ((1 << w) - 1)))) for w in (1, 8, 16, 32, 64))}
    op_mod = Obj('operator')
    for nm_, f_ in (('add', lambda a, b: a + b), ('sub', lambda a, b: a - b), ('mul', lambda a, b: a * b), ('xor', lambda a, b: a ^ b), ('and_', lambda a, b: a & b),
                    ('or_', lambda a, b: a | b), ('rshift', lambda a, b: a >> b), ('lshift', lambda a, b: a << b)):
        setattr(op_mod, nm_, Native(f_))
    scope['operator'] = op_mod
    for st_ in hlp.tree.body:
        if isinstance(st_, ast.Assign) and len(st_.targets) == 1 and isinstance(st_.targets[0], ast.Name) and st_.targets[0].id not in scope:
            try:
                scope[st_.targets[0].id] = Evaluator(scope).ev(st_.value)
            except (NotConst, PyRaise):
                pass
    for fname_, fnode_ in hlp.funcs.items():
        scope.setdefault(fname_, fnode_)
    REF = {'+': lambda a, b, w: (a + b) % (1 << w), '*': lambda a, b, w: (a * b) % (1 << w), '^': lambda a, b, w: a ^ b, '&': lambda a, b, w: a & b, '|': lambda a, b, w: a | b,
           '>>': lambda a, b, w: (a >> b) if b < w else 0, '<<': lambda a, b, w: ((a << b) % (1 << w)) if b < w else 0}
    VEC = {32: [(8, 1), (1, 4), (0xFFFFFFFF, 1), (5, 3), (0x80000000, 31), (3, 40), (0x12345678, 0x0F0F0F0F)], 8: [(0x81, 1), (0xFF, 0xFF), (3, 9), (0x10, 4)]}
    n_folded = 0
    for op in ('+', '*', '^', '&', '|', '>>', '<<', '-', 'a>>', '<<<', '>>>', 'parity', '==', '/', '%'):
        inst = 'fold[%s]' % op
        problems = []
        folded_any = False
        for w, vecs in VEC.items():
            for a, b in vecs:
                loc = {'op': op, 'args': [MInt((w, a)), MInt((w, b))], 'e': Obj('e')}
                try:
                    Evaluator(scope).exec_stmts([stmt], loc)
                except PyRaise as e:
                    problems.append('raises %s on %#x %s %#x' % (e.exc_name, a, op, b))
                    continue
                except NotConst as e:
                    if str(e).startswith('name '):
                        problems.append('%r enters the folding step, which then uses a value it never computed (%s)' % (op, e))
                        folded_any = True
                        break
                    raise AnalysisError('the constant-folding statement of %s is outside the evaluable subset for %r: %s' % (fn.name, op, e))
                out = loc['args']
                if len(out) == 2:
                    continue                    # not folded here
                folded_any = True
                if op not in REF:
                    problems.append('%r is folded although it is no binary integer operator of the folding step' % op)
                    break
                if len(out) != 1 or not isinstance(out[0], MInt):
                    problems.append('%#x %s %#x leaves %d operands' % (a, op, b, len(out)))
                    continue
                got, gw = out[0].arg, out[0].size
                want = REF[op](a, b, w)
                if gw != w:
                    problems.append('%#x %s %#x (%d bits) folds to a constant of %d bits' % (a, op, b, w, gw))
                elif got != want:
                    problems.append('%#x %s %#x on %d bits folds to %#x, the operator gives %#x' % (a, op, b, w, got, want))
        if op == '<<' and not problems:
            # the count is bounded before Python shifts: a tracked integer records the largest count it is shifted by
            seen_counts = []

            class Tracked(int):
                def __lshift__(self, other):
                    seen_counts.append(int(other))
                    return Tracked(int(self) << min(int(other), 4096))
            big = MInt((32, 1))
            big.arg = Tracked(1)
            loc = {'op': op, 'args': [big, MInt((32, 100000))], 'e': Obj('e')}
            scope_t = dict(scope)
            op_t = Obj('operator')
            for nm_ in ('add', 'sub', 'mul', 'xor', 'and_', 'or_', 'rshift'):
                setattr(op_t, nm_, getattr(op_mod, nm_))
            op_t.lshift = Native(lambda a, b: a << b)
            scope_t['operator'] = op_t
            for st_ in hlp.tree.body:
                if isinstance(st_, ast.Assign) and len(st_.targets) == 1 and isinstance(st_.targets[0], ast.Name) and isinstance(st_.value, ast.Dict) and 'operator.' in u(st_.value):
                    scope_t[st_.targets[0].id] = Evaluator(scope_t).ev(st_.value)
            try:
                Evaluator(scope_t).exec_stmts([stmt], loc)
            except (NotConst, PyRaise) as e:
                raise AnalysisError('the folding step is outside the evaluable subset on a large shift count: %s' % e)
            if any(c >= 32 for c in seen_counts):
                R1.violation('fold[<<]:bound', '%s:fold:<<:unbounded' % fn.name, 'constant folding of << computes value << count for any count (count = %d seen): the intermediate integer '
                             'has as many bits as the count says' % max(seen_counts), where(hlp, stmt), witness='expr_simp(ExprOp("<<", ExprInt64(1), ExprInt64(1 << 63))) raises MemoryError')
            else:
                R1.ok('fold[<<]:bound', sample='a count of at least the width folds to 0 before Python shifts')
        if op in REF and not folded_any:
            R1.violation(inst, '%s:fold:%s:not-folded' % (fn.name, op), 'two constants under %r are not folded' % op, where(hlp, stmt))
        elif problems:
            R1.violation(inst, '%s:fold:%s' % (fn.name, op), 'constant folding of %r: %s' % (op, '; '.join(problems[:3])), where(hlp, stmt),
                         witness='expr_simp(ExprInt32(8) >> ExprInt32(1))' if op == '>>' else None)
        elif op in REF:
            n_folded += 1
            R1.ok(inst, sample='%s: folded as the operator defines it on %d operand pairs (32 and 8 bits)' % (inst, sum(len(v) for v in VEC.values())))
        else:
            R1.ok(inst, nontrivial=False)


def size_table_rule(R, hlp, fns):
    """Every `tab_size_int[K]` of the simplifier: K must be the width of something known to be a constant (dominating isinstance(.., ExprInt) on the
    value or on an operand of it), or be dominated by a membership test `K in tab_size_int` (directly, or through a name bound to that test), or range over
    the table's own keys.  A bare expression width (slices have any width 1..64) raises KeyError."""
    TABLE = 'tab_size_int'
    for f in fns:
        # names bound to a membership test
        member_names = {}
        for n in walk_no_nested(f):
            if isinstance(n, ast.Assign) and len(n.targets) == 1 and isinstance(n.targets[0], ast.Name) and isinstance(n.value, ast.Compare) \
                    and len(n.value.ops) == 1 and isinstance(n.value.ops[0], ast.In) and u(n.value.comparators[0]) == TABLE:
                member_names[n.targets[0].id] = u(n.value.left)
        popped = set()
        for n in walk_no_nested(f):
            if isinstance(n, ast.Assign) and isinstance(n.value, ast.Call) and u(n.value.func).endswith('.pop') and isinstance(n.targets[0], ast.Name):
                w = parent(n)
                while w is not None and not isinstance(w, ast.While):
                    w = parent(w)
                if w is not None and 'isinstance(args[-1], ExprInt)' in u(w.test) and 'isinstance(args[-2], ExprInt)' in u(w.test):
                    popped.add(n.targets[0].id)
        for n in walk_no_nested(f):
            if not (isinstance(n, ast.Subscript) and isinstance(n.value, ast.Name) and n.value.id == TABLE and isinstance(n.ctx, ast.Load)):
                continue
            k = n.slice
            ktxt = u(k)
            inst = '%s:%s[%s]' % (f.name, TABLE, ktxt)
            # dominating tests: tests of enclosing If (node in body) and While
            tests = []
            c, p_ = n, parent(n)
            while p_ is not None and p_ is not f:
                if isinstance(p_, ast.If) and any(c is st for st in p_.body):
                    tests.append(u(p_.test))
                if isinstance(p_, ast.While) and any(c is st for st in p_.body):
                    tests.append(u(p_.test))
                c, p_ = p_, parent(p_)
            dom = ' and '.join(tests)
            why = None
            if ('%s in %s' % (ktxt, TABLE)) in dom:
                why = 'dominated by the membership test'
            elif any(nm in [x.id for t in tests for x in ast.walk(ast.parse(t, mode='eval')) if isinstance(x, ast.Name)] and member_names[nm] == ktxt for nm in member_names):
                why = 'dominated by a name bound to the membership test'
            elif isinstance(k, ast.Call) and u(k.func) in ('min', 'max') and TABLE in ktxt and any(isinstance(x, ast.comprehension) and u(x.iter) == TABLE for x in ast.walk(k)):
                why = 'ranges over the keys of the table'
            elif isinstance(k, ast.Call) and isinstance(k.func, ast.Attribute) and k.func.attr == 'get_size' and not k.args:
                v = u(k.func.value)
                if v in popped:
                    why = '%s is a constant popped under isinstance(.., ExprInt)' % v
                elif 'isinstance(%s, ExprInt)' % v in dom:
                    why = '%s is a constant' % v
                elif ('isinstance(%s.args[' % v) in dom and ', ExprInt)' in dom:
                    why = 'an operand of %s is a constant (operands of one operator have the same width)' % v
            if why:
                R.ok(inst, sample='%s: %s' % (inst, why))
            else:
                R.violation(inst, 'size-table:%s:%s' % (f.name, ktxt), '%s is indexed with %s, the width of an arbitrary expression: KeyError for widths without an integer type '
                            '(slices of 4, 24, 31.. bits)' % (TABLE, ktxt), where(hlp, n), witness="expr_simp(x[0:4] ^ x[0:4]) raises KeyError(4)")


MUTANTS = [
    ('cancel-odd-width', 'miasmx/expression/expression_helper.py', "                if op == '^' and can_zero and args[i] == args[j]:", "                if op == '^' and args[i] == args[j]:", 'C05.D5'),
    ('merge-type-unguarded', 'miasmx/expression/expression_helper.py', "        out_type = tab_size_int.get(max_size)\n        if out_type is None:", "        out_type = tab_size_int[max_size]\n        if out_type is None:", 'C05.D5'),
    ('fold-shift-width', 'miasmx/expression/expression_helper.py', "                if op in op_assoc and i1.get_size() != i2.get_size():", "                if i1.get_size() != i2.get_size():", 'C05.D4'),
    ('slice-mem-noseg', 'miasmx/expression/expression_helper.py', "e = ExprMem(e.arg.arg, size = e.stop, segm = e.arg.segm)", "e = ExprMem(e.arg.arg, size = e.stop)", 'C05.D4'),
    ('shift-fold-unbounded', 'miasmx/expression/expression_helper.py', "                elif op in ['>>', '<<'] and i2.arg >= i1.get_size():\n                    # every bit is shifted out (do not build the huge\n                    # intermediate integer)\n                    o = 0\n", "", 'C05.D1'),
    ('mask-shift-nonstrict', 'miasmx/expression/expression_helper.py', "2**args[1].arg > args[0].args[1].arg", "2**args[1].arg >= args[0].args[1].arg", 'C05.D4'),
    ('slice-slice-base', 'miasmx/expression/expression_helper.py', "new_e = ExprSlice(e.arg.arg, e.start + e.arg.start, e.start + e.arg.start + (e.stop - e.start))", "new_e = ExprSlice(e.arg.arg, e.start + e.arg.start, e.arg.start + (e.stop - e.start))", 'C05.D4'),
    ('slice-compose-rebase', 'miasmx/expression/expression_helper.py', "new_e = a[0][e.start-a[1]:e.stop-a[1]]", "new_e = a[0][e.start:e.stop-a[1]]", 'C05.D4'),
    ('cond-const-polarity', 'miasmx/expression/expression_helper.py', "            if e.cond.arg == 0:\n                e = e.src2\n            else:\n                e = e.src1", "            if e.cond.arg == 0:\n                e = e.src1\n            else:\n                e = e.src2", 'C05.D4'),
    ('slice-mem-any-start', 'miasmx/expression/expression_helper.py', "isinstance(e.arg, ExprMem) and e.start == 0 and e.arg.size > e.stop", "isinstance(e.arg, ExprMem) and e.arg.size > e.stop", 'C05.D4'),
    ('merge-shift-own-width', 'miasmx/expression/expression_helper.py', '(int(out[0].arg) << (out[1] - start ))', '(int(out[0].arg) << (out[2] - out[1]))', 'C05.D3'),
    ('merge-no-adjacency', 'miasmx/expression/expression_helper.py', '                if sorted_s[-1][1][0].stop != out[0].start:\n                    break\n', '', 'C05.D3'),
    ('merge-mask-width', 'miasmx/expression/expression_helper.py', 'v = x[0].arg & ((1<<(x[2]-x[1]))-1)', 'v = x[0].arg & ((1<<(x[2]))-1)', 'C05.D3'),
    ('fold-swap', 'miasmx/expression/expression_helper.py', "o = i1.arg >> i2.arg", "o = i2.arg >> i1.arg", 'C05.D1'),
    ('fold-lshift-swap', 'miasmx/expression/expression_helper.py', "o = i1.arg << i2.arg", "o = i2.arg << i1.arg", 'C05.D1'),
    ('fold-xor-or', 'miasmx/expression/expression_helper.py', "o = i1.arg ^ i2.arg", "o = i1.arg | i2.arg", 'C05.D1'),
    ('zero-drop-and', 'miasmx/expression/expression_helper.py', "if op in ['+', '|', \"^\", \"<<\", \">>\", \"<<<\", \">>>\"] and len(args) > 1:",
     "if op in ['+', '|', \"^\", '&', \"<<\", \">>\", \"<<<\", \">>>\"] and len(args) > 1:", 'C05.D2'),
    ('zero-drop-minus', 'miasmx/expression/expression_helper.py', "if op in ['+', '|', \"^\", \"<<\", \">>\", \"<<<\", \">>>\"] and len(args) > 1:",
     "if op in ['+', '-', '|', \"^\", \"<<\", \">>\", \"<<<\", \">>>\"] and len(args) > 1:", 'C05.D2'),
    ('unwrap-minus', 'miasmx/expression/expression_helper.py', "if op in op_assoc + ['>>', '<<', '<<<', '>>>'] and len(args) == 1 :",
     "if op in op_assoc + ['-', '>>', '<<', '<<<', '>>>'] and len(args) == 1 :", 'C05.D2'),
    ('fold-guard-extra', 'miasmx/expression/expression_helper.py', "if op in op_assoc + ['>>', '<<']:", "if op in op_assoc + ['>>', '<<', 'a>>']:", 'C05.D1'),
    ('slice-copy-removed', 'miasmx/expression/expression.py', "    def copy(self):\n        return ExprSlice(self.arg.copy(), self.start, self.stop)\n", "", 'C05.D8'),
]
