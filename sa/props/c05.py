"""C05 -- simplifier preserves meaning: the two operand-discipline clauses that
are visible in the shape of the code (fold operand order / operator identity,
neutral-element vs unwrap consistency)."""
import ast

from ..core import AnalysisError, where, norm
from ..consteval import Evaluator, NotConst
from ..shapes import u
from ..srcmodel import walk_no_nested, parent

PYOP = {'+': ast.Add, '*': ast.Mult, '^': ast.BitXor, '&': ast.BitAnd, '|': ast.BitOr, '>>': ast.RShift, '<<': ast.LShift,
        '-': ast.Sub, '%': ast.Mod}
COMMUTATIVE = {'+', '*', '^', '&', '|'}
# operators for which a literal 0 as LAST operand is neutral (right-neutral is enough: only args[-1] is tested)
RIGHT_NEUTRAL_ZERO = {'+', '-', '|', '^', '<<', '>>', '<<<', '>>>', 'a>>', 'a<<'}


def find_simplifier(hlp):
    for name, f in hlp.funcs.items():
        for n in ast.walk(f):
            if isinstance(n, ast.While) and 'isinstance(args[-1], ExprInt)' in u(n.test) and 'args[-2]' in u(n.test):
                return f, n
    raise AnalysisError('constant-folding loop of the simplifier not found')


def run(ctx, report):
    hlp = ctx.mod('expr_helper')
    fn, loop = find_simplifier(hlp)
    fold_loop = loop
    env = {}
    try:
        OP_ASSOC = env['op_assoc'] = Evaluator({}).ev(hlp.assign_value('op_assoc'))
    except (NotConst, AnalysisError) as e:
        raise AnalysisError('expression_helper.op_assoc not evaluable: %s' % e)
    # every module-level list / tuple of operator tokens (op_assoc, and whatever other named lists the guards use)
    for st_ in hlp.tree.body:
        if isinstance(st_, ast.Assign) and len(st_.targets) == 1 and isinstance(st_.targets[0], ast.Name) and isinstance(st_.value, (ast.List, ast.Tuple, ast.BinOp)):
            try:
                env.setdefault(st_.targets[0].id, Evaluator(dict(env)).ev(st_.value))
            except NotConst:
                pass
    ev = Evaluator(env)
    report.explanation = (
        'D1: in the constant-folding loop of the simplifier an abstract interpretation of list positions (args = [.., x_{n-2}, x_{n-1}], '
        'pop() yields the last) identifies which local holds the LEFT (earlier) and RIGHT (later) operand; every branch `op == S` must '
        'apply the Python operator that S names, and for non-commutative S as LEFT.arg OP RIGHT.arg. D2: every operator for which the '
        '"trailing literal 0 is dropped" rule can fire has 0 as a right-neutral element and, when a single operand remains, is unwrapped to '
        'that operand (operator-set inclusion between the two guards, located by meaning). D3: in merge_sliceto_slice the bit-position arithmetic is checked as linear forms: constant pieces are masked to stop - start bits, pieces merge only when adjacent (low.stop == start), the accumulated high constant is shifted by exactly the width of the lower piece (under the loop invariant start == out.start and the adjacency equality), slices of one source merge only when their source bits are contiguous. D4: the side condition of each recognised rewrite ((A & m) >> s -> 0 needs m < 2**s strictly; rotation by the operand size; (A|c)==0; int==int; conditional on a constant; identity slice) and the re-basing arithmetic of slice-of-slice / slice-of-concatenation / slice-of-constant / slice-of-memory, as linear forms.')
    report.not_decided = ('soundness of each rewrite for ALL constants, widths and nestings: decided on the finite family only (boundary constants around every power of two the rules compare with, byte-grid slice boundaries, arities 1-4); termination beyond the family.')

    R1 = report.rule('C05.D1', 'constant folding applies the named operator with operands in expression order', floor=7)
    fold_eval_rule(ctx, R1, hlp, fn, loop)

    from .. import simpeval
    KINDS = ('value', 'width', 'ill-typed', 'result')
    R2 = report.rule('C05.D2', 'associative operators, negation and shifts: every rewriting step (zero drop, unwrap, flattening, cancellation, constant folding, A-B, -(A+B)) keeps width and value '
                     '(the simplifier evaluated from its source on the operator x arity x constant-position family)', floor=12)
    simpeval.emit(R2, ctx, lambda l: l.startswith(('assoc:', 'neg', 'shift:', 'shift-const:', 'const')), KINDS)
    report.analysed['fold_branches'] = 'evaluated'

    R3 = report.rule('C05.D3', 'merging adjacent pieces of a concatenation keeps every piece at its bit position (merge_sliceto_slice evaluated on constant / slice / mixed pieces, '
                     'adjacent or not, in any order)', floor=2)
    simpeval.emit(R3, ctx, lambda l: l == 'compose', KINDS)

    R4 = report.rule('C05.D4', 'rewrite rules fire only under their algebraic side condition and re-base slices exactly ((A & m) >> s, rotations, ==, parity, slice of '
                     'constant / slice / concatenation / memory, conditional on a constant, nested forms: evaluated on boundary constants and byte-grid boundaries)', floor=12)
    simpeval.emit(R4, ctx, lambda l: l.startswith(('mask-shift', 'rot', 'eq', 'parity', 'slice:', 'cond', 'nested', 'width-twins')) , KINDS,
                  key_map={('rot-merge-mixed', 'ill-typed'): 'rewrite:rot-merge:width'})

    R5 = report.rule('C05.D5', 'the simplifier returns on every well-typed member of the family: no KeyError from the width->integer-type table (odd slice widths, 24-bit '
                     'concatenations), no other internal error', floor=20)
    simpeval.emit(R5, ctx, lambda l: True, ('raises',))

    R10 = report.rule('C05.D10', 'the rewriting of every member of the family terminates (fixpoint loop and recursion bounded by the evaluator)', floor=20)
    simpeval.emit(R10, ctx, lambda l: True, ('loops',))

    # ---------------------------------------------------------------- D6 the equality the rewrites rely on is exact
    R6 = report.rule('C05.D6', 'A ^ A, A + (-A), A | A, A & A and the fixpoint test compare with an exact structural equality', floor=8)
    from .c15 import eq_rule
    eq_rule(ctx, R6)

    # ---------------------------------------------------------------- D7 the parity fold is the parity of the low byte
    R7 = report.rule('C05.D7', 'the constant fold of parity gives the x86 parity flag (low byte) at every width, as the evaluator does', floor=1)
    from .c06 import parity_rule
    ea_ = ctx.mod('eval_abs')
    parity_rule(R7, ea_, ctx.mod('expr_helper'), ea_.methods('eval_abs'))

    # ---------------------------------------------------------------- D8 the copies the simplifier edits are real copies
    R8 = report.rule('C05.D8', 'copy() of every node class builds a new node from copied fields: merge_sliceto_slice edits the start/stop of a copy, which must not be the caller\'s node', floor=8)
    from .c15 import copy_visit_rule
    copy_visit_rule(ctx, R8, only='copy')

    from .. import exprobj
    R11 = report.rule('C05.D11', 'the traversal the simplifier rides on: visit() of every node class, evaluated from the source, reaches every sub-expression (a rewrite of a segment selector, '
                      'a slot or a condition is not dropped) -- shared with C15.D7', floor=40)
    exprobj.emit_law(R11, ctx, 'visit-id')
    exprobj.emit_law(R11, ctx, 'visit-rename')
    R12 = report.rule('C05.D12', 'the simplifier run on the node classes as written (expression.py and expression_helper.py interpreted together: their own == decides the fixpoint): every '
                      'family member that holds a signed constant, and every sixth member, keeps width and value', floor=40)
    exprobj.emit_simp_on_source(R12, ctx)
    R9 = report.rule('C05.D9', 'the simplifier never modifies the expression it is given (shared with C13.D4)', floor=3)
    from .c13 import input_untouched_rule
    input_untouched_rule(ctx, R9)


def fold_eval_rule(ctx, R1, hlp, fn, loop):
    """The statement that folds two trailing constants (the guard `if op in ..:` around the loop, or the loop itself) is executed from the source on
    model constants for every operator token and compared with the operator's meaning on 32-bit and 8-bit values: the left operand is the earlier one,
    shifts are logical, a count of at least the width gives 0, the result has the operands' width.  Whether the operators are spelled as an if/elif chain
    or looked up in a table does not matter."""
    from ..consteval import Obj, Native, PyRaise
    stmt = getattr(loop, '_parent', None)
    if not isinstance(stmt, ast.If):
        stmt = loop

    class MInt(Obj):
        def __init__(self, typed):
            Obj.__init__(self, 'ExprInt')
            size, val = typed if isinstance(typed, tuple) else (32, typed)
            self.arg = val
            self.size = size
            self.get_size = Native(lambda: size)
    scope = {'ExprInt': MInt, 'ExprOp': type('MOp', (Obj,), {}), 'tab_size_int': dict((w, Native(lambda v, w=w: (w, int(v) & ((1 << w) - 1)))) for w in (1, 8, 16, 32, 64))}
    op_mod = Obj('operator')
    for nm_, f_ in (('add', lambda a, b: a + b), ('sub', lambda a, b: a - b), ('mul', lambda a, b: a * b), ('xor', lambda a, b: a ^ b), ('and_', lambda a, b: a & b),
                    ('or_', lambda a, b: a | b), ('rshift', lambda a, b: a >> b), ('lshift', lambda a, b: a << b)):
        setattr(op_mod, nm_, Native(f_))
    scope['operator'] = op_mod
    for st_ in hlp.tree.body:
        if isinstance(st_, ast.Assign) and len(st_.targets) == 1 and isinstance(st_.targets[0], ast.Name) and st_.targets[0].id not in scope:
            try:
                scope[st_.targets[0].id] = Evaluator(scope).ev(st_.value)
            except (NotConst, PyRaise):
                pass
    for fname_, fnode_ in hlp.funcs.items():
        scope.setdefault(fname_, fnode_)
    REF = {'+': lambda a, b, w: (a + b) % (1 << w), '*': lambda a, b, w: (a * b) % (1 << w), '^': lambda a, b, w: a ^ b, '&': lambda a, b, w: a & b, '|': lambda a, b, w: a | b,
           '>>': lambda a, b, w: (a >> b) if b < w else 0, '<<': lambda a, b, w: ((a << b) % (1 << w)) if b < w else 0}
    VEC = {32: [(8, 1), (1, 4), (0xFFFFFFFF, 1), (5, 3), (0x80000000, 31), (3, 40), (0x12345678, 0x0F0F0F0F)], 8: [(0x81, 1), (0xFF, 0xFF), (3, 9), (0x10, 4)]}
    n_folded = 0
    for op in ('+', '*', '^', '&', '|', '>>', '<<', '-', 'a>>', '<<<', '>>>', 'parity', '==', '/', '%'):
        inst = 'fold[%s]' % op
        problems = []
        folded_any = False
        for w, vecs in VEC.items():
            for a, b in vecs:
                loc = {'op': op, 'args': [MInt((w, a)), MInt((w, b))], 'e': Obj('e')}
                try:
                    Evaluator(scope).exec_stmts([stmt], loc)
                except PyRaise as e:
                    problems.append('raises %s on %#x %s %#x' % (e.exc_name, a, op, b))
                    continue
                except NotConst as e:
                    if str(e).startswith('name '):
                        problems.append('%r enters the folding step, which then uses a value it never computed (%s)' % (op, e))
                        folded_any = True
                        break
                    raise AnalysisError('the constant-folding statement of %s is outside the evaluable subset for %r: %s' % (fn.name, op, e))
                out = loc['args']
                if len(out) == 2:
                    continue                    # not folded here
                folded_any = True
                if op not in REF:
                    problems.append('%r is folded although it is no binary integer operator of the folding step' % op)
                    break
                if len(out) != 1 or not isinstance(out[0], MInt):
                    problems.append('%#x %s %#x leaves %d operands' % (a, op, b, len(out)))
                    continue
                got, gw = out[0].arg, out[0].size
                want = REF[op](a, b, w)
                if gw != w:
                    problems.append('%#x %s %#x (%d bits) folds to a constant of %d bits' % (a, op, b, w, gw))
                elif got != want:
                    problems.append('%#x %s %#x on %d bits folds to %#x, the operator gives %#x' % (a, op, b, w, got, want))
        if op == '<<' and not problems:
            # the count is bounded before Python shifts: a tracked integer records the largest count it is shifted by
            seen_counts = []

            class Tracked(int):
                def __lshift__(self, other):
                    seen_counts.append(int(other))
                    return Tracked(int(self) << min(int(other), 4096))
            big = MInt((32, 1))
            big.arg = Tracked(1)
            loc = {'op': op, 'args': [big, MInt((32, 100000))], 'e': Obj('e')}
            scope_t = dict(scope)
            op_t = Obj('operator')
            for nm_ in ('add', 'sub', 'mul', 'xor', 'and_', 'or_', 'rshift'):
                setattr(op_t, nm_, getattr(op_mod, nm_))
            op_t.lshift = Native(lambda a, b: a << b)
            scope_t['operator'] = op_t
            for st_ in hlp.tree.body:
                if isinstance(st_, ast.Assign) and len(st_.targets) == 1 and isinstance(st_.targets[0], ast.Name) and isinstance(st_.value, ast.Dict) and 'operator.' in u(st_.value):
                    scope_t[st_.targets[0].id] = Evaluator(scope_t).ev(st_.value)
            try:
                Evaluator(scope_t).exec_stmts([stmt], loc)
            except (NotConst, PyRaise) as e:
                raise AnalysisError('the folding step is outside the evaluable subset on a large shift count: %s' % e)
            if any(c >= 32 for c in seen_counts):
                R1.violation('fold[<<]:bound', '%s:fold:<<:unbounded' % fn.name, 'constant folding of << computes value << count for any count (count = %d seen): the intermediate integer '
                             'has as many bits as the count says' % max(seen_counts), where(hlp, stmt), witness='expr_simp(ExprOp("<<", ExprInt64(1), ExprInt64(1 << 63))) raises MemoryError')
            else:
                R1.ok('fold[<<]:bound', sample='a count of at least the width folds to 0 before Python shifts')
        if op in REF and not folded_any:
            R1.violation(inst, '%s:fold:%s:not-folded' % (fn.name, op), 'two constants under %r are not folded' % op, where(hlp, stmt))
        elif problems:
            R1.violation(inst, '%s:fold:%s' % (fn.name, op), 'constant folding of %r: %s' % (op, '; '.join(problems[:3])), where(hlp, stmt),
                         witness='expr_simp(ExprInt32(8) >> ExprInt32(1))' if op == '>>' else None)
        elif op in REF:
            n_folded += 1
            R1.ok(inst, sample='%s: folded as the operator defines it on %d operand pairs (32 and 8 bits)' % (inst, sum(len(v) for v in VEC.values())))
        else:
            R1.ok(inst, nontrivial=False)


MUTANTS = [
    ('cancel-odd-width', 'miasmx/expression/expression_helper.py', "                if op == '^' and can_zero and args[i] == args[j]:", "                if op == '^' and args[i] == args[j]:", 'C05.D5'),
    ('merge-type-unguarded', 'miasmx/expression/expression_helper.py', "        out_type = tab_size_int.get(max_size)\n        if out_type is None:", "        out_type = tab_size_int[max_size]\n        if out_type is None:", 'C05.D5'),
    ('fold-shift-width', 'miasmx/expression/expression_helper.py', "                if op in op_assoc and i1.get_size() != i2.get_size():", "                if i1.get_size() != i2.get_size():", 'C05.D5'),
    ('slice-mem-noseg', 'miasmx/expression/expression_helper.py', "e = ExprMem(e.arg.arg, size = e.stop, segm = e.arg.segm)", "e = ExprMem(e.arg.arg, size = e.stop)", 'C05.D4'),
    ('shift-fold-unbounded', 'miasmx/expression/expression_helper.py', "                elif op in ['>>', '<<'] and i2.arg >= i1.get_size():\n                    # every bit is shifted out (do not build the huge\n                    # intermediate integer)\n                    o = 0\n", "", 'C05.D1'),
    ('mask-shift-nonstrict', 'miasmx/expression/expression_helper.py', "2**args[1].arg > args[0].args[1].arg", "2**args[1].arg >= args[0].args[1].arg", 'C05.D4'),
    ('slice-slice-base', 'miasmx/expression/expression_helper.py', "new_e = ExprSlice(e.arg.arg, e.start + e.arg.start, e.start + e.arg.start + (e.stop - e.start))", "new_e = ExprSlice(e.arg.arg, e.start + e.arg.start, e.arg.start + (e.stop - e.start))", 'C05.D4'),
    ('slice-compose-rebase', 'miasmx/expression/expression_helper.py', "new_e = a[0][e.start-a[1]:e.stop-a[1]]", "new_e = a[0][e.start:e.stop-a[1]]", 'C05.D4'),
    ('cond-const-polarity', 'miasmx/expression/expression_helper.py', "            if e.cond.arg == 0:\n                e = e.src2\n            else:\n                e = e.src1", "            if e.cond.arg == 0:\n                e = e.src1\n            else:\n                e = e.src2", 'C05.D4'),
    ('slice-mem-any-start', 'miasmx/expression/expression_helper.py', "isinstance(e.arg, ExprMem) and e.start == 0 and e.arg.size > e.stop", "isinstance(e.arg, ExprMem) and e.arg.size > e.stop", 'C05.D4'),
    ('merge-shift-own-width', 'miasmx/expression/expression_helper.py', '(int(out[0].arg) << (out[1] - start ))', '(int(out[0].arg) << (out[2] - out[1]))', 'C05.D3'),
    ('merge-no-adjacency', 'miasmx/expression/expression_helper.py', '                if sorted_s[-1][1][0].stop != out[0].start:\n                    break\n', '', 'C05.D3'),
    ('merge-slice-start-kept', 'miasmx/expression/expression_helper.py', '                out[0].start = sorted_s[-1][1][0].start\n', '', 'C05.D3'),
    ('fold-swap', 'miasmx/expression/expression_helper.py', "o = i1.arg >> i2.arg", "o = i2.arg >> i1.arg", 'C05.D1'),
    ('fold-lshift-swap', 'miasmx/expression/expression_helper.py', "o = i1.arg << i2.arg", "o = i2.arg << i1.arg", 'C05.D1'),
    ('fold-xor-or', 'miasmx/expression/expression_helper.py', "o = i1.arg ^ i2.arg", "o = i1.arg | i2.arg", 'C05.D1'),
    ('zero-drop-and', 'miasmx/expression/expression_helper.py', "if op in ['+', '|', \"^\", \"<<\", \">>\", \"<<<\", \">>>\"] and len(args) > 1:",
     "if op in ['+', '|', \"^\", '&', \"<<\", \">>\", \"<<<\", \">>>\"] and len(args) > 1:", 'C05.D2'),
    ('zero-drop-minus', 'miasmx/expression/expression_helper.py', "if op in ['+', '|', \"^\", \"<<\", \">>\", \"<<<\", \">>>\"] and len(args) > 1:",
     "if op in ['+', '-', '|', \"^\", \"<<\", \">>\", \"<<<\", \">>>\"] and len(args) > 1:", 'C05.D2'),
    ('unwrap-minus', 'miasmx/expression/expression_helper.py', "if op in op_assoc + ['>>', '<<', '<<<', '>>>'] and len(args) == 1 :",
     "if op in op_assoc + ['-', '>>', '<<', '<<<', '>>>'] and len(args) == 1 :", 'C05.D2'),
    ('fold-guard-extra', 'miasmx/expression/expression_helper.py', "if op in op_assoc + ['>>', '<<']:", "if op in op_assoc + ['>>', '<<', 'a>>']:", 'C05.D1'),
    ('slice-copy-removed', 'miasmx/expression/expression.py', "    def copy(self):\n        return ExprSlice(self.arg.copy(), self.start, self.stop)\n", "", 'C05.D8'),
]
