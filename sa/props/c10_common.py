"""E3: constructs that raise on every execution (python-2 idioms under the
repository's interpreter, impossible arities, unbound names)."""
import ast

from ..shapes import u
from ..srcmodel import walk_no_nested, unbound_names

LAZY = ('filter', 'map', 'zip')


def py2_constructs(fn):
    """List of (node, description) inside function `fn` (nested defs excluded)."""
    out = []
    lazy_names = set()
    for n in walk_no_nested(fn):
        if isinstance(n, ast.Assign) and len(n.targets) == 1 and isinstance(n.targets[0], ast.Name) \
                and isinstance(n.value, ast.Call) and u(n.value.func) in ('filter', 'map'):
            lazy_names.add(n.targets[0].id)
    # a later re-assignment to a list cancels
    for n in walk_no_nested(fn):
        if isinstance(n, ast.Assign) and len(n.targets) == 1 and isinstance(n.targets[0], ast.Name) \
                and n.targets[0].id in lazy_names and not (isinstance(n.value, ast.Call) and u(n.value.func) in ('filter', 'map')):
            lazy_names.discard(n.targets[0].id)

    def is_lazy(e):
        return (isinstance(e, ast.Call) and u(e.func) in ('filter', 'map')) or (isinstance(e, ast.Name) and e.id in lazy_names)

    for n in walk_no_nested(fn):
        if isinstance(n, ast.Call) and u(n.func) == 'len' and n.args and is_lazy(n.args[0]):
            out.append((n, 'len() of a filter/map object raises TypeError'))
        elif isinstance(n, ast.Subscript) and is_lazy(n.value):
            out.append((n, 'subscript of a filter/map object raises TypeError'))
        elif isinstance(n, ast.BinOp) and isinstance(n.op, ast.Add) and isinstance(n.left, ast.Call) \
                and isinstance(n.left.func, ast.Attribute) and n.left.func.attr in ('items', 'keys', 'values') and not n.left.args:
            out.append((n, 'dict view + list raises TypeError'))
        elif isinstance(n, ast.Raise) and n.exc is not None and (
                (isinstance(n.exc, ast.Constant) and isinstance(n.exc.value, str)) or
                (isinstance(n.exc, ast.BinOp) and isinstance(n.exc.left, ast.Constant) and isinstance(n.exc.left.value, str))):
            out.append((n, 'raise of a string raises TypeError (exceptions must derive from BaseException)'))
        elif isinstance(n, ast.Call) and u(n.func) == 'long':
            out.append((n, 'long() does not exist: NameError'))
        elif isinstance(n, ast.Import) and any(a.name == 'cPickle' for a in n.names):
            out.append((n, 'import cPickle raises ImportError'))
        elif isinstance(n, ast.Call) and isinstance(n.func, ast.Attribute) and n.func.attr == 'decode' and n.args \
                and isinstance(n.args[0], ast.Constant) and n.args[0].value == 'hex':
            out.append((n, "str.decode('hex') does not exist: AttributeError"))
        elif isinstance(n, ast.Call) and u(n.func) == 'dict' and len(n.args) >= 2:
            out.append((n, 'dict() with two positional arguments raises TypeError'))
        elif isinstance(n, ast.For) and isinstance(n.target, ast.Name) and not isinstance(n.iter, ast.Call):
            # dictionary re-keyed while iterated:  for x in D: ... del D[x] ... D[f(x)] = ..
            base, var = u(n.iter), n.target.id
            dels = [d for st in n.body for d in ast.walk(st) if isinstance(d, ast.Delete) and any(u(t) == '%s[%s]' % (base, var) for t in d.targets)]
            dels += [d for st in n.body for d in ast.walk(st) if isinstance(d, ast.Call) and u(d.func) == 'del' and d.args and u(d.args[0]) == '%s[%s]' % (base, var)]
            adds = [d for st in n.body for d in ast.walk(st) if isinstance(d, ast.Assign) and isinstance(d.targets[0], ast.Subscript) and u(d.targets[0].value) == base
                    and u(d.targets[0].slice) != var]
            if dels and adds:
                out.append((n, 'keys of %s are deleted and re-inserted while it is iterated: RuntimeError (dictionary keys changed during iteration)' % base))
    return out


BELIEF_NAMES = ('NEVER', 'NOT_POSSIBLE', 'TODO', 'fds', 'fdsfsdf', 'fsdff', 'fdqs', 'fdsfds')


def belief_sites(ctx, mod, fn):
    """Bare-name expression statements used as 'assert unreachable' (NameError when reached)."""
    out = []
    for n in walk_no_nested(fn):
        if isinstance(n, ast.Expr) and isinstance(n.value, ast.Name):
            out.append(n)
    return out


def unintended_unbound(ctx, mod, fn):
    """Unbound names that are not belief sites (bare-name statements)."""
    belief = set(id(n.value) for n in belief_sites(ctx, mod, fn))
    return [n for n in unbound_names(ctx, mod, fn) if id(n) not in belief]
