"""C06 -- symbolic evaluation is sound substitution: dispatch exhaustiveness/arity of the constant evaluators,
n-ary evaluators, absence of always-raising constructs in the evaluation closure, cast discipline."""
import ast

from ..core import AnalysisError, where, norm
from ..consteval import Evaluator, NotConst
from ..liftforms import LifterModel
from ..lifter import LiftError, Term, walk_terms, get_size
from ..shapes import u
from ..srcmodel import walk_no_nested, parent
from . import c10_common
from ..linarith import lin, lin_add, show, straightline

# operators whose value is defined on integers by the architecture / bit-vector reading: a constant evaluator is expected
INTEGER_OPS_PREFIX = ('umul', 'imul', 'div', 'rem', 'idiv', 'irem')
INTEGER_OPS = {'+', '-', '*', '&', '|', '^', '<<', '>>', 'a>>', 'a<<', '<<<', '>>>', '<<<c_rez', '<<<c_cf', '>>>c_rez', '>>>c_cf',
               '==', 'parity', 'bsf', 'bsr', '!'}
MODCLASSES = {'uint1', 'uint8', 'uint16', 'uint32', 'uint64', 'uint128', 'int8', 'int16', 'int32', 'int64', 'int128'}
MODTABLES = {'tab_intsize', 'tab_uintsize', 'tab_u2i', 'tab_size_int'}


def is_integer_op(op):
    return op in INTEGER_OPS or any(op.startswith(p) and op[len(p):len(p) + 1].isdigit() for p in INTEGER_OPS_PREFIX)


def evaluator_arity(fn):
    """(min operands needed, handles_any) from the subscripts args[k] / len(args) tests of an eval_op_* method."""
    params = [a.arg for a in fn.args.args]
    if len(params) < 2:
        return None
    an = params[1]
    idx = set()
    lens = set()
    loops = False
    calls_other = []
    for n in ast.walk(fn):
        if isinstance(n, ast.Subscript) and isinstance(n.value, ast.Name) and n.value.id == an and isinstance(n.slice, ast.Constant) \
                and isinstance(n.slice.value, int):
            idx.add(n.slice.value)
        if isinstance(n, ast.Compare) and u(n.left) == 'len(%s)' % an and isinstance(n.comparators[0], ast.Constant):
            lens.add(n.comparators[0].value)
        if isinstance(n, (ast.For, ast.ListComp, ast.GeneratorExp)):
            its = [n.iter] if isinstance(n, ast.For) else [g.iter for g in n.generators]
            for it in its:
                if any(isinstance(x, ast.Name) and x.id == an for x in ast.walk(it)):
                    loops = True
        if isinstance(n, ast.Call) and isinstance(n.func, ast.Attribute) and u(n.func.value) == 'self' and n.func.attr.startswith('eval_op') \
                and any(u(a) == an for a in n.args):
            calls_other.append(n.func.attr)
    return {'idx': idx, 'lens': lens, 'loops': loops, 'delegates': calls_other}


def mod_typed_names(fn):
    """Names bound (every assignment) to fixed-width integer objects."""
    typed = set()
    changed = True
    assigns = {}
    for n in walk_no_nested(fn):
        if isinstance(n, ast.Assign) and len(n.targets) == 1 and isinstance(n.targets[0], ast.Name):
            assigns.setdefault(n.targets[0].id, []).append(n.value)

    def is_mod(v):
        if isinstance(v, ast.Call):
            f = v.func
            if isinstance(f, ast.Name) and f.id in MODCLASSES:
                return True
            if isinstance(f, ast.Subscript) and isinstance(f.value, ast.Name) and f.value.id in MODTABLES:
                return True
        if isinstance(v, ast.Name) and v.id in typed:
            return True
        if isinstance(v, ast.BinOp) and isinstance(v.op, (ast.Add, ast.Sub, ast.Mult, ast.LShift, ast.RShift, ast.BitAnd, ast.BitOr, ast.BitXor)):
            return is_mod(v.left) or is_mod(v.right)
        return False
    while changed:
        changed = False
        for nm, vals in assigns.items():
            if nm not in typed and vals and all(is_mod(v) for v in vals):
                typed.add(nm)
                changed = True
    return typed, is_mod


def run(ctx, report):
    ea = ctx.mod('eval_abs')
    hlp = ctx.mod('expr_helper')
    L = LifterModel(ctx, opmodes=('u32', 'u16'), rich=True)
    report.explanation = (
        'D1: every operator string the lifter can put into value-carrying IR (collected with its operand counts from the E4 templates of all decoder forms) '
        'either has an entry in eval_abs.deal_op whose evaluator indexes no more operands than the lifter passes, or -- for uninterpreted x87/SSE/system '
        'operators -- is rebuilt symbolically because eval_ExprOp tests membership in deal_op before dispatching; integer-valued operators without evaluator '
        'are reported. D2: the evaluator of every commutative-associative operator (which expr_simp flattens to n operands) consumes all of args. D3: no '
        'always-raising construct in the evaluation closure (true division on fixed-width integers, raise of a string, dict view + list, cPickle). D4: the '
        'scalar result is wrapped as ExprInt(cast_int(..)) with cast_int the type of the first operand; eval_ExprId is the exact pool lookup. D5: operator token / ring size of each evaluator. D6: in the structure evaluators (eval_Expr*) no fixed-width payload (x.arg without int()) is shifted to a bit position, and the arms of a conditional piece are shifted to the start of their slot.')
    report.not_decided = 'numeric correctness of each evaluator; Cond/Compose/Slice folding on concrete values.'
    methods = ea.methods('eval_abs')
    cls = ea.cls('eval_abs')
    # deal_op
    deal = None
    for st in cls.body:
        if isinstance(st, ast.Assign) and u(st.targets[0]) == 'deal_op' and isinstance(st.value, ast.Dict):
            deal = dict((k.value, u(v)) for k, v in zip(st.value.keys, st.value.values) if isinstance(k, ast.Constant))
    if not deal or len(deal) < 20:
        raise AnalysisError('eval_abs.deal_op not found or not a literal dict')
    try:
        op_assoc = list(Evaluator({}).ev(hlp.assign_value('op_assoc')))
    except (NotConst, AnalysisError) as e:
        raise AnalysisError('op_assoc: %s' % e)
    eo = methods.get('eval_ExprOp')
    if eo is None:
        raise AnalysisError('eval_abs.eval_ExprOp not found')
    # is the dispatch guarded by membership?
    guarded = False
    for n in walk_no_nested(eo):
        if isinstance(n, ast.If):
            # `if not e.op in self.deal_op: return ..` -- alone or as one alternative of an `or`
            alts = n.test.values if isinstance(n.test, ast.BoolOp) and isinstance(n.test.op, ast.Or) else [n.test]
            for alt in alts:
                t = u(alt)
                neg = (isinstance(alt, ast.UnaryOp) and isinstance(alt.op, ast.Not)) or (isinstance(alt, ast.Compare) and isinstance(alt.ops[0], ast.NotIn))
                if isinstance(alt, (ast.Compare, ast.UnaryOp)) and ('in self.deal_op' in t or 'in eval_abs.deal_op' in t) and neg and any(isinstance(s, ast.Return) for s in n.body):
                    guarded = True

    # operators used by the lifter
    uses = {}
    mixed = {}
    for inst in L.lift_all():
        if inst.func is None or inst.unknown:
            continue
        for dec, tmpl in inst.results:
            if isinstance(tmpl, LiftError) or not isinstance(tmpl, list):
                continue
            for aff in tmpl:
                for x in walk_terms(aff):
                    if x.kind == 'Op' and isinstance(x.op, str):
                        uses.setdefault(x.op, {}).setdefault(len(x.args), inst.func.name)
                        try:
                            ws = [get_size(a) for a in x.args if isinstance(a, Term)]
                        except Exception:
                            ws = []
                        ws = [w for w in ws if isinstance(w, int) and w]
                        if len(set(ws)) > 1 and all(y.op in deal for a in x.args if isinstance(a, Term) for y in walk_terms(a) if y.kind == 'Op'):
                            # (operands that contain an uninterpreted operator never become constants: the type check is not reached)
                            mixed.setdefault(x.op, {}).setdefault((inst.func.name, '/'.join(str(w) for w in ws)), inst.name)
    if len(uses) < 60:
        raise AnalysisError('only %d operator strings collected from the lifter templates' % len(uses))
    report.analysed['lifter_operators'] = len(uses)

    R1 = report.rule('C06.D1', 'every lifter operator is evaluable on constants or kept symbolic', floor=60)
    for op in sorted(uses):
        ars = uses[op]
        inst = 'op %r arities %s' % (op, sorted(ars))
        if op in deal:
            fn = methods.get(deal[op])
            if fn is None:
                R1.violation(inst, 'deal_op:%s:missing-method' % op, 'deal_op[%r] names %s which is not a method' % (op, deal[op]), where(ea, cls))
                continue
            info = evaluator_arity(fn)
            need = (max(info['idx']) + 1) if info['idx'] else 0
            bad = [a for a in ars if a < need and a not in info['lens']]
            if bad:
                R1.violation(inst, 'deal_op:%s:arity:%s' % (op, bad),
                             'the lifter builds %r with %s operand(s) (%s) but %s reads args[%d]: IndexError when the operands are constants'
                             % (op, bad, ars[bad[0]], deal[op], need - 1), where(ea, fn), witness="bsf eax, ebx with ebx constant" if op in ('bsf', 'bsr') else None)
            else:
                R1.ok(inst, sample='%r: lifter arities %s, %s reads %d operand(s)' % (op, sorted(ars), deal[op], need))
        elif is_integer_op(op):
            R1.violation(inst, 'deal_op:%s:no-evaluator' % op,
                         'integer operator %r (built by %s) has no entry in deal_op: with constant operands the evaluator %s' %
                         (op, sorted(set(ars.values())), 'keeps it symbolic instead of returning the constant' if guarded else 'raises KeyError'),
                         where(ea, eo), witness="mul ebx with eax, ebx constant -> KeyError 'umul32_hi'" if op == 'umul32_hi' else None)
        else:
            if guarded:
                R1.ok(inst, sample='%r: uninterpreted, rebuilt symbolically' % op, nontrivial=False)
            else:
                R1.violation(inst, 'deal_op:unguarded-dispatch', 'eval_ExprOp indexes deal_op[e.op] without testing membership: uninterpreted operators such as %r '
                             'raise KeyError as soon as all their operands are constants' % op, where(ea, eo))

    # operand-width check of eval_ExprOp: operators the lifter builds with operands of different widths must be exempt
    no_check = None
    for st in cls.body:
        if isinstance(st, ast.Assign) and u(st.targets[0]) == 'op_size_no_check':
            try:
                no_check = list(Evaluator({}).ev(st.value))
            except NotConst as e:
                raise AnalysisError('op_size_no_check not a literal list: %s' % e)
    eo_txt = u(eo)
    if no_check is None:
        raise AnalysisError('eval_abs.op_size_no_check not found: the mixed-width rule has to be re-read')
    # (how eval_ExprOp uses the list - in its own body or in a helper - is decided by evaluating it: C06.D15)
    for op in sorted(no_check):
        inst = 'no-check %r' % op
        if op in deal or op in uses:
            R1.ok(inst, sample='%r exempt from the operand-type check, is an operator' % op, nontrivial=False)
        else:
            R1.violation(inst, 'no-check:%s:not-an-operator' % op, 'op_size_no_check lists %r, which is neither a deal_op key nor an operator the lifter builds '
                         '(a misspelt entry leaves the intended operator checked)' % op, where(ea, cls))
    for op in sorted(mixed):
        inst = 'mixed-width %r' % op
        if op not in deal:
            R1.ok(inst, nontrivial=False)
        elif op in no_check:
            R1.ok(inst, sample='%r built with operand widths %s, exempt from the type check' % (op, sorted(set(w for f, w in mixed[op]))))
        else:
            for fname in sorted(set(f for f, w in mixed[op])):
                ws = sorted(w for f, w in mixed[op] if f == fname)
                R1.violation(inst + ':' + fname, 'deal_op:%s:mixed-widths:%s' % (op, fname),
                             'the lifter function %s builds %r with operands of widths %s; eval_ExprOp raises "invalid cast" when they are constants '
                             '(operator not in op_size_no_check)' % (fname, op, ws), where(ea, eo))

    R15 = report.rule('C06.D15', 'eval_ExprOp interpreted as a whole on constant operands: a shift / rotate whose count or carry has another width than the value gives a constant of '
                      'the value\'s width, equal to the operator\'s evaluator; every interpreted operator on operands of one width gives that width', floor=5)
    op_eval_rule(ctx, R15, ea, methods, deal, no_check)
    R2 = report.rule('C06.D2', 'evaluators of flattened (n-ary) operators consume every operand', floor=5)
    for op in op_assoc:
        inst = 'n-ary %r' % op
        if op not in deal:
            R2.violation(inst, 'nary:%s:missing' % op, 'associative operator %r has no evaluator' % op, where(ea, cls))
            continue
        fn = methods[deal[op]]
        info = evaluator_arity(fn)
        if info['loops'] or (info['delegates'] and not info['idx']):
            R2.ok(inst, sample='%s folds over all of args' % deal[op])
        else:
            R2.violation(inst, 'nary:%s:%s' % (op, deal[op]), '%s reads only args[%s]: expr_simp flattens %r to n operands, the others are ignored when all are constants'
                         % (deal[op], sorted(info['idx']), op), where(ea, fn), witness='eax^ebx^ecx with all three constant: the third operand is dropped')

    R3 = report.rule('C06.D3', 'no always-raising construct in the evaluation closure', floor=40)
    try:
        ctx.mod('modint').method('moduint', '__index__')
        has_index = True
    except AnalysisError:
        has_index = False
    skip = {'to_file', 'from_file'}
    for name, fn in sorted(methods.items()):
        inst = 'eval_abs.%s' % name
        hits = c10_common.py2_constructs(fn)
        typed, is_mod = mod_typed_names(fn)
        for n in walk_no_nested(fn):
            if isinstance(n, ast.BinOp) and isinstance(n.op, (ast.Div, ast.FloorDiv)) and is_mod(n.left):
                hits.append((n, 'division of a fixed-width integer: moduint defines only the python-2 __div__, so / and // raise TypeError'))
            # struct.pack of an operand: args[i] are moduint objects, which define no __index__
            if isinstance(n, ast.Call) and u(n.func) == 'struct.pack' and name.startswith('eval_op') and not has_index:
                for a in n.args[1:]:
                    if (isinstance(a, ast.Subscript) and u(a.value) == 'args') or is_mod(a):
                        hits.append((n, 'struct.pack of the fixed-width integer %s: moduint defines no __index__, struct.error is raised for every input' % u(a)))
        if name in skip:
            for n, what in hits:
                R3.note('%s (persistence helper, outside the evaluation closure): %s' % (inst, what))
            R3.ok(inst, nontrivial=False)
            continue
        if hits:
            for n, what in hits:
                R3.violation(inst, '%s:%s' % (inst, norm(n)), '%s: %s -- %s' % (inst, norm(n), what), where(ea, n))
        else:
            R3.ok(inst, nontrivial=bool(name.startswith('eval')))
    # truth tests on fixed-width integers need moduint.__bool__ (python 3 ignores __nonzero__)
    mi = ctx.mod('modint')
    has_bool = {}
    for cname in ('moduint',):
        try:
            b = mi.method(cname, '__bool__')
        except AnalysisError:
            b = None
        okb = False
        if b is not None:
            rets = [n for n in ast.walk(b) if isinstance(n, ast.Return)]
            okb = bool(rets) and u(rets[0].value).replace(' ', '') in ('self.arg!=0', 'bool(self.arg)', 'self.arg!=0L')
        has_bool[cname] = okb
    n_tt = 0
    for name, fn in sorted(methods.items()):
        params = [a.arg for a in fn.args.args[1:]]
        for n in walk_no_nested(fn):
            if isinstance(n, (ast.If, ast.While)) and isinstance(n.test, ast.BinOp) and isinstance(n.test.op, (ast.BitAnd, ast.BitOr, ast.BitXor, ast.Add, ast.Sub, ast.RShift, ast.LShift)) \
                    and any(isinstance(x, ast.Name) and x.id in params for x in ast.walk(n.test)):
                n_tt += 1
                inst = 'truth-test %s:%s' % (name, norm(n.test))
                if all(has_bool.values()):
                    R3.ok(inst, sample='%s: `if %s` relies on moduint.__bool__ (defined: arg != 0)' % (name, norm(n.test)))
                else:
                    R3.violation(inst, 'truth-test:moduint.__bool__', 'eval_abs.%s tests the truth of the fixed-width integer `%s`, but moduint/modint define no __bool__ returning arg != 0: '
                                 'the test is always true' % (name, norm(n.test)), where(ea, n), witness='eval_abs.my_bsf(uint32(8)) == 0')
    if n_tt < 2:
        raise AnalysisError('expected the truth tests of my_bsf/my_bsr on fixed-width integers, found %d' % n_tt)
    mp = ea.methods('mpool')
    for name, fn in sorted(mp.items()):
        inst = 'mpool.%s' % name
        hits = c10_common.py2_constructs(fn)
        if hits:
            for n, what in hits:
                R3.violation(inst, '%s:%s' % (inst, norm(n)), '%s: %s -- %s' % (inst, norm(n), what), where(ea, n))
        else:
            R3.ok(inst, nontrivial=False)

    # ---------------------------------------------------------------- D6 placement arithmetic of the structure evaluators
    R6 = report.rule('C06.D6', 'structure evaluators place bits with plain-integer arithmetic', floor=4)
    for name, fn in sorted(methods.items()):
        if not name.startswith('eval_Expr'):
            continue
        # names bound to the fixed-width payload of a constant (x.arg) without int()
        fw = set()
        # local helper functions that return such a payload
        fw_funcs = set()
        for g in ast.walk(fn):
            if isinstance(g, ast.FunctionDef) and g is not fn:
                for r in ast.walk(g):
                    if isinstance(r, ast.Return) and r.value is not None and (
                            (isinstance(r.value, ast.Attribute) and r.value.attr == 'arg') or
                            (isinstance(r.value, ast.BinOp) and isinstance(r.value.op, (ast.BitAnd, ast.RShift)) and isinstance(r.value.left, ast.Attribute) and r.value.left.attr == 'arg')):
                        fw_funcs.add(g.name)
        for n in walk_no_nested(fn):
            if isinstance(n, ast.Assign) and len(n.targets) == 1 and isinstance(n.targets[0], ast.Name):
                v = n.value
                if isinstance(v, ast.Call) and isinstance(v.func, ast.Name) and v.func.id in fw_funcs:
                    fw.add(n.targets[0].id)
                if isinstance(v, ast.Attribute) and v.attr == 'arg':
                    fw.add(n.targets[0].id)
                elif isinstance(v, ast.BinOp) and isinstance(v.left, ast.Attribute) and v.left.attr == 'arg' and isinstance(v.op, (ast.BitAnd, ast.BitOr, ast.RShift)):
                    fw.add(n.targets[0].id)

        def is_fw(e):
            if isinstance(e, ast.Name):
                return e.id in fw
            if isinstance(e, ast.Attribute):
                return e.attr == 'arg'
            if isinstance(e, ast.BinOp) and isinstance(e.op, (ast.BitAnd, ast.BitOr, ast.BitXor)):
                return is_fw(e.left) or is_fw(e.right)
            return False
        shifts = []
        for n in walk_no_nested(fn):
            if isinstance(n, ast.AugAssign) and isinstance(n.op, ast.LShift):
                shifts.append((n, n.target, n.value))
            elif isinstance(n, ast.BinOp) and isinstance(n.op, ast.LShift) and not (isinstance(n.left, ast.Constant)):
                shifts.append((n, n.left, n.right))
        for node, left, amount in shifts:
            inst = '%s:%s' % (name, norm(node))
            if is_fw(left):
                R6.violation(inst, 'placement:%s:%s' % (name, norm(node)), '%s shifts the fixed-width payload `%s` of a constant to bit position `%s`: the value wraps at the width of the piece itself, '
                             'so the bits of every piece that does not start at 0 are lost' % (name, u(left), u(amount)), where(ea, node),
                             witness='Compose(0x11@0:8, 0x22@8:16, 0x4433@16:32) evaluates to 0x11')
            else:
                R6.ok(inst, sample='%s: `%s` shifts a plain integer' % (name, norm(node)))
    ec = methods.get('eval_ExprCompose')
    if ec is None:
        raise AnalysisError('eval_abs.eval_ExprCompose not found')
    arms = [n for n in walk_no_nested(ec) if isinstance(n, ast.Assign) and any(isinstance(x, ast.Attribute) and x.attr in ('src1', 'src2') for x in ast.walk(n.value))
            and any(isinstance(x, ast.Attribute) and x.attr == 'arg' for x in ast.walk(n.value))]
    if not arms:
        raise AnalysisError('eval_ExprCompose: the handling of a conditional piece was not found')
    for n in arms:
        inst = 'eval_ExprCompose:%s' % norm(n)[:70]
        vals = n.value.elts if isinstance(n.value, ast.Tuple) else [n.value]
        armvals = [v for v in vals if any(isinstance(x, ast.Attribute) and x.attr in ('src1', 'src2') for x in ast.walk(v))]
        bad = [v for v in armvals if not any(isinstance(x, ast.BinOp) and isinstance(x.op, ast.LShift) and u(x.right) == 'start' for x in ast.walk(v))]
        if bad:
            R6.violation(inst, 'placement:cond-arm:%s' % norm(bad[0])[:60], 'eval_ExprCompose does not shift the arms of a conditional piece to the start of its slot (%s): correct only when the '
                         'conditional piece is the lowest one' % norm(bad[0])[:60], where(ea, n), witness='Compose(a@0:8, (z?1:2)@8:16) evaluates to z?(0x11,0x13)')
        else:
            R6.ok(inst, sample='conditional arms masked and shifted by start')

    # constant pieces of a width no ExprInt can carry: the lifter composes byte/word writes with the remaining bits of the register
    # (reg[8:32], 24 bits); with reg constant that piece evaluates to Slice(ExprInt) because the simplifier folds Slice(int) only for
    # widths in tab_size_int -- eval_ExprCompose has to treat it as a constant piece or the result is never the constant
    odd = {}
    for inst_ in L.lift_all():
        if inst_.func is None or inst_.unknown:
            continue
        for dec, tmpl in inst_.results:
            if isinstance(tmpl, LiftError) or not isinstance(tmpl, list):
                continue
            for aff in tmpl:
                # ExprAff(reg[a:b], v) is stored as reg = Compose(reg[0:a], v, reg[b:size]) (ExprAff.__init__ / slice_rest, see C11.D5)
                if aff.kind == 'Aff' and aff.dst.kind == 'Slice' and aff.dst.arg.kind == 'Id':
                    try:
                        size = get_size(aff.dst.arg)
                    except Exception:
                        continue
                    for w in (aff.dst.start, size - aff.dst.stop):
                        if w > 0 and w not in (1, 8, 16, 32, 64):
                            odd.setdefault(w, inst_.func.name)
                for x in walk_terms(aff):
                    if x.kind == 'Compose':
                        for piece, a, b in x.args:
                            if isinstance(piece, Term) and piece.kind == 'Slice' and b - a > 0 and (b - a) not in (1, 8, 16, 32, 64):
                                odd.setdefault(b - a, inst_.func.name)
    slice_rule = [n for n in ast.walk(hlp.func('_expr_simp')) if isinstance(n, ast.If) and 'in tab_size_int' in u(n.test) and 'total_bit' in u(n.test)]
    if odd and slice_rule:
        pieces_ok = False
        # (the test may live in eval_ExprCompose itself or in a helper of the module it calls)
        for n in [x_ for f_ in [ec] + list(ea.funcs.values()) for x_ in ast.walk(f_)]:
            if isinstance(n, ast.BoolOp) and isinstance(n.op, ast.And):
                t = [u(v).replace(' ', '') for v in n.values]
                sl = [x for x in t if x.startswith('isinstance(') and x.endswith(',ExprSlice)')]
                for x in sl:
                    v = x[len('isinstance('):-len(',ExprSlice)')]
                    if 'isinstance(%s.arg,ExprInt)' % v in t:
                        pieces_ok = True
        inst = 'eval_ExprCompose:constant-slice-piece'
        if pieces_ok:
            R6.ok(inst, sample='pieces of %s bits (%s): Slice(ExprInt) is recognised as a constant piece' % (sorted(odd), sorted(set(odd.values()))[:3]))
        else:
            w = sorted(odd)[0]
            # the shape was not recognised: whether such pieces fold is decided by the evaluated layouts of compose_fold_rule ('constant slice above a constant')
            R6.note('eval_ExprCompose: no test `isinstance(x, ExprSlice) and isinstance(x.arg, ExprInt)` found; pieces of %s bits are decided by the evaluated layouts' % sorted(odd))
            R6.ok(inst, nontrivial=False)
        if False:
            R6.violation(inst, 'placement:constant-slice-piece', 'the lifter (%s) composes pieces of %s bits; with constant inputs such a piece evaluates to Slice(ExprInt) (no %d-bit ExprInt), '
                         'which eval_ExprCompose does not recognise as constant: the composition is never folded' % (odd[w], sorted(odd), w), where(ea, ec),
                         witness="mov bl, 0x10 with ebx = 0x12345678 evaluates to (0x10,0,8, 0x12345678[8:32],8,32), not 0x12345610")
    else:
        R6.ok('eval_ExprCompose:constant-slice-piece:n/a', nontrivial=False)

    # eval_ExprCompose, evaluated on compositions of constant pieces with at most one conditional piece (every position of the
    # conditional piece, constant slices included): the folded value must be the concatenation of the pieces
    compose_fold_rule(R6, ea, ec)
    mem_read_fold_rule(R6, ea, methods)

    # ---------------------------------------------------------------- D10 evaluation leaves the caller's expression as it was
    R10 = report.rule('C06.D10', 'the simplifier the evaluator runs on its argument never modifies that argument (a second evaluation of the same object must see the same expression; shared with C13.D4)', floor=3)
    from .c13 import input_untouched_rule
    input_untouched_rule(ctx, R10)

    # ---------------------------------------------------------------- D9 the memory model works on addresses of one width
    R11 = report.rule('C06.D11', 'eval_expr simplifies its argument and every operand: each rewriting step of the simplifier keeps width and value (the family of C05.D2-D4, evaluated from the source)', floor=30)
    from .. import simpeval
    simpeval.emit(R11, ctx, lambda l: True, ('value', 'width', 'result', 'raises', 'loops'))

    R12c = report.rule('C06.D12', 'a copied pool (mpool.copy) carries every attribute the pool methods update: evaluation in a forked state is the evaluation in the state it was forked from (shared with C12.D16)', floor=2)
    from .c12 import state_copy_rule
    state_copy_rule(R12c, [ctx.mod('eval_abs')])

    R14 = report.rule('C06.D14', 'every address looked up in the table of stored cells is simplified on every assignment that reaches the lookup (a bound memory cell is found '
                      'under whatever spelling of its address the evaluated expression uses); shared with C07.D15', floor=3)
    from .c07 import lookup_key_rule
    lookup_key_rule(R14, ea, methods)
    R16 = report.rule('C06.D16', 'the symbolic machine interpreted from its source (mpool, eval_abs, the node classes, the simplifier) on 30 instruction histories - a cell read at its own '
                      'width, narrower, wider, from the middle, across cells and before a cell, through constant and symbolic addresses, values that became constants on the way through every '
                      'shift / rotate evaluator: every register and probed cell, valued on three initial states, equals the concrete execution of the history (shared with C07.D17)', floor=20)
    from .. import machine as _machine
    _machine.emit(R16, ctx, 'C06')
    R13 = report.rule('C06.D13', 'eval_ExprCond evaluated from the source on every kind of evaluated condition (constants, symbolic flags, a conditional with constant arms 0 / non-zero in '
                      'every combination, a comparison): the node it returns has the value of the selected arm under every valuation', floor=20)
    cond_eval_rule(ctx, R13)

    R9 = report.rule('C06.D9', 'the memory model adds 32-bit constants to cell addresses: every address that enters it (read, store) is widened to 32 bits first', floor=3)
    addr_width_rule(R9, ea, methods)

    # ---------------------------------------------------------------- D7 writer's and reader's key of a memory cell agree
    R7 = report.rule('C06.D7', 'memory cells are stored under the (simplified) address they are looked up with', floor=2)
    em = methods.get('eval_ExprMem')
    if em is None:
        raise AnalysisError('eval_abs.eval_ExprMem not found')
    # reader: the address eval_ExprMem looks up is simplified
    a_val = [n for n in walk_no_nested(em) if isinstance(n, ast.Assign) and u(n.targets[0]) == 'a_val']
    def keeps_simplified(v):
        """expr_simp(..), or self.<method>(a_val) where the method returns its argument or an expr_simp(..) (the address widening of D9)"""
        if isinstance(v, ast.Call) and u(v.func) == 'expr_simp':
            return True
        if isinstance(v, ast.Call) and isinstance(v.func, ast.Attribute) and u(v.func.value) == 'self' and v.func.attr in methods and len(v.args) == 1 and u(v.args[0]) == 'a_val':
            f_ = methods[v.func.attr]
            p0 = f_.args.args[1].arg if len(f_.args.args) > 1 else None
            rets = [r for r in walk_no_nested(f_) if isinstance(r, ast.Return) and r.value is not None]
            return bool(rets) and all((isinstance(r.value, ast.Name) and r.value.id == p0) or (isinstance(r.value, ast.Call) and u(r.value.func) == 'expr_simp') for r in rets)
        return False
    def looks_up(fn, var, depth=0):
        """fn tests `var in self.pool.pool_mem`, or hands var to a method of the class that does so with its parameter"""
        if any(('%s in self.pool.pool_mem' % var) in u(n) for n in walk_no_nested(fn) if isinstance(n, ast.If)):
            return True
        if depth < 2:
            for c in walk_no_nested(fn):
                if isinstance(c, ast.Call) and isinstance(c.func, ast.Attribute) and u(c.func.value) == 'self' and c.func.attr in methods and [u(a) for a in c.args] == [var]:
                    callee = methods[c.func.attr]
                    if len(callee.args.args) > 1 and looks_up(callee, callee.args.args[1].arg, depth + 1):
                        return True
        return False
    reader_simplified = bool(a_val) and all(keeps_simplified(n.value) for n in a_val) and looks_up(em, 'a_val')
    if not reader_simplified:
        raise AnalysisError('eval_ExprMem no longer looks memory cells up by expr_simp(address) in pool_mem: rule C06.D7 has to be re-read')
    R7.ok('reader:eval_ExprMem', sample='eval_ExprMem: a_val = expr_simp(eval(addr)); a_val in self.pool.pool_mem')
    mp_methods = ea.methods('mpool')
    setter = mp_methods.get('__setitem__')
    if setter is None:
        raise AnalysisError('mpool.__setitem__ not found')

    def normalising(expr, depth=0):
        """expr is expr_simp(..), or a call of an mpool method all of whose returns are, or a name assigned such a value in the setter."""
        if isinstance(expr, ast.Call) and u(expr.func) == 'expr_simp':
            return True
        if isinstance(expr, ast.Call) and isinstance(expr.func, ast.Attribute) and u(expr.func.value) == 'self' and expr.func.attr in mp_methods and depth < 3:
            rets = [r for r in ast.walk(mp_methods[expr.func.attr]) if isinstance(r, ast.Return) and r.value is not None]
            return bool(rets) and all(normalising(r.value, depth + 1) for r in rets)
        if isinstance(expr, ast.Name) and depth < 3:
            asg = [n for n in walk_no_nested(setter) if isinstance(n, ast.Assign) and u(n.targets[0]) == expr.id]
            return bool(asg) and all(normalising(n.value, depth + 1) for n in asg)
        return False
    keys = []
    for n in walk_no_nested(setter):
        if isinstance(n, ast.Call) and u(n.func) == 'self.pool_mem.__setitem__' and n.args:
            keys.append(n.args[0])
        if isinstance(n, ast.Assign) and isinstance(n.targets[0], ast.Subscript) and u(n.targets[0].value) == 'self.pool_mem':
            keys.append(n.targets[0].slice)
    if not keys:
        raise AnalysisError('mpool.__setitem__: the store into pool_mem was not found')
    for k in keys:
        inst = 'writer:mpool.__setitem__[%s]' % u(k)
        if normalising(k):
            R7.ok(inst, sample='mpool.__setitem__ stores under %s (simplified address)' % u(k))
            continue
        # otherwise every store site must pass a simplified cell
        init = methods.get('__init__')
        raw_sites = []
        for mname, f in sorted(methods.items()):
            for n in walk_no_nested(f):
                if isinstance(n, ast.Assign) and isinstance(n.targets[0], ast.Subscript) and u(n.targets[0].value) == 'self.pool':
                    raw_sites.append((mname, n))
        bad = [(m_, n) for m_, n in raw_sites if m_ == '__init__']
        if bad:
            R7.violation(inst, 'mem-key:writer-raw:%s' % u(k), 'mpool.__setitem__ keys a memory cell by the raw %s while eval_ExprMem looks cells up by the simplified address; eval_abs.__init__ '
                         'stores the caller\'s cells unsimplified (%s): a cell bound under @32[esp-4] is never found' % (u(k), norm(bad[0][1])), where(ea, setter),
                         witness='eval_abs({ExprMem(esp - ExprInt32(4)): ExprInt32(0x1234)}).eval_expr(ExprMem(esp - ExprInt32(4)), {}) returns the cell unevaluated')
        else:
            R7.ok(inst, sample='every store site passes a simplified cell')

    # ---------------------------------------------------------------- D8 width-indexed tables cover every constant width
    R8 = report.rule('C06.D8', 'tables the evaluators index with the operand width cover every width a constant can have', floor=1)
    def int_keys(name):
        try:
            node = ea.assign_value(name)
        except AnalysisError:
            return None
        if not isinstance(node, ast.Dict):
            return None
        return [k.value for k in node.keys if isinstance(k, ast.Constant) and isinstance(k.value, int)]
    widths = None
    node = None
    try:
        node = ea.assign_value('tab_int_size')
    except AnalysisError:
        pass
    if isinstance(node, ast.Dict):
        widths = sorted(v.value for v in node.values if isinstance(v, ast.Constant) and isinstance(v.value, int))
    if not widths:
        raise AnalysisError('tab_int_size (type -> width of the operands of eval_ExprOp) is not a literal dict')
    used = {}
    for name, fn in sorted(methods.items()):
        if not name.startswith('eval_op'):
            continue
        for n in walk_no_nested(fn):
            if isinstance(n, ast.Subscript) and isinstance(n.value, ast.Name) and u(n.slice) == 'op_size':
                used.setdefault(n.value.id, name)
    for tname in sorted(used):
        keys = int_keys(tname)
        if keys is None:
            continue
        missing = [w for w in widths if w not in keys]
        inst = 'table %s[op_size]' % tname
        # tables used only by evaluators whose operators exist for some widths only are judged on those evaluators' operators; the mask table is used by all
        users = sorted(nm for nm, f in methods.items() if nm.startswith('eval_op') and any(isinstance(x, ast.Subscript) and isinstance(x.value, ast.Name) and x.value.id == tname
                                                                                      and u(x.slice) == 'op_size' for x in walk_no_nested(f)))
        general = any(deal.get(o) in users for o in ('!', '<<', '>>', '<<<', '>>>'))
        if missing and general:
            R8.violation(inst, 'width-table:%s:%s' % (tname, missing), '%s has no entry for width %s (constants of that width exist: tab_int_size), but %s index it with the operand width: KeyError'
                         % (tname, missing, users[:4]), where(ea, ea.assigns[tname][-1]), witness="eval_expr(ExprOp('!', ExprInt(uint1(1)))) raises KeyError(1)")
        elif general:
            R8.ok(inst, sample='%s covers widths %s' % (tname, widths))
        else:
            R8.ok(inst, nontrivial=False)

    R4 = report.rule('C06.D4', 'results are cast to the operands\' type; identifiers are looked up exactly', floor=2)
    txt = u(eo)
    def _cast_is_first_operand_type(fn):
        """the returned constant is ExprInt(C(..)) with C = <types>[0], <types> = [type(x) for x in <operand values>] (the operands themselves or their .arg)"""
        asg = {}
        for n_ in walk_no_nested(fn):
            if isinstance(n_, ast.Assign) and len(n_.targets) == 1 and isinstance(n_.targets[0], ast.Name):
                asg.setdefault(n_.targets[0].id, []).append(n_.value)
        for r_ in walk_no_nested(fn):
            if not (isinstance(r_, ast.Return) and isinstance(r_.value, ast.Call) and u(r_.value.func) == 'ExprInt' and r_.value.args and isinstance(r_.value.args[0], ast.Call)
                    and isinstance(r_.value.args[0].func, ast.Name)):
                continue
            c_ = r_.value.args[0].func.id
            for v_ in asg.get(c_, []):
                if isinstance(v_, ast.Subscript) and isinstance(v_.slice, ast.Constant) and v_.slice.value == 0 and isinstance(v_.value, ast.Name):
                    for t_ in asg.get(v_.value.id, []):
                        if isinstance(t_, ast.ListComp) and isinstance(t_.elt, ast.Call) and u(t_.elt.func) == 'type' and len(t_.generators) == 1:
                            it_ = t_.generators[0].iter
                            if u(it_) == 'args':
                                return True
                            if isinstance(it_, ast.Name):
                                for w_ in asg.get(it_.id, []):
                                    if isinstance(w_, ast.ListComp) and len(w_.generators) == 1 and u(w_.generators[0].iter) == 'args' and isinstance(w_.elt, ast.Attribute) \
                                            and w_.elt.attr == 'arg':
                                        return True
        return False
    if _cast_is_first_operand_type(eo):
        R4.ok('eval_ExprOp:cast', sample='eval_ExprOp: ExprInt(cast_int(ret_value)), cast_int = type of the first operand')
    else:
        # the shape is advisory: which type the result gets is decided on values by C06.D15 (eval_ExprOp interpreted on mixed-width operands)
        R4.ok('eval_ExprOp:cast', sample='eval_ExprOp: the result type is not read from the text (another shape than ExprInt(types[0](..))); decided by evaluation, C06.D15')
    ei = methods.get('eval_ExprId')
    t = ' ; '.join(u(s) for s in ei.body) if ei else ''
    e = ei.args.args[1].arg if ei else 'e'
    if ('if not %s in self.pool' % e in t or 'if %s not in self.pool' % e in t) and 'return self.pool[%s]' % e in t and 'return %s' % e in t:
        R4.ok('eval_ExprId', sample='eval_ExprId: pool[e] if e in pool else e')
    else:
        R4.violation('eval_ExprId', 'eval_ExprId', 'eval_ExprId is not the exact pool lookup', where(ea, ei or cls))
    # every IR class has an evaluator in the class dispatch
    enc = methods.get('eval_expr_no_cache')
    dk = set()
    for n in ast.walk(enc):
        if isinstance(n, ast.Dict):
            for k in n.keys:
                dk.add(u(k))
    for c in ('ExprId', 'ExprInt', 'ExprMem', 'ExprOp', 'ExprCond', 'ExprSlice', 'ExprCompose'):
        if c in dk:
            R4.ok('deal_class[%s]' % c, nontrivial=False)
        else:
            R4.violation('deal_class[%s]' % c, 'deal_class:%s' % c, 'eval_expr_no_cache has no evaluator for %s' % c, where(ea, enc))

    R5 = report.rule('C06.D5', 'each constant evaluator uses the arithmetic its operator names (operator token, rotation ring size)', floor=14)
    FOLD = {'+': 'Add', '*': 'Mult', '&': 'BitAnd', '|': 'BitOr', '^': 'BitXor'}
    BINARY = {'<<': 'LShift', '>>': 'RShift'}
    CMP = {'==': 'Eq', '<': 'Lt'}
    ROT = {'<<<': ('LShift', 0), '>>>': ('RShift', 0), '<<<c_rez': ('LShift', 1), '<<<c_cf': ('LShift', 1), '>>>c_rez': ('RShift', 1), '>>>c_cf': ('RShift', 1)}

    def resolve(fn):
        """follow `return self.eval_op_x(args, ..) >> 1` style delegation to the evaluator that does the arithmetic"""
        for n in ast.walk(fn):
            if isinstance(n, ast.Call) and isinstance(n.func, ast.Attribute) and u(n.func.value) == 'self' and n.func.attr in methods and n.func.attr.startswith('eval_op'):
                return methods[n.func.attr]
        return fn
    for op in sorted(deal):
        fn0 = methods.get(deal[op])
        if fn0 is None:
            continue
        inst = 'denotation %r (%s)' % (op, deal[op])
        if op in ('<<', '>>', 'a>>'):
            problems_, n_vec_ = shift_denotation(ea, methods, fn0, op)
            if problems_:
                R5.violation(inst + ':evaluated', 'denot:%s:%s' % (op, problems_[0][0]), '%s (operator %r): %s' % (fn0.name, op, '; '.join(p_[1] for p_ in problems_[:2])), where(ea, fn0),
                             witness='shrd eax, ebx, cl with cl = 0x20' )
            else:
                R5.ok(inst + ':evaluated', sample='%r: %s agrees with the IR meaning (a count of at least the width shifts every bit out) on %d vectors (evaluated)' % (op, fn0.name, n_vec_))
        # contradiction rule: operands are unsigned modular integers (uintN); a sign decision made by comparing one with 0
        # is constant, so one branch of the evaluator is dead and the other handles both signs
        for n in ast.walk(fn0):
            if isinstance(n, ast.Compare) and len(n.ops) == 1 and isinstance(n.ops[0], (ast.Lt, ast.GtE)) and u(n.left).startswith('args[') \
                    and isinstance(n.left, ast.Subscript) and isinstance(n.comparators[0], ast.Constant) and n.comparators[0].value == 0:
                R5.violation(inst + ':sign', 'denot:%s:sign-test-on-unsigned' % op,
                             '%s decides the sign of %s with `%s`: operands are unsigned fixed-width integers, the test is constant' % (deal[op], u(n.left), u(n)),
                             where(ea, n), witness="ExprOp(%r, ExprInt32(0x80000000), ExprInt32(4)) evaluates as a logical shift" % op)
        if op in FOLD:
            rets, folds, ok = straightline(fn0)
            if folds and folds[0][0] == FOLD[op] and folds[0][1].replace(' ', '') == 'args[1:]' and folds[0][2] == 'args[0]':
                R5.ok(inst, sample='%r folds args with python %s' % (op, FOLD[op]))
            else:
                R5.violation(inst, 'denot:%s' % op, '%s does not fold all operands with the python operator %s starting from args[0] (found %s)' % (deal[op], FOLD[op], folds), where(ea, fn0))
        elif op == '-':
            rets, folds, ok = straightline(fn0)
            rt = [u(r).replace(' ', '') for r in rets]
            if 'args[0]-args[1]' in rt and '-args[0]' in rt:
                R5.ok(inst, sample="'-': args[0]-args[1] / -args[0]")
            else:
                R5.violation(inst, 'denot:-', '%s no longer returns args[0]-args[1] (binary) and -args[0] (unary): %s' % (deal[op], rt), where(ea, fn0))
        elif op in CMP:
            rets, folds, ok = straightline(fn0)
            good = False
            for r in rets:
                for n in ast.walk(r):
                    if isinstance(n, ast.Compare) and len(n.ops) == 1 and type(n.ops[0]).__name__ == CMP[op] and u(n.left) == 'args[0]' and u(n.comparators[0]) == 'args[1]':
                        good = u(r).replace(' ', '').startswith('[0,1][')
            if good:
                R5.ok(inst, sample='%r: [0, 1][int(args[0] %s args[1])]' % (op, op))
            else:
                R5.violation(inst, 'denot:%s' % op, '%s is not the 0/1 value of args[0] %s args[1]: %s' % (deal[op], op, [u(r) for r in rets]), where(ea, fn0))
        elif op in BINARY:
            rets, folds, ok = straightline(fn0)
            good = False
            for r in rets:
                if isinstance(r, ast.BinOp) and type(r.op).__name__ == BINARY[op] and 'args[0]' in u(r.left) and u(r.right).startswith('args[1]') \
                        and 'mymaxuint[op_size]' in u(r.left):
                    good = True
            bounded = any(isinstance(n, ast.If) and isinstance(n.test, ast.Compare) and len(n.test.ops) == 1 and isinstance(n.test.ops[0], (ast.GtE, ast.Gt))
                          and u(n.test.comparators[0]) == 'op_size' and any(isinstance(x, ast.Return) and isinstance(x.value, ast.Constant) and x.value.value == 0 for x in n.body)
                          for n in walk_no_nested(fn0))
            if good and op == '<<' and not bounded:
                R5.violation(inst + ':bound', 'denot:%s:unbounded-count' % op, '%s shifts by any constant count: a count of 2**32-1 builds an integer of 2**32 bits (seconds, gigabytes) before '
                             'it is reduced to the operand width' % deal[op], where(ea, fn0), witness="eval_expr(ExprOp(%r, a, ExprInt32(0xFFFFFFFF))) with a constant" % op)
            elif good and op == '<<':
                R5.ok(inst + ':bound', sample='%r: a count >= op_size gives 0 without shifting' % op)
            if good:
                R5.ok(inst, sample='%r: (args[0] & mask) %s args[1]' % (op, op))
            else:
                R5.violation(inst, 'denot:%s' % op, '%s is not (args[0] & mymaxuint[op_size]) %s args[1]: %s' % (deal[op], op, [u(r) for r in rets]), where(ea, fn0))
        elif op in ('*hi', '*lo'):
            rets, folds, ok = straightline(fn0)
            good = False
            for r in rets:
                t = u(r).replace(' ', '')
                if op == '*hi' and isinstance(r, ast.BinOp) and isinstance(r.op, ast.RShift) and lin(r.right) == {'op_size': 1} and isinstance(r.left, ast.BinOp) and isinstance(r.left.op, ast.Mult):
                    good = True
                if op == '*lo' and isinstance(r, ast.BinOp) and isinstance(r.op, ast.BitAnd) and u(r.right) == 'mymaxuint[op_size]' and isinstance(r.left, ast.BinOp) and isinstance(r.left.op, ast.Mult):
                    good = True
            if good:
                R5.ok(inst, sample='%r: product %s' % (op, '>> op_size' if op == '*hi' else '& mask'))
            else:
                R5.violation(inst, 'denot:%s' % op, '%s is not the %s half of the double-width product: %s' % (deal[op], 'high' if op == '*hi' else 'low', [u(r) for r in rets]), where(ea, fn0))
        elif op == '!':
            rets, folds, ok = straightline(fn0)
            good = any(isinstance(r, ast.BinOp) and isinstance(r.op, ast.BitXor) and u(r.left) == 'args[0]' and 'mymaxuint[op_size]' in u(r.right) for r in rets)
            if good:
                R5.ok(inst, sample="'!': args[0] ^ all-ones(op_size)")
            else:
                R5.violation(inst, 'denot:!', '%s is not args[0] ^ all-ones of op_size' % deal[op], where(ea, fn0))
        elif op in ROT:
            fn = resolve(fn0)
            direction, carry = ROT[op]
            rets, folds, ok = straightline(fn)
            problems = []
            if not rets:
                problems.append('no returned expression')
            for r in rets[:1]:
                # peel a final mask / widening cast around the OR of the two halves
                while True:
                    if isinstance(r, ast.BinOp) and isinstance(r.op, ast.BitAnd) and ('args[' in u(r.left)) != ('args[' in u(r.right)):
                        r = r.left if 'args[' in u(r.left) else r.right
                    elif isinstance(r, ast.Call) and len(r.args) == 1 and not r.keywords and u(r.func) in ('int', 'uint64', 'long'):
                        r = r.args[0]
                    else:
                        break
                if carry:
                    # the (op_size+1)-bit quantity must be built from widened operands: args[i] is a fixed-width modular integer
                    par = {}
                    for n in ast.walk(r):
                        for ch in ast.iter_child_nodes(n):
                            par[id(ch)] = n
                    for n in ast.walk(r):
                        if isinstance(n, ast.BinOp) and isinstance(n.op, ast.LShift):
                            for leaf in ast.walk(n.left):
                                if isinstance(leaf, ast.Subscript) and u(leaf.value) == 'args':
                                    pl, widened = par.get(id(leaf)), False
                                    while pl is not None and pl is not n:
                                        if isinstance(pl, ast.Call) and u(pl.func) in ('int', 'uint64', 'long'):
                                            widened = True
                                        pl = par.get(id(pl))
                                    if not widened:
                                        problems.append('operand %s is shifted left in its own fixed-width type (its top bit is lost before widening)' % u(leaf))
                    problems = sorted(set(problems))
                    if problems:
                        break
                if not (isinstance(r, ast.BinOp) and isinstance(r.op, ast.BitOr)):
                    problems.append('result is not the OR of two shifted halves')
                    break
                halves = []
                for side in (r.left, r.right):
                    sh = [n for n in ast.walk(side) if isinstance(n, ast.BinOp) and isinstance(n.op, (ast.LShift, ast.RShift)) and not (isinstance(n.right, ast.Constant))]
                    if len(sh) != 1:
                        problems.append('half %s does not contain exactly one variable shift' % u(side)[:60])
                        break
                    halves.append(sh[0])
                if problems:
                    break
                kinds = sorted(type(h.op).__name__ for h in halves)
                if kinds != ['LShift', 'RShift']:
                    problems.append('the two halves shift in the same direction')
                    break
                mods = [n for n in ast.walk(r) if isinstance(n, ast.BinOp) and isinstance(n.op, ast.Mod)]
                if not mods:
                    problems.append('the rotation count is not reduced modulo the ring size')
                    break
                modulus = lin(mods[0].right)
                count = u(mods[0])
                ring = {'op_size': 1}
                if carry:
                    ring[1] = 1
                uses_carry = 'args[2]' in u(r)
                if bool(carry) != uses_carry:
                    problems.append('carry operand args[2] is %s' % ('missing' if carry else 'unexpected'))
                if modulus != ring:
                    problems.append('count is reduced modulo %s, the ring has %s positions' % (show(modulus), show(ring)))
                total = lin_add(lin(halves[0].right), lin(halves[1].right))
                # replace the count symbol
                total_wo = dict((k, c) for k, c in total.items() if k != count)
                if total.get(count, 0) != 0 or total_wo != ring:
                    problems.append('the two shift amounts add up to %s instead of the ring size %s' % (show(total).replace(count, 'r'), show(ring)))
                main = [h for h in halves if lin(h.right) == {count: 1}]
                if not main or type(main[0].op).__name__ != direction:
                    problems.append('the half shifted by the count goes %s, operator %r rotates %s' % (type(main[0].op).__name__ if main else '?', op, direction))
                if 'args[1] & 31' not in count and 'args[1] & 0x1f' not in count.lower():
                    problems.append('count is not args[1] & 0x1F')
            if problems:
                R5.violation(inst, 'denot:%s:%s' % (op, ';'.join(problems)[:100]), '%s: %s' % (fn.name, '; '.join(problems)), where(ea, fn),
                             witness='8-bit operand, constant count >= 9' if 'modulo' in ' '.join(problems) else None)
            else:
                R5.ok(inst, sample='%r: ring of %s positions, count mod ring, complementary shifts' % (op, 'op_size+1' if carry else 'op_size'))
        elif op == 'parity':
            parity_rule(R5, ea, hlp, methods, fn0, inst)
        elif arith_family(op):
            problems, n_vec = arith_denotation(ea, methods, fn0, op)
            if problems:
                R5.violation(inst, 'denot:%s:%s' % (op, problems[0][0]), '%s (operator %r): %s' % (fn0.name, op, '; '.join(p_[1] for p_ in problems[:3])), where(ea, fn0), witness=problems[0][2])
            else:
                R5.ok(inst, sample='%r: %s agrees with the integer definition on %d boundary vectors (evaluated)' % (op, fn0.name, n_vec))
        else:
            R5.ok(inst + ':not-judged', nontrivial=False)


def parity_rule(R5, ea, hlp, methods, fn0=None, inst="denotation 'parity'"):
    """x86 PF: parity of the LOW BYTE of the operand, in the evaluator (eval_abs.eval_op_parity -> eval_abs.parity) and in the simplifier's
    constant fold (expression_helper.parity): both functions are evaluated from their source on constants of every width, with bits set above
    bit 7 (shared with C05: the fold is a rewrite of the simplifier)."""
    from ..consteval import Evaluator as _Ev, NotConst as _NC, Obj as _Obj, PyRaise as _PR9
    if fn0 is None:
        fn0 = methods.get('eval_op_parity')
        if fn0 is None:
            raise AnalysisError('eval_abs.eval_op_parity not found')
    sib = hlp.funcs.get('parity')
    if sib is None:
        raise AnalysisError('expression_helper.parity not found')
    me = _Obj('self')
    me.__dict__['_methods'] = dict(methods)
    vals = [0, 1, 3, 7, 0x80, 0xff, 0x100, 0x101, 0x1ff, 0x8001, 0x10000, 0xffff, 0x12345678, 0xffffffff, 0x8000000000000001]
    problems = []
    from ..consteval import callables_of as _callables
    env_p = _callables(ea, [hlp])
    for who, call in (('eval_abs.%s' % fn0.name, lambda v: _Ev(dict(env_p)).call_user(fn0, [me, [v], 32, None])), ('expression_helper.parity', lambda v: _Ev(dict(hlp.funcs)).call_user(sib, [v]))):
        for v in vals:
            try:
                got = call(v)
            except _PR9 as e:
                problems.append('%s(%#x) raises %s (parity takes one operand)' % (who, v, e))
                break
            except _NC as e:
                raise AnalysisError('%s is outside the statically evaluable subset: %s' % (who, e))
            want = 1 - bin(v & 0xFF).count('1') % 2
            if got != want:
                problems.append('%s(%#x) is %r; the x86 parity flag of the low byte is %d' % (who, v, got, want))
                break
    if problems:
        R5.violation(inst, 'denot:parity:%s' % problems[0].split('(')[0], 'parity is the x86 PF (even parity of the low byte of its operand, whatever the width): %s' % '; '.join(problems),
                     where(ea if problems[0].startswith('eval_abs') else hlp, fn0 if problems[0].startswith('eval_abs') else sib), witness='parity(0x100) must be 1')
    else:
        R5.ok(inst, sample="'parity': eval_abs and expression_helper.parity give the parity of the low byte on %d constants of all widths" % len(vals))


def arith_family(op):
    import re
    m = re.match(r'^(div|rem|idiv|irem)(8|16|32)$|^(umul|imul)(16|32)_(hi|lo)$', op)
    if not m:
        return None
    if m.group(1):
        return m.group(1), int(m.group(2))
    return m.group(3) + '_' + m.group(5), int(m.group(4))


def shift_denotation(ea, methods, fn, op):
    """The constant evaluator of << / >> / a>> evaluated from its source on fixed-width operands (model of modint.py) of 8, 16 and 32 bits and counts below, at and above the
    width (same width and 8-bit counts): the IR shifts are not masked -- the simplifier folds x << 32 to 0 and the lifter's shrd relies on it."""
    from ..consteval import Evaluator as _Ev, NotConst as _NC, Obj as _Obj, PyRaise as _PR
    from .. import simpeval as SE
    env = {'mymaxuint': {1: 1, 8: 0xFF, 16: 0xFFFF, 32: 0xFFFFFFFF, 64: 0xFFFFFFFFFFFFFFFF}}
    env.update(SE.INT_CLASSES)
    me = _Obj('self')
    me.__dict__['_methods'] = dict(methods)
    problems, n_vec = [], 0
    for w in (8, 16, 32):
        m = (1 << w) - 1
        for a in (0, 1, m, 1 << (w - 1), (1 << (w - 1)) - 1, 0x5A & m, 0xDEADBEEF & m):
            for cw in (w, 8):
                for cnt in (0, 1, w - 1, w, w + 1, 2 * w, 0x20, 0x40, 0xFF):
                    if cnt >= (1 << cw):
                        continue
                    if op == '<<':
                        want = (a << cnt) & m if cnt < w else 0
                    elif op == '>>':
                        want = a >> cnt if cnt < w else 0
                    else:
                        sv = a - (1 << w) if a >> (w - 1) else a
                        want = (sv >> min(cnt, w)) & m
                    try:
                        got = _Ev(dict(env)).call_user(fn, [me, [SE.U[w](a), SE.U[cw](cnt)], w, SE.U[w]])
                    except _PR as e:
                        problems.append(('raises', '%#x %s %d on %d bits raises %s' % (a, op, cnt, w, e.exc_name), None))
                        continue
                    except _NC as e:
                        from ..core import AnalysisError as _AE
                        raise _AE('%s is outside the statically evaluable subset: %s' % (fn.name, e))
                    n_vec += 1
                    if not isinstance(got, int) or (int(got) & m) != want:
                        problems.append(('value', '%#x %s %d on %d bits gives %s, the operator means %#x' % (a, op, cnt, w, hex(int(got) & m) if isinstance(got, int) else repr(got), want), None))
                        if len(problems) > 3:
                            return problems, n_vec
    return problems, n_vec


def arith_denotation(ea, methods, fn, op):
    """Evaluate a constant evaluator of the division / multiplication family from its source on boundary vectors and compare with the
    integer definition of the IA-32 operation (quotient truncated toward zero, #DE conditions, halves of the double-width product)."""
    from ..consteval import Evaluator as _Ev, NotConst as _NC, Obj as _Obj, Native as _Nat, PyRaise as _PR
    kind, n = arith_family(op)
    mask = (1 << n) - 1

    def sgn(v, bits):
        v &= (1 << bits) - 1
        return v - (1 << bits) if v >> (bits - 1) else v

    def ref(args):
        if kind in ('div', 'rem'):
            hi, lo, c = args
            if c == 0:
                return 'raise'
            big = (hi << n) | lo
            if big // c > mask:
                return 'raise'
            return (big // c) if kind == 'div' else (big % c)
        if kind in ('idiv', 'irem'):
            hi, lo, c = args
            big, cs = sgn((hi << n) | lo, 2 * n), sgn(c, n)
            if cs == 0:
                return 'raise'
            q = abs(big) // abs(cs)
            if (big < 0) != (cs < 0):
                q = -q
            if not -(1 << (n - 1)) <= q <= (1 << (n - 1)) - 1:
                return 'raise'
            return (q & mask) if kind == 'idiv' else ((big - q * cs) & mask)
        a, b = args
        if kind.startswith('umul'):
            p_ = a * b
        else:
            p_ = sgn(a, n) * sgn(b, n)
        return ((p_ >> n) & mask) if kind.endswith('hi') else (p_ & mask)
    vals = sorted(set([0, 1, 2, 3, 7, (1 << (n - 1)) - 1, 1 << (n - 1), mask, mask - 1, 0x55555555 & mask, (1 << (n - 1)) + 1]))
    arity = 3 if kind in ('div', 'rem', 'idiv', 'irem') else 2
    env = {'mymaxuint': {1: 1, 8: 0xFF, 16: 0xFFFF, 32: 0xFFFFFFFF, 64: 0xFFFFFFFFFFFFFFFF},
           'uint64': _Nat(lambda v: int(v) & 0xFFFFFFFFFFFFFFFF), 'int64': _Nat(lambda v: sgn(int(v), 64)),
           'uint32': _Nat(lambda v: int(v) & 0xFFFFFFFF), 'abs': _Nat(abs), 'int': _Nat(int)}
    me = _Obj('self')
    me.__dict__['_methods'] = dict(methods)
    problems = []
    n_vec = 0
    import itertools
    for args in itertools.product(vals, repeat=arity):
        want = ref(args)
        ev = _Ev(dict(env))
        try:
            got = ev.call_user(fn, [me, list(args), n, None])
            if isinstance(got, int):
                got &= mask
        except _PR as e:
            got = 'raise' if getattr(e, 'exc_name', None) == 'ValueError' or 'ValueError' in str(e) else 'raise:%s' % e
        except _NC as e:
            from ..core import AnalysisError as _AE
            raise _AE('%s is outside the statically evaluable subset: %s' % (fn.name, e))
        n_vec += 1
        if got != want:
            problems.append(('value', '%s%s of width %d gives %s, the integer definition gives %s' % (op, tuple(hex(a_) for a_ in args), n, hex(got) if isinstance(got, int) else got,
                                                                                             hex(want) if isinstance(want, int) else want),
                             'eval_expr(ExprOp(%r, %s)) on constants' % (op, ', '.join(hex(a_) for a_ in args))))
            if len(problems) >= 3:
                break
    return problems, n_vec


def compose_fold_rule(R, ea, ec):
    from ..consteval import Evaluator as _Ev, NotConst as _NC, Obj as _Obj, Native as _Nat, PyRaise as _PR

    class Kind(_Nat):
        def __init__(self, k, fn):
            _Nat.__init__(self, fn)
            self.k = k

    def mk(kind, **kw):
        o = _Obj(kind)
        o.__dict__['_kind'] = kind
        for k, v in kw.items():
            setattr(o, k, v)
        return o

    def isinst(o, k):
        k = k.k if isinstance(k, Kind) else k
        return isinstance(o, _Obj) and o.__dict__.get('_kind') == k
    env = {'isinstance': _Nat(isinst)}
    env['ExprInt'] = Kind('ExprInt', lambda v: mk('ExprInt', arg=v))
    env['ExprCond'] = Kind('ExprCond', lambda c, a, b: mk('ExprCond', cond=c, src1=a, src2=b))
    env['ExprCompose'] = Kind('ExprCompose', lambda l: mk('ExprCompose', args=list(l)))
    env['ExprTop'] = Kind('ExprTop', lambda: mk('ExprTop'))
    env['ExprSlice'] = Kind('ExprSlice', lambda a, s_, e_: mk('ExprSlice', arg=a, start=s_, stop=e_))
    for k in ('ExprId', 'ExprMem', 'ExprOp'):
        env[k] = Kind(k, lambda *a: mk('other'))
    env['tab_uintsize'] = dict((n, _Nat(lambda v, n=n: v & ((1 << n) - 1))) for n in (1, 8, 16, 32, 64))
    for k_, f_ in ea.funcs.items():
        env.setdefault(k_, f_)            # module-level helpers the method calls by name
    me = _Obj('self')
    me.eval_expr = _Nat(lambda x, c=None: x)
    zf = mk('ExprId', name='zf')

    def const(v):
        return mk('ExprInt', arg=v)

    def cslice(v, a, b):
        return mk('ExprSlice', arg=const(v), start=a, stop=b)
    COND = 'cond'
    layouts = [
        ('cond lowest', [(COND, 0, 8), (0x123456, 8, 32)]),
        ('cond highest', [(0x5678, 0, 16), (COND, 16, 32)]),
        ('cond in the middle', [(0x78, 0, 8), (COND, 8, 16), (0x1234, 16, 32)]),
        ('cond lowest, two constants above', [(COND, 0, 8), (0x56, 8, 16), (0x1234, 16, 32)]),
        ('all constants', [(0x78, 0, 8), (0x56, 8, 16), (0x1234, 16, 32)]),
        ('constant slice above a constant', [(0x10, 0, 8), (('slice', 0x12345678, 8, 32), 8, 32)]),
        ('cond lowest, constant slice above', [(COND, 0, 8), (('slice', 0x12345678, 8, 32), 8, 32)]),
    ]
    for label, pieces in layouts:
        args, want1, want0 = [], 0, 0
        has_cond = False
        for val, a, b in pieces:
            if val == COND:
                has_cond = True
                args.append((mk('ExprCond', cond=zf, src1=const(1), src2=const(0)), a, b))
                want1 |= 1 << a
            elif isinstance(val, tuple):
                _, v, sa, sb = val
                args.append((cslice(v, sa, sb), a, b))
                piece = (v >> sa) & ((1 << (sb - sa)) - 1)
                want1 |= piece << a
                want0 |= piece << a
            else:
                args.append((const(val), a, b))
                want1 |= val << a
                want0 |= val << a
        e = mk('ExprCompose', args=args)
        inst = 'eval_ExprCompose[%s]' % label
        try:
            r = _Ev(env).call_user(ec, [me, e, {}])
        except _PR as ex:
            R.violation(inst, 'compose-fold:%s:raises:%s' % (label, ex.exc_name), 'eval_ExprCompose raises %s on a composition with %s' % (ex.exc_name, label), where(ea, ec))
            continue
        except _NC as ex:
            raise AnalysisError('eval_ExprCompose is outside the statically evaluable subset (%s): %s' % (label, ex))
        kind = r.__dict__.get('_kind') if isinstance(r, _Obj) else None
        if has_cond:
            ok = kind == 'ExprCond' and r.cond is zf and isinst(r.src1, 'ExprInt') and isinst(r.src2, 'ExprInt') and (r.src1.arg, r.src2.arg) == (want1, want0)
            got = '%s?(%#x,%#x)' % ('zf', r.src1.arg, r.src2.arg) if kind == 'ExprCond' and isinst(r.src1, 'ExprInt') else str(kind)
            want = 'zf?(%#x,%#x)' % (want1, want0)
        else:
            ok = kind == 'ExprInt' and r.arg == want1
            got = ('%#x' % r.arg) if kind == 'ExprInt' else str(kind)
            want = '%#x' % want1
        if ok:
            R.ok(inst, sample='%s -> %s' % (label, got))
        else:
            R.violation(inst, 'compose-fold:%s' % label, 'eval_ExprCompose folds a composition with %s to %s; the concatenation of the pieces is %s' % (label, got, want),
                        where(ea, ec), witness="setz al with eax = 0x12345678: eax evaluates to zf?(0x1,0x0)" if 'cond lowest' in label else None)


def mem_read_fold_rule(R, ea, methods):
    """A memory read assembled from pieces of stored cells (eval_ExprMem) is a constant when every piece is one: the assembled
    composition must go through a helper that folds integer pieces and slices of integers (no ExprInt exists for a 24-bit remainder),
    and that helper is evaluated on such pieces."""
    from ..consteval import Evaluator as _Ev, NotConst as _NC, Obj as _Obj, Native as _Nat, PyRaise as _PR
    em = methods.get('eval_ExprMem')
    if em is None:
        raise AnalysisError('eval_abs.eval_ExprMem not found')
    asm = None
    for n in walk_no_nested(em):
        if isinstance(n, ast.Assign) and isinstance(n.value, ast.Call) and u(n.value.func) == 'ExprSlice' and n.value.args and u(n.value.args[0]).startswith('ExprCompose('):
            asm = n
    if asm is None:
        raise AnalysisError('eval_ExprMem: the assembly of an overlapping read (ExprSlice(ExprCompose(pieces), ..)) was not found')
    pieces_name = u(asm.value.args[0].args[0]) if isinstance(asm.value.args[0], ast.Call) and asm.value.args[0].args else None
    blk = parent(asm).body
    idx = blk.index(asm)
    helper = None
    for st in blk[:idx]:
        if isinstance(st, ast.Assign) and isinstance(st.value, ast.Call) and isinstance(st.value.func, ast.Attribute) and u(st.value.func.value) == 'self' \
                and st.value.func.attr in methods and st.value.args and u(st.value.args[0]) == pieces_name:
            tgt = u(st.targets[0])
            guard = [g for g in blk[blk.index(st):idx] if isinstance(g, ast.If) and u(g.test).replace(' ', '') == '%sisnotNone' % tgt
                     and any(isinstance(x, ast.Return) and u(x.value) == tgt for x in g.body)]
            if guard:
                helper = methods[st.value.func.attr]
    inst = 'eval_ExprMem:assembled-read'
    if helper is None:
        R.violation(inst, 'mem-read-fold:none', 'eval_ExprMem returns the composition of the pieces of an overlapping read without folding constant pieces: a 32-bit read over a byte store and '
                    'the 24-bit remainder of a constant cell stays (0x6B,0,8, 0x0[8:32],8,32), and arithmetic on it is not computed', where(ea, asm),
                    witness='add BYTE PTR [esi], cl; imul edx, DWORD PTR [esi] with constant memory')
        return

    def mk(kind, **kw):
        o = _Obj(kind)
        o.__dict__['_kind'] = kind
        for k, v in kw.items():
            setattr(o, k, v)
        return o

    class Kind(_Nat):
        def __init__(self, k, fn):
            _Nat.__init__(self, fn)
            self.k = k

    def isinst(o, k):
        k = k.k if isinstance(k, Kind) else k
        return isinstance(o, _Obj) and o.__dict__.get('_kind') == k
    env = {'isinstance': _Nat(isinst), 'ExprInt': Kind('ExprInt', lambda v: mk('ExprInt', arg=v)),
           'ExprSlice': Kind('ExprSlice', lambda a, s_, e_: mk('ExprSlice', arg=a, start=s_, stop=e_)),
           'tab_uintsize': dict((n, _Nat(lambda v, n=n: v & ((1 << n) - 1))) for n in (1, 8, 16, 32, 64)), 'int': _Nat(int)}
    const = lambda v: mk('ExprInt', arg=v)
    cslice = lambda v, a, b: mk('ExprSlice', arg=const(v), start=a, stop=b)
    cases = [('byte over a constant cell', [(const(0x6B), 0, 8), (cslice(0x11223344, 8, 32), 8, 32)], 32, 0x1122336B),
             ('misaligned read over two cells', [(cslice(0xAABBCCDD, 24, 32), 0, 8), (cslice(0x11223344, 0, 24), 8, 32)], 32, 0x223344AA),
             ('a symbolic piece', [(const(0x6B), 0, 8), (mk('ExprId', name='x'), 8, 32)], 32, None)]
    me = _Obj('self')
    me.__dict__['_methods'] = dict(methods)
    for label, pieces, size, want in cases:
        try:
            r = _Ev(env).call_user(helper, [me, pieces, size])
        except _NC as ex:
            raise AnalysisError('%s is outside the statically evaluable subset (%s): %s' % (helper.name, label, ex))
        got = r.arg if isinst(r, 'ExprInt') else (None if r is None else 'non-constant')
        i2 = '%s[%s]' % (helper.name, label)
        if got == want:
            R.ok(i2, sample='%s: %s -> %s' % (helper.name, label, hex(got) if isinstance(got, int) else got))
        else:
            R.violation(i2, 'mem-read-fold:%s' % label, '%s gives %s for %s, the concatenation of the pieces is %s' % (helper.name, hex(got) if isinstance(got, int) else got, label,
                                                                                                              hex(want) if want is not None else 'not a constant'), where(ea, helper))


def addr_width_rule(R, ea, methods):
    """get_mem_overlapping, find_mem_by_addr, substract_mems and the read assembly compute neighbouring addresses as <address> + ExprInt(uint32(k)) /
    ExprInt32(k).  The lifter gives a memory operand under the 16-bit address size a 16-bit address (bx+si, the string registers si/di): such an address
    must be widened (zero extension, as the segment arithmetic of IA-32 does) where it enters the memory model - eval_ExprMem for reads, get_instr_mod for
    stores - or every `mov al, [bx+si]` ends in `diff size!`."""
    fixed = []
    for name, fn in sorted(methods.items()):
        for n in walk_no_nested(fn):
            if isinstance(n, ast.Call) and u(n.func) in ('ExprInt32',) or (isinstance(n, ast.Call) and u(n.func) == 'ExprInt' and n.args and isinstance(n.args[0], ast.Call)
                                                                           and u(n.args[0].func) == 'uint32'):
                p_ = parent(n)
                is_add = (isinstance(p_, ast.BinOp) and isinstance(p_.op, (ast.Add, ast.Sub))) or \
                    (isinstance(p_, ast.Call) and u(p_.func) == 'ExprOp' and p_.args and isinstance(p_.args[0], ast.Constant) and p_.args[0].value in ('+', '-'))
                if is_add and any(isinstance(x, ast.Attribute) and x.attr == 'arg' or isinstance(x, ast.Name) and x.id in ('a_val', 'ptr') for x in ast.walk(p_)):
                    fixed.append((name, n))
    if not fixed:
        R.ok('memory model: address arithmetic', sample='no 32-bit constant is added to a cell address')
        return
    R.ok('memory model: address arithmetic', sample='%d additions of a 32-bit constant to a cell address (%s)' % (len(fixed), ', '.join(sorted(set(f for f, _ in fixed)))))
    # wideners: methods / functions that pad a 16-bit expression to 32 bits
    wideners = set()
    for name, fn in list(methods.items()) + list(ea.funcs.items()):
        txt = u(fn)
        if 'ExprCompose' in txt and 'get_size()' in txt and any(isinstance(c, ast.Constant) and c.value == 16 for c in ast.walk(fn)) \
                and any(isinstance(c, ast.Constant) and c.value == 32 for c in ast.walk(fn)) and len(fn.body) <= 12:
            wideners.add(name)
    for entry in ('eval_ExprMem', 'get_instr_mod'):
        fn = methods.get(entry)
        if fn is None:
            raise AnalysisError('eval_abs.%s not found' % entry)
        # the cell built from an evaluated address: ExprMem(<local>, ..) where the local comes from eval_expr (whatever the local is called)
        evaluated = set()
        assigns_ = [n for n in walk_no_nested(fn) if isinstance(n, ast.Assign) and len(n.targets) == 1 and isinstance(n.targets[0], ast.Name)]
        changed_ = True
        while changed_:
            changed_ = False
            for n in assigns_:
                t_ = n.targets[0].id
                if t_ in evaluated:
                    continue
                if any(isinstance(c, ast.Call) and u(c.func).split('.')[-1].startswith('eval_expr') for c in ast.walk(n.value)) or \
                        any(isinstance(x, ast.Name) and x.id in evaluated for x in ast.walk(n.value)):
                    evaluated.add(t_)
                    changed_ = True
        cells = [n for n in walk_no_nested(fn) if isinstance(n, ast.Call) and u(n.func) == 'ExprMem' and n.args and isinstance(n.args[0], ast.Name) and n.args[0].id in evaluated]
        if not cells:
            raise AnalysisError('%s no longer builds ExprMem(<evaluated address>, ..)' % entry)
        def widened_name(v, before, depth=0):
            for n in assigns_:
                if n.targets[0].id == v and n.lineno < before:
                    if any(isinstance(c, ast.Call) and (u(c.func).split('.')[-1] in wideners) for c in ast.walk(n.value)):
                        return n
                    if depth < 3:
                        for x in ast.walk(n.value):
                            if isinstance(x, ast.Name) and x.id != v and x.id in evaluated:
                                r_ = widened_name(x.id, n.lineno + 1, depth + 1)
                                if r_ is not None:
                                    return r_
            return None
        per_cell = [(c, widened_name(c.args[0].id, c.lineno + 1)) for c in cells]
        unw = [c for c, w_ in per_cell if w_ is None]
        var = (unw[0] if unw else cells[0]).args[0].id
        widened = [] if unw else [per_cell[0][1]]
        if unw:
            cells = unw
        inst = '%s: address of the cell' % entry
        if widened:
            R.ok(inst, sample='%s widens the evaluated address (%s) before it builds the cell' % (entry, norm(widened[0])))
        else:
            R.violation(inst, 'addr-width:%s' % entry, '%s builds the cell ExprMem(%s, ..) from the evaluated address as it is; under the 16-bit address size the lifter gives a 16-bit '
                        'address, and the memory model adds 32-bit constants to it (%s): ValueError(diff size!) instead of a value' % (entry, var, ', '.join(sorted(set(f for f, _ in fixed)))),
                        where(ea, cells[0]), witness="emulating 67 8a 00 (mov al, [bx+si]) with ebx = 0x1000, esi = 0x20 raises ValueError('diff size! (0x1020+0xFFFFFFF9) 16 32')")


def cond_eval_rule(ctx, R):
    """eval_abs.eval_ExprCond(e) with self.eval_expr replaced by a table (the operands arrive already evaluated): its result is compared, by value on the valuations of the simplifier
    family, with `src1 if cond != 0 else src2`.  A folding rule for conditions of a particular shape has to hold for every constant it matches."""
    from .. import simpeval as SE
    from ..consteval import Obj, PyRaise, Native
    run = SE.results(ctx)['run']
    ea = ctx.mod('eval_abs')
    fn = ea.methods('eval_abs').get('eval_ExprCond')
    if fn is None:
        raise AnalysisError('eval_abs.eval_ExprCond not found')
    A = SE.atoms()
    x, y, z, f, b = A['x'], A['y'], A['z'], A['f'], A['b']
    Top = type('ExprTop', (SE.Node,), {'FIELDS': (), 'KIND': 'Top'})
    scope = dict(run.scope)
    scope.setdefault('ExprTop', Top)
    conds = [('constant 0', SE.C(0)), ('constant 1', SE.C(1)), ('constant 5', SE.C(5)), ('1-bit constant 0', SE.C(0, 1)), ('1-bit constant 1', SE.C(1, 1)),
             ('symbolic 32-bit', z), ('symbolic flag', f), ('comparison', SE.Op('==', z, SE.C(0x80)))]
    for k1 in (0, 1, 5):
        for k2 in (0, 1, 5):
            conds.append(('z ? %d : %d' % (k1, k2), SE.ExprCond(z, SE.C(k1), SE.C(k2))))
            conds.append(('f ? %d : %d (8 bits)' % (k1, k2), SE.ExprCond(f, SE.C(k1, 8), SE.C(k2, 8))))
    conds.append(('z ? b : 0', SE.ExprCond(z, b, SE.C(0, 8))))
    conds.append(('(z ? 0 : 0) nested', SE.ExprCond(SE.ExprCond(f, z, SE.C(0)), SE.C(0), SE.C(0))))
    envs = SE.valuations()
    for label, cv in conds:
        e_cond, e1, e2 = SE.ExprId('cond_in', SE.size_of(cv)), SE.ExprId('s1_in', 32), SE.ExprId('s2_in', 32)
        table = {id(e_cond): cv, id(e1): x, id(e2): y}
        me = Obj('self')
        me.eval_expr = Native(lambda e_, cache=None, _t=table: _t.get(id(e_), e_))
        inst = 'eval_ExprCond[%s]' % label
        try:
            out = Evaluator(scope).call_user(fn, [me, SE.ExprCond(e_cond, e1, e2)])
        except PyRaise as e:
            R.violation(inst, 'cond-eval:raises:%s' % e.exc_name, 'eval_ExprCond raises %s when the condition evaluates to %s' % (e.exc_name, SE.show(cv)), where(ea, fn))
            continue
        except NotConst as e:
            raise AnalysisError('eval_abs.eval_ExprCond is outside the evaluable subset: %s' % e)
        bad = None
        for env in envs:
            try:
                want = SE.value(x, env) if SE.value(cv, env) != 0 else SE.value(y, env)
                got = SE.value(out, env)
            except (SE.IllTyped, ValueError, TypeError, AttributeError) as e:
                bad = 'the result %s is malformed (%s)' % (SE.show(out) if isinstance(out, SE.Node) else repr(out), e)
                break
            if got != want:
                bad = 'the result %s has the value %#x for z=%#x, f=%d, x=%#x, y=%#x; the selected arm has %#x' % (SE.show(out), got, env['z'], env['f'] & 1, env['x'], env['y'], want)
                break
        if bad:
            R.violation(inst, 'cond-eval:%s' % ('arms-const' if '?' in label else label.split()[0]), 'eval_ExprCond with the condition evaluated to %s (arms x, y): %s' % (SE.show(cv), bad),
                        where(ea, fn), witness='a condition whose arms both evaluate to 0')
        else:
            R.ok(inst, sample='condition %s: %s' % (SE.show(cv), SE.show(out)))



def op_eval_rule(ctx, R, ea, methods, deal, no_check):
    """eval_abs.eval_ExprOp interpreted as a whole on constant operands (self.eval_expr answers with its argument, the class tables deal_op / op_size_no_check are the
    evaluated ones).  For the shift / rotate operators, whose count (and carry) may be narrower or wider than the value: the result is a constant of the width of the
    VALUE (the first operand) and equals what the operator's own evaluator gives in that width.  For every interpreted operator on operands of one width: the result
    has that width.  This replaces reading the type check of eval_ExprOp by its text (which stopped the analysis when the check moved into a helper)."""
    from .. import simpeval as SE
    from ..consteval import Obj, PyRaise, Native
    run = SE.results(ctx)['run']
    fn = methods.get('eval_ExprOp')
    if fn is None:
        raise AnalysisError('eval_abs.eval_ExprOp not found')
    scope = dict(run.scope)
    Top = type('ExprTop', (SE.Node,), {'FIELDS': (), 'KIND': 'Top'})
    scope.setdefault('ExprTop', Top)
    scope.update(SE.INT_CLASSES)
    scope['expr_simp'] = Native(lambda e_: e_)
    for st in ea.tree.body:
        if isinstance(st, ast.Assign) and len(st.targets) == 1 and isinstance(st.targets[0], ast.Name) and st.targets[0].id in ('tab_int_size', 'tab_intsize', 'tab_uintsize', 'mymaxuint', 'tab_max_uint'):
            try:
                scope[st.targets[0].id] = Evaluator(dict(SE.INT_CLASSES)).ev(st.value)
            except NotConst as e:
                raise AnalysisError('eval_abs.%s is not statically evaluable: %s' % (st.targets[0].id, e))
    for fname_, fnode_ in ea.funcs.items():
        scope.setdefault(fname_, fnode_)

    def machine():
        me = Obj('self')
        me.__dict__['_methods'] = dict((k, v) for k, v in methods.items() if k not in ('eval_expr', 'eval_expr_no_cache'))
        me.eval_expr = Native(lambda e_, cache=None: e_)
        me.deal_op = dict((op, methods[name]) for op, name in deal.items() if name in methods)
        me.op_size_no_check = list(no_check)
        # the other class-level constants of eval_abs (tables of operator names ...)
        for st_ in ea.cls('eval_abs').body:
            if isinstance(st_, ast.Assign) and len(st_.targets) == 1 and isinstance(st_.targets[0], ast.Name) and isinstance(st_.value, (ast.List, ast.Tuple, ast.Dict, ast.Set, ast.Constant)) \
                    and st_.targets[0].id not in me.__dict__['_attrs']:
                try:
                    setattr(me, st_.targets[0].id, Evaluator({}).ev(st_.value))
                except NotConst:
                    pass
        return me

    def run_op(e, lenient=False):
        try:
            return 'ok', Evaluator(scope).call_user(fn, [machine(), e])
        except PyRaise as ex:
            return 'raises', ex.exc_name
        except NotConst as ex:
            if lenient:
                return 'limit', str(ex)         # an operator that takes another number of operands
            raise AnalysisError('eval_abs.eval_ExprOp is outside the evaluable subset on %s: %s' % (SE.show(e), ex))
    shifts = [op for op in ('<<', '>>', 'a>>', '<<<', '>>>') if op in deal and op in no_check]
    if len(shifts) < 3:
        raise AnalysisError('eval_ExprOp: fewer than three shift / rotate operators are interpreted and exempt from the operand-type check')
    n = 0
    for op in shifts:
        bad = None
        for w, cw in ((8, 8), (16, 8), (32, 8), (16, 32), (8, 32), (32, 32), (8, 16)):
            m = (1 << w) - 1
            for a in (1, m, 1 << (w - 1), 0x8001 & m, 0x5A & m):
                for cnt in (0, 1, w - 1):
                    n += 1
                    e = SE.Op(op, SE.C(a, w), SE.C(cnt, cw))
                    st, out = run_op(e)
                    try:
                        want = Evaluator(dict(scope)).call_user(methods[deal[op]], [machine(), [SE.U[w](a), SE.U[cw](cnt)], w, SE.U[w]])
                        want = int(want) & m
                    except (PyRaise, NotConst):
                        continue
                    if st != 'ok':
                        bad = bad or '%s raises %s' % (SE.show(e), out)
                    elif not (isinstance(out, SE.Node) and out.KIND == 'Int'):
                        bad = bad or '%s is not evaluated to a constant (%s)' % (SE.show(e), SE.show(out) if isinstance(out, SE.Node) else repr(out))
                    elif SE.size_of(out) != w or int(out.f('arg')) != want:
                        bad = bad or '%s (a %d-bit value, a %d-bit count) evaluates to %s; the operator gives the %d-bit constant %#x' % (SE.show(e), w, cw, SE.show(out), w, want)
        inst = 'eval_ExprOp %r on mixed widths' % op
        if bad:
            R.violation(inst, 'op-eval:%s:mixed-width' % op, 'eval_ExprOp: %s' % bad, where(ea, fn), witness='test eax,eax ; rcl al,1 (the carry is kept as a 32-bit constant)')
        else:
            R.ok(inst, sample='%r: value width x count width in 7 pairs: the result is a constant of the value\'s width, equal to the operator\'s evaluator' % op, nontrivial=True)
    for op in sorted(deal):
        if deal[op] not in methods or op in shifts:
            continue
        widths = []
        for w in (8, 16, 32):
            st, out = run_op(SE.Op(op, SE.C(0x12 & ((1 << w) - 1), w), SE.C(3, w)), lenient=True)
            n += 1
            if st == 'ok' and isinstance(out, SE.Node) and out.KIND == 'Int' and SE.size_of(out) != w:
                widths.append((w, SE.size_of(out)))
        inst = 'eval_ExprOp %r result width' % op
        if widths:
            R.violation(inst, 'op-eval:%s:width' % op, 'eval_ExprOp(%r) on %d-bit constants gives a %d-bit constant' % ((op,) + widths[0]), where(ea, fn))
        else:
            R.ok(inst, nontrivial=False)
    R.note('eval_ExprOp interpreted on %d constant operations' % n)

MUTANTS = [
    ('pool-membership-ignores-width', 'miasmx/expression/expression_eval_abstract.py', '        return self.pool_mem[k][0].get_size() == a.get_size()', '        return True', 'C06.D16'),

    ('bigger-lookup-next-address-unsimplified', 'miasmx/expression/expression_eval_abstract.py', "                ptr = expr_simp(ExprOp('+', ptr, ExprInt(uint32(v.size//8))))", "                ptr = ExprOp('+', ptr, ExprInt(uint32(v.size//8)))", 'C06.D14'),
    ('cond-const-arms-swapped', 'miasmx/expression/expression_eval_abstract.py', '            if cond.arg == 0:\n                return src2\n            else:\n                return src1\n', '            if cond.arg == 0:\n                return src1\n            else:\n                return src2\n', 'C06.D13'),
    ('shift-eval-count-masked', 'miasmx/expression/expression_eval_abstract.py', "    def eval_op_rshift(self, args, op_size, cast_int):\n        r = args[1]#&0x1F", "    def eval_op_rshift(self, args, op_size, cast_int):\n        r = args[1]&0x1F", 'C06.D5'),
    ('mem-read-not-folded', 'miasmx/expression/expression_eval_abstract.py', "                    if ee is not None:\n                        # every piece is a constant: so is the cell\n                        return ee\n", "", 'C06.D6'),
    ('const-compose-no-slice-shift', 'miasmx/expression/expression_eval_abstract.py', "                v = int(x.arg.arg) >> x.start\n", "                v = int(x.arg.arg)\n", 'C06.D6'),
    ('idiv-floor', 'miasmx/expression/expression_eval_abstract.py', "        q = abs(big) // abs(c)\n        if (big < 0) != (c < 0):\n            q = -q\n", "        q = big // c\n", 'C06.D5'),
    ('div-no-overflow-check', 'miasmx/expression/expression_eval_abstract.py', "        ret_value = ((hi << op_size) + lo) // c\n        if ret_value > mymaxuint[op_size]:\n            raise ValueError('Divide Error')\n", "        ret_value = ((hi << op_size) + lo) // c\n", 'C06.D5'),
    ('imulhi-unsigned', 'miasmx/expression/expression_eval_abstract.py', "'imul16_hi':eval_op_imulhi, 'imul32_hi':eval_op_imulhi,", "'imul16_hi':eval_op_mulhi, 'imul32_hi':eval_op_mulhi,", 'C06.D5'),
    ('rcr-not-registered', 'miasmx/expression/expression_eval_abstract.py', "               '>>>c_rez':eval_op_rotr_wflag_rez,\n", "", 'C06.D1'),
    ('maxuint-no-1', 'miasmx/expression/expression_eval_abstract.py', "mymaxuint = {1:0x1,\n             8:0xFF,", "mymaxuint = {8:0xFF,", 'C06.D8'),
    ('mpool-raw-key', 'miasmx/expression/expression_eval_abstract.py', "        return expr_simp(a.arg)\n    def __contains__", "        return a.arg\n    def __contains__", 'C06.D7'),
    ('compose-no-const-slice', 'miasmx/expression/expression_eval_abstract.py', "            if isinstance(x, ExprSlice) and isinstance(x.arg, ExprInt):\n                return (int(x.arg.arg) >> x.start) & ((1<<(x.stop-x.start))-1)\n", "", 'C06.D6'),
    ('nocheck-misspelt', 'miasmx/expression/expression_eval_abstract.py', "    op_size_no_check = ['<<<', '>>>', 'a>>', '>>', '<<',", "    op_size_no_check = ['<<<', '>>>', 'a<<', '>>', '<<',", 'C06.D1'),
    ('rcl-narrow-shift', 'miasmx/expression/expression_eval_abstract.py', "        r = int(r)\n        tmpa = (int(args[0])<<1) | (int(args[2])&1)\n        rez = (tmpa<<r) | (tmpa >> (op_size+1-r))", "        r = int(r)\n        tmpa = int(args[0]<<1) | (int(args[2])&1)\n        rez = (tmpa<<r) | (tmpa >> (op_size+1-r))", 'C06.D5'),
    ('rol-of-fullwidth', 'miasmx/arch/ia32_sem.py', "    f.append(ExprAff(of, ExprOp(\"^\", get_op_msb(c), new_cf[0:1])))\n    e += unless_count_0(shifter, f)\n    e.append(ExprAff(a, c))\n    return e\n\ndef l_ror", "    f.append(ExprAff(of, ExprOp(\"^\", get_op_msb(c), new_cf)))\n    e += unless_count_0(shifter, f)\n    e.append(ExprAff(a, c))\n    return e\n\ndef l_ror", 'C06.D1'),
    ('no-xor', 'miasmx/expression/expression_eval_abstract.py', "               '^':eval_op_xor,\n", "", 'C06.D'),
    ('minus-noarity', 'miasmx/expression/expression_eval_abstract.py',
     "        if len(args) == 2:\n            ret_value = args[0] - args[1]\n        elif len(args) == 1:\n            ret_value = -args[0]\n        else:\n            raise ValueError('deprecated n aire arguments for op -')\n",
     "        ret_value = args[0] - args[1]\n", 'C06.D1'),
    ('cast-second', 'miasmx/expression/expression_eval_abstract.py', "        cast_int = types_tab[0]\n", "        cast_int = types_tab[-1]\n", 'C06.D15'),
    ('evalid-nolookup', 'miasmx/expression/expression_eval_abstract.py', "        if not e in self.pool:\n            return e\n        return self.pool[e]\n", "        return e\n", 'C06.D4'),
    ('parity-two', 'miasmx/expression/expression_eval_abstract.py', "        ret_value = self.parity(args[0])\n", "        ret_value = self.parity(args[0] ^ args[1])\n", 'C06.D'),
    ('parity-fold-all-bits', 'miasmx/expression/expression_helper.py', "def parity(a):\n    tmp = (a)&0xFF", "def parity(a):\n    tmp = int(a)", 'C06.D5'),
    ('xor-binary', 'miasmx/expression/expression_eval_abstract.py',
     "    def eval_op_xor(self, args, op_size, cast_int):\n        ret_value = args[0]\n        for a in args[1:]:\n            ret_value = ret_value ^ a\n",
     "    def eval_op_xor(self, args, op_size, cast_int):\n        ret_value = args[0] ^ args[1]\n", 'C06.D2'),
    ('no-dispatch-guard', 'miasmx/expression/expression_eval_abstract.py',
     "        if not e.op in self.deal_op:\n            # uninterpreted operator: keep it symbolic\n            return ExprOp(e.op, *args)\n", "", 'C06.D1'),
    ('rotr-mod', 'miasmx/expression/expression_eval_abstract.py', "    def eval_op_rotr(self, args, op_size, cast_int):\n        r = args[1]&0x1F\n        r %=op_size\n", "    def eval_op_rotr(self, args, op_size, cast_int):\n        r = args[1]&0x1F\n        r %=op_size+1\n", 'C06.D5'),
    ('rotl-compl', 'miasmx/expression/expression_eval_abstract.py', "((args[0] & mymaxuint[op_size]) >> (op_size-r))", "((args[0] & mymaxuint[op_size]) >> (op_size-r-1))", 'C06.D5'),
    ('or-is-xor', 'miasmx/expression/expression_eval_abstract.py', "            ret_value = ret_value | a\n", "            ret_value = ret_value ^ a\n", 'C06.D5'),
    ('rcl-dir', 'miasmx/expression/expression_eval_abstract.py', "        rez = (tmpa<<r) | (tmpa >> (op_size+1-r))", "        rez = (tmpa>>r) | (tmpa << (op_size+1-r))", 'C06.D5'),
    ('mulhi-shift', 'miasmx/expression/expression_eval_abstract.py', "        ret_value =  (a*b) >> uint64(op_size)", "        ret_value =  (a*b) >> uint64(op_size-1)", 'C06.D5'),
    ('parity-wide', 'miasmx/expression/expression_eval_abstract.py', "    def parity(self, a):\n        tmp = (a)&0xFF", "    def parity(self, a):\n        tmp = (a)&0xFFFF", 'C06.D5'),
    ('no-bool', 'miasmx/tools/modint.py', "    def __bool__(self):\n        return self.arg != 0\n    __nonzero__ = __bool__\n", "", 'C06.D3'),
    ('bsf-two-args-only', 'miasmx/expression/expression_eval_abstract.py', "        if len(args) == 1:\n            return self.my_bsf(args[0])\n", "", 'C06.D1'),
    ('compose-fw-shift', 'miasmx/expression/expression_eval_abstract.py', "            if isinstance(x, ExprInt):\n                return int(x.arg)\n            if isinstance(x, ExprSlice)", "            if isinstance(x, ExprInt):\n                return x.arg\n            if isinstance(x, ExprSlice)", 'C06.D6'),
    ('compose-cond-noshift', 'miasmx/expression/expression_eval_abstract.py', "                    mysrc1 = (int(a.src1.arg)&mask)<<start\n", "                    mysrc1 = (int(a.src1.arg)&mask)\n", 'C06.D6'),
    ('no-slice-eval', 'miasmx/expression/expression_eval_abstract.py', "                      ExprSlice: self.eval_ExprSlice,\n", "", 'C06.D4'),
    ('read-addr-not-widened', 'miasmx/expression/expression_eval_abstract.py', "        a_val = self.mem_addr(a_val)\n", "", 'C06.D9'),
    ('store-addr-not-widened', 'miasmx/expression/expression_eval_abstract.py', "                a = self.mem_addr(expr_simp(a))", "                a = expr_simp(a)", 'C06.D9'),
]
