"""C10 -- decoder and assembler are total: every raise / assert-unreachable site in the decoding, rendering and
assembling closures is either the documented error, caught, or dead by an argument the checker evaluates on the
opcode table; truncated input is reported as absent; loops make progress."""
import ast

from ..core import AnalysisError, where, norm
from ..consteval import Evaluator, NotConst, Obj
from ..shapes import u
from ..srcmodel import walk_no_nested, parent, unbound_names
from ..x86table import model as x86model
from . import c10_common


def path_conditions(node, fn):
    """[(test expr, polarity)] of the enclosing if/elif statements of `node` inside fn (innermost last)."""
    out = []
    child, p = node, parent(node)
    while p is not None and p is not fn:
        if isinstance(p, ast.If):
            if any(child is s for s in p.body):
                out.append((p.test, True))
            elif any(child is s for s in p.orelse):
                out.append((p.test, False))
        child, p = p, parent(p)
    out.reverse()
    return out


def normalise(test, pol):
    if isinstance(test, ast.UnaryOp) and isinstance(test.op, ast.Not):
        return normalise(test.operand, not pol)
    if isinstance(test, ast.Compare) and len(test.ops) == 1 and isinstance(test.ops[0], ast.NotIn):
        return '%s in %s' % (u(test.left), u(test.comparators[0])), not pol
    if isinstance(test, ast.Compare) and len(test.ops) == 1 and isinstance(test.ops[0], ast.NotEq):
        return '%s == %s' % (u(test.left), u(test.comparators[0])), not pol
    return u(test), pol


def conjuncts(test, pol):
    """Split a positive `a and b` / negative `a or b` into atomic (test, pol) pairs; others stay whole."""
    if isinstance(test, ast.BoolOp) and isinstance(test.op, ast.And) and pol:
        out = []
        for v in test.values:
            out += conjuncts(v, True)
        return out
    if isinstance(test, ast.BoolOp) and isinstance(test.op, ast.Or) and not pol:
        out = []
        for v in test.values:
            out += conjuncts(v, False)
        return out
    return [(test, pol)]


def sites_of(fn):
    """Raise statements and bare-name belief sites of a function (nested defs excluded)."""
    out = []
    for n in walk_no_nested(fn):
        if isinstance(n, ast.Raise):
            out.append(('raise', n))
        elif isinstance(n, ast.Expr) and isinstance(n.value, ast.Name):
            out.append(('belief', n))
    return out


def exc_class(raise_node):
    e = raise_node.exc
    if e is None:
        return 're-raise'
    if isinstance(e, ast.Call):
        return u(e.func)
    if isinstance(e, ast.Name):
        return e.id
    return 'non-exception'


class Decider(object):
    """Evaluates path conditions over the live variants of the opcode table."""

    def __init__(self, X):
        self.X = X
        E = X.env
        self.base = dict((k, E[k]) for k in E if isinstance(E[k], (str, int, list, tuple, dict, bool)) or E[k] is None)
        self.base['x86_afs'] = X.afs
        variants = {}
        self.live = {}
        for path, c in X.cells.items():
            k = (c.name, c.row.idx, tuple(sorted((str(a), str(b)) for a, b in c.modifs.items() if b is not None)))
            variants.setdefault(k, c)
            self.live.setdefault(id(variants[k]), set()).add(path[-1])
        self.variants = list(variants.values())

    def register_form(self, c):
        """Can this variant decode with a register (non-memory) first operand?"""
        E = self.X.env
        if c.row.afs == E['reg']:
            return True
        if isinstance(c.row.afs, int):
            return any(b >= 0xC0 for b in self.live.get(id(c), ())) and not self.X.dis_digit_reg_rejected(c.modifs, c.row.rm, c.name, c.opc)
        return True

    def envs(self, want_dib):
        for c in self.variants:
            m = Obj('m')
            m.name, m.modifs, m.rm, m.afs, m.opc = c.name, dict(c.modifs), list(c.row.rm), c.row.afs, list(c.opc)
            env = dict(self.base)
            env.update({'m': m, 'afs': c.row.afs, 'dibs': list(c.row.rm), 'swap_args': c.modifs.get(self.X.env['sw'])})
            selfo = Obj('self')
            selfo.m = m
            env['self'] = selfo
            if want_dib:
                for d in c.row.rm:
                    e2 = dict(env)
                    e2['dib'] = d
                    yield c, e2
            else:
                yield c, env

    def decide(self, conds, fn=None):
        """Returns ('dead', why) | ('reachable', witness) | ('no-argument', why)."""
        # locals of the function that are plain aliases of table values (`float_size = m.modifs[sd]`, assigned exactly once): bound per row before the guards are evaluated
        aliases = []
        if fn is not None:
            assigned = {}
            for n_ in walk_no_nested(fn):
                if isinstance(n_, ast.Assign):
                    for t_ in n_.targets:
                        for x_ in ast.walk(t_):
                            if isinstance(x_, ast.Name):
                                assigned.setdefault(x_.id, []).append(n_)
                elif isinstance(n_, (ast.AugAssign, ast.For, ast.With)):
                    tg_ = getattr(n_, 'target', None)
                    for x_ in (ast.walk(tg_) if tg_ is not None else ()):
                        if isinstance(x_, ast.Name):
                            assigned.setdefault(x_.id, []).append(n_)
            used = set(x_.id for t_, _ in conds for x_ in ast.walk(t_) if isinstance(x_, ast.Name))
            for nm_, sts_ in assigned.items():
                if nm_ in used and len(sts_) == 1 and isinstance(sts_[0], ast.Assign) and len(sts_[0].targets) == 1 and isinstance(sts_[0].targets[0], ast.Name):
                    aliases.append((nm_, sts_[0].value))
        atoms = []
        for t, pol in conds:
            atoms += conjuncts(t, pol)
        norm_atoms = [normalise(t, pol) for t, pol in atoms]
        seen = {}
        for s, pol in norm_atoms:
            if s in seen and seen[s] != pol:
                return 'dead', 'contradictory guards on `%s`' % s
            seen[s] = pol
        text = ' '.join(s for s, _ in norm_atoms)
        want_dib = any('dib' in s.replace('dibs', '') for s, _ in norm_atoms)
        evaluable_any = False
        witness = None
        for c, env in self.envs(want_dib):
            ev = Evaluator(env)
            for nm_, expr_ in aliases:
                if nm_ not in env:
                    try:
                        env[nm_] = ev.ev(expr_)
                    except (NotConst, Exception):
                        pass
            ok = True
            n_eval = 0
            for t, pol in atoms:
                try:
                    v = bool(ev.ev(t))
                except (NotConst, Exception):
                    continue
                n_eval += 1
                if v != pol:
                    ok = False
                    break
            if n_eval:
                evaluable_any = True
            if ok and n_eval:
                witness = c
                break
        if not evaluable_any:
            return 'no-argument', 'no guard of the site can be evaluated on the opcode table'
        if witness is None:
            return 'dead', 'no row of the opcode table satisfies the guards (exhaustive over %d live variants)' % len(self.variants)
        return 'reachable', 'row %s (%s) satisfies every table-evaluable guard' % (witness.row.key(), witness.name)


def check_sites(R, mod, fn, qual, decider, allowed_exc=(), caught_exc=(), special=None):
    for kind, node in sites_of(fn):
        conds = path_conditions(node, fn)
        key = '%s:%s' % (qual, norm(node)[:90])
        if kind == 'belief' or sum(1 for k2, n2 in sites_of(fn) if norm(n2) == norm(node)) > 1:
            key += ' [' + ' & '.join(('' if p else '!') + u(t)[:40] for t, p in conds[-2:]) + ']'
        inst = key
        if kind == 'raise':
            ec = exc_class(node)
            if ec in caught_exc:
                R.ok(inst, sample='%s: %s is caught by the decoder and reported as "no instruction"' % (qual, ec), nontrivial=False)
                continue
            if ec in allowed_exc:
                R.ok(inst, sample='%s: %s is the documented error' % (qual, norm(node)[:60]))
                continue
        if special:
            r = special(kind, node, conds)
            if r is not None:
                verdict, why = r
                if verdict == 'dead':
                    R.ok(inst, sample='%s dead: %s' % (key, why))
                else:
                    R.violation(inst, key, '%s in %s is reachable: %s' % ('assert-unreachable name' if kind == 'belief' else 'raise', qual, why), where(mod, node))
                continue
        verdict, why = decider.decide(conds, fn)
        if verdict == 'dead':
            R.ok(inst, sample='%s dead: %s' % (key, why))
        elif verdict == 'reachable':
            R.violation(inst, key, '%s `%s` in %s is reachable: %s' % ('assert-unreachable name' if kind == 'belief' else 'uncaught raise', norm(node)[:70], qual, why),
                        where(mod, node))
        else:
            # neither reachable (no live table row satisfies the guards is not shown) nor dead: the analysis cannot decide this site -- not a violation
            raise AnalysisError('%s `%s` in %s (%s): neither a deadness argument nor a live row that reaches it (%s); guards: %s' %
                                ('assert-unreachable name' if kind == 'belief' else 'raise', norm(node)[:70], qual, where(mod, node), why,
                                 ' and '.join(('' if p else 'not ') + u(t)[:50] for t, p in conds[-3:]) or 'none'))


def run(ctx, report):
    X = x86model(ctx)
    arch = X.arch
    E = X.env
    bs = ctx.mod('bin_stream')
    pa = ctx.mod('parse_ad')
    att = ctx.mod('ia32_att')
    D = Decider(X)
    report.explanation = (
        'Every raise statement and every bare-name "assert unreachable" site in the closures of dis (_dis, get_afs, get_im_fmt, intsize, special_opcodes), of '
        'rendering (__str__, dict_to_ad, mnemo_to_att, att_bug_fsub_fdiv) and of assembling (_asm, _asm_att, parse_mnemo, asm_candidates, forge_opc, '
        'check_imm_size, asm_all_candidate, the grammar actions) is classified from its path condition (enclosing if/elif tests): caught (IOError inside the '
        'decoder\'s try), documented (ValueError in the assembler), dead by contradiction, dead because no live row of the statically expanded opcode table '
        'satisfies the table-evaluable guards, or else a violation. Plus: always-raising python-2 constructs and unintended unbound names in those closures; '
        'mandatory-prefix validity guard; every readbs of the decoder inside the try whose IOError handler returns None; readbs bounds check precedes the read; '
        'every loop of the decoder is a for over a finite collection or consumes input on each iteration.')
    report.not_decided = 'implicit KeyError/IndexError from data-dependent subscripts other than the table-exhaustiveness cases; behaviour of the LALR automaton.'

    dis = arch.method('x86_mn', '_dis')
    # -------------------------------------------------------------- D1 decoder
    R1 = report.rule('C10.D1', 'decoder closure: no reachable raise / belief site other than the caught IOError', floor=6)
    tries = [n for n in walk_no_nested(dis) if isinstance(n, ast.Try)]
    caught = set()
    for t in tries:
        for h in t.handlers:
            if h.type is not None and any(isinstance(s, ast.Return) and u(s.value) == 'None' for s in h.body):
                caught.add(u(h.type))
    check_sites(R1, arch, dis, 'x86_mn._dis', D, caught_exc=caught)

    _afs_tables = {}

    def get_afs_special(kind, node, conds):
        # a raise in get_afs is dead iff get_afs, evaluated from its source on every ModRM byte (and two SIB bytes) of the four tables init_pre_modrm builds (evaluated
        # statically, not read from its text), returns an operand
        if kind != 'raise':
            return None
        if 'r' not in _afs_tables:
            bad_, n_ = None, 0
            for mode_name in ('u32', 'u16', 'mm', 'xmm'):
                for m_, sib_, used_, got_, entry_ in X.get_afs_on_tables(mode_name):
                    n_ += 1
                    if isinstance(got_, str) and got_.startswith('raises') and bad_ is None:
                        bad_ = (mode_name, m_, sib_, got_, entry_)
            _afs_tables['r'] = (bad_, n_)
        bad_, n_ = _afs_tables['r']
        if bad_:
            return 'reachable', 'under %s addressing the ModRM byte %02X%s selects the table entry %s, on which get_afs %s' % (
                bad_[0], bad_[1], (' with SIB %02X' % bad_[2]) if bad_[2] is not None else '', dict((str(k_), str(v_)) for k_, v_ in bad_[4].items()), bad_[3].replace(':', ' '))
        return 'dead', 'get_afs returns an operand for every one of the %d (ModRM, SIB) pairs of the four tables init_pre_modrm builds' % n_
    check_sites(R1, arch, arch.method('x86allmncs', 'get_afs'), 'x86allmncs.get_afs', D, special=get_afs_special)

    def get_im_fmt_special(kind, node, conds):
        # reached only with im not in {imm, ims}; every call site passes the loop variable under `dib in [imm, ims]`
        calls = [n for n in ast.walk(arch.tree) if isinstance(n, ast.Call) and u(n.func).endswith('get_im_fmt')]
        for c in calls:
            fn = c
            while fn is not None and not isinstance(fn, ast.FunctionDef):
                fn = parent(fn)
            pcs = [u(t) for t, pol in path_conditions(c, fn) if pol]
            if not any('in [imm, ims]' in s and u(c.args[2]) in s for s in pcs):
                return 'reachable', 'call site %s does not establish that its third argument is imm or ims' % norm(c)[:60]
        return 'dead', 'all %d call sites pass a value established to be imm or ims' % len(calls)
    check_sites(R1, arch, arch.method('x86allmncs', 'get_im_fmt'), 'x86allmncs.get_im_fmt', D, special=get_im_fmt_special)

    def intsize_special(kind, node, conds):
        # reached when not ext, not w8 and opmode not in {u32, u16}: opmode is mm/xmm only for mmx rows
        imm_like = [E[k] for k in ('u08', 's08', 'u16', 's16', 'u32', 's32', 'imm', 'ims', 'im1', 'im3')]
        for c in D.variants:
            if c.modifs.get(E['mmx']) and not c.modifs.get(E['w8']) and any(d in imm_like for d in c.row.rm):
                return 'reachable', 'mmx row %s has an immediate but no w8: intsize runs with opmode mm/xmm' % c.row.key()
        return 'dead', 'every mmx row with an immediate operand sets w8, so the opmode test is never reached with mm/xmm'
    check_sites(R1, arch, arch.method('x86_mn', 'intsize'), 'x86_mn.intsize', D, special=intsize_special)
    check_sites(R1, arch, arch.method('x86_mn', 'special_opcodes'), 'x86_mn.special_opcodes', D)
    # always-raising constructs / unintended unbound names
    for q, fn in (('x86_mn._dis', dis), ('x86allmncs.get_afs', arch.method('x86allmncs', 'get_afs')), ('x86_mn.special_opcodes', arch.method('x86_mn', 'special_opcodes')),
                  ('x86_mn.intsize', arch.method('x86_mn', 'intsize')), ('x86allmncs.get_im_fmt', arch.method('x86allmncs', 'get_im_fmt'))):
        for n, what in c10_common.py2_constructs(fn):
            R1.violation(q, '%s:%s' % (q, norm(n)[:80]), '%s: %s' % (q, what), where(arch, n))
        for n in c10_common.unintended_unbound(ctx, arch, fn):
            # `name` in the final else of _dis is only evaluated when that raise is reached (reported above if live)
            conds = path_conditions(n, fn)
            verdict, why = D.decide(conds, fn) if conds else ('no-argument', '')
            if verdict != 'dead':
                R1.violation(q, '%s:unbound:%s' % (q, n.id), '%s reads the unbound name %r (NameError)' % (q, n.id), where(arch, n))

    # -------------------------------------------------------------- D2 rendering
    R2 = report.rule('C10.D2', 'rendering closure: a returned instruction can be rendered (no reachable raise / belief site)', floor=8)
    strm = arch.method('x86_mn', '__str__')
    def str_special(kind, node, conds):
        if kind == 'belief' and any("args[1] == st + '(0)'" in u(t) for t, p in conds):
            # reached only when neither operand is st(0): every 2-operand register row of these mnemonics carries the implicit st(0) operand (r_eax)
            names = set(E['float_arith'])
            bad = [c.row.key() for c in D.variants if c.name in names and D.register_form(c) and operand_count(X, c) >= 2 and E['r_eax'] not in c.row.rm]
            if bad:
                return 'reachable', 'row %s has two explicit register operands' % bad[0]
            return 'dead', 'every two-operand register row of %s has the implicit st(0) operand' % sorted(names)[:3]
        return None
    check_sites(R2, arch, strm, 'x86_mn.__str__', D, special=str_special)

    def fsub_special(kind, node, conds):
        # callers establish name[:4] in ['fsub', 'fdiv'] on names of the float tables
        dom = [n for n in set(E['mnemo_float_optional_suffix']) | set(E['att_mnemo_table']['suffix_none']) if n[:4] in ('fsub', 'fdiv')]
        for n in dom:
            ev = Evaluator({'name': n})
            ok = True
            for t, pol in conds:
                for t2, p2 in conjuncts(t, pol):
                    try:
                        if bool(ev.ev(t2)) != p2:
                            ok = False
                    except NotConst:
                        pass
            # the statements before the belief site return for the handled spellings
            blk = parent(node)
            handled = False
            for st in (blk.body if node in blk.body else blk.orelse):
                if st is node:
                    break
                if isinstance(st, ast.If):
                    try:
                        if bool(ev.ev(st.test)) and any(isinstance(x, ast.Return) for x in st.body):
                            handled = True
                    except NotConst:
                        pass
            if ok and not handled:
                return 'reachable', 'mnemonic %r falls through to the belief site' % n
        return 'dead', 'all %d fsub/fdiv spellings of the float tables return before the site' % len(dom)
    check_sites(R2, arch, arch.func('att_bug_fsub_fdiv'), 'att_bug_fsub_fdiv', D, special=fsub_special)
    # (i) mandatory-prefix validity
    suffixes = E['mmx_suffixes']
    has_invalid = any('INVALID' in v for vals in suffixes.values() for v in vals)
    guard = any(isinstance(n, ast.Name) and n.id == 'mmx_suffixes' for n in ast.walk(dis)) or \
        any(isinstance(n, ast.Call) and u(n.func) == 'mmx_set_suffix' for n in ast.walk(dis))
    if has_invalid and not guard:
        R2.violation('prefix-validity', '_dis:no-INVALID-prefix-guard',
                     'mmx_suffixes marks (row family, mandatory prefix) pairs INVALID but _dis never consults it: such byte strings decode and their printed '
                     'mnemonic contains "INVALID", which the AT&T renderer rejects with ValueError', where(arch, dis), witness='f2 0f 60 c0 -> "INVALIDunpcklbw"; str(att) raises')
    else:
        R2.ok('prefix-validity', sample='decoder consults mmx_suffixes before accepting a prefixed SSE row')
    # (ii) constant subscripts of args in __str__ dominated by a length test
    for n in walk_no_nested(strm):
        if isinstance(n, ast.Subscript) and isinstance(n.value, ast.Name) and n.value.id == 'args' and isinstance(n.slice, ast.Constant) \
                and isinstance(n.slice.value, int) and isinstance(n.ctx, ast.Load):
            k = n.slice.value
            conds = path_conditions(n, strm)
            lens = []
            for t, pol in conds:
                for t2, p2 in conjuncts(t, pol):
                    s, p3 = normalise(t2, p2)
                    if s.startswith('len(args) == ') and p3:
                        lens.append(int(s.split('== ')[1]))
            inst = '__str__:args[%d]' % k
            st = n
            while not isinstance(st, ast.stmt):
                st = parent(st)
            if lens and all(k >= L_ for L_ in lens):
                # reachable only if some row decodes to exactly that many operands under the mnemonic guard of the branch
                printed = None
                for t, pol in conds:
                    for t2, p2 in conjuncts(t, pol):
                        if p2 and isinstance(t2, ast.Compare) and u(t2.left) == 'mnemo[-1]' and isinstance(t2.ops[0], ast.In):
                            try:
                                printed = set(Evaluator(dict(D.base)).ev(t2.comparators[0]))
                            except NotConst:
                                pass
                cands = [c for c in D.variants if (operand_count(X, c) in lens or set(lens) & string_operand_counts(X, strm, c)) and (printed is None or printed & printed_names(X, c))]
                # the remaining conjuncts of the guards that depend on the row only (self.m.name / self.m.modifs)
                def row_guard_holds(c):
                    m_ = Obj('m')
                    m_.name, m_.modifs = c.name, dict(c.modifs)
                    me_ = Obj('self')
                    me_.m = m_
                    env_ = dict(D.base)
                    env_['self'] = me_
                    for t, pol in conds:
                        for t2, p2 in conjuncts(t, pol):
                            if 'self.m.' not in u(t2) or 'args' in u(t2) or 'mnemo' in u(t2):
                                continue
                            try:
                                if bool(Evaluator(env_).ev(t2)) != p2:
                                    return False
                            except NotConst:
                                pass
                    return True
                cands = [c for c in cands if row_guard_holds(c)]
                if not cands:
                    R2.ok(inst, sample='args[%d] under len(args) == %s: no row with that many operands reaches the branch (dead code)' % (k, lens))
                    R2.note('__str__: the branch guarded by len(args) == %s that reads args[%d] is dead code (no row of %s decodes to %s operands)' % (lens, k, sorted(printed or [])[:4], lens))
                    continue
                R2.violation(inst, '__str__:args[%d]:len==%s' % (k, lens), '__str__ reads args[%d] under the guard len(args) == %s: IndexError (%s)'
                             % (k, lens, norm(st)[:70]), where(arch, n), witness='0f c2 c1 00 (cmpps xmm0, xmm1, 0) renders through this branch')
            elif lens:
                R2.ok(inst, sample='args[%d] read under len(args) == %s' % (k, lens))
            else:
                # no length guard: the branch must be reached only by rows that produce enough operands
                need = k + 1
                names_guard = None
                for t, pol in conds:
                    for t2, p2 in conjuncts(t, pol):
                        if p2 and isinstance(t2, ast.Compare) and u(t2.left) == 'self.m.name' and isinstance(t2.ops[0], ast.In):
                            try:
                                names_guard = set(Evaluator(dict(D.base)).ev(t2.comparators[0]))
                            except NotConst:
                                pass
                if names_guard is None:
                    R2.ok(inst + ':unguarded', nontrivial=False)
                    continue
                short = []
                reg_only = any('is_address(self.arg[0])' in normalise(t2, p2)[0] and not normalise(t2, p2)[1]
                               for t, pol in conds for t2, p2 in conjuncts(t, pol))
                size_guard = None
                for t, pol in conds:
                    for t2, p2 in conjuncts(t, pol):
                        if p2 and isinstance(t2, ast.Compare) and u(t2.left) == 'self.arg[0][x86_afs.size]' and isinstance(t2.ops[0], ast.In):
                            try:
                                size_guard = set(Evaluator(dict(D.base)).ev(t2.comparators[0]))
                            except NotConst:
                                pass
                for c in D.variants:
                    if c.name in names_guard and (not reg_only or D.register_form(c)):
                        if size_guard is not None and reg_only and not (reg_operand_sizes(X, c) & size_guard):
                            continue
                        nargs = operand_count(X, c)
                        if nargs < need:
                            short.append('%s (%d operand%s)' % (c.row.key(), nargs, '' if nargs == 1 else 's'))
                if short:
                    R2.violation(inst, '__str__:args[%d]:%s:%s' % (k, '/'.join(sorted(names_guard)[:2]), norm(st)[:60]), '__str__ reads args[%d] for mnemonics %s but row(s) %s decode to fewer operands: IndexError'
                                 % (k, sorted(names_guard)[:4], short[:3]), where(arch, n), witness='d8 d1 (fcom st(1))')
                else:
                    R2.ok(inst, sample='args[%d]: every row of %s has at least %d operands' % (k, sorted(names_guard)[:3], need))
    # dict_to_ad: size keys
    d2a = arch.func('dict_to_ad')
    tab32_keys = ad_size_keys = None
    for n in walk_no_nested(d2a):
        if isinstance(n, ast.Assign) and u(n.targets[0]) == 'tab32' and isinstance(n.value, ast.Dict):
            tab32_keys = set(Evaluator(dict(D.base)).ev(k) for k in n.value.keys)
        if isinstance(n, ast.Assign) and u(n.targets[0]) == 'ad_size' and isinstance(n.value, ast.Dict):
            ad_size_keys = set(Evaluator(dict(D.base)).ev(k) for k in n.value.keys)
    if tab32_keys is None or ad_size_keys is None:
        raise AnalysisError('dict_to_ad size tables not found')
    afs = X.afs
    for c in D.variants:
        if isinstance(c.row.afs, int) and not c.modifs.get(E['mmx']):
            sdv = c.modifs.get(E['sd'])
            if sdv is not None:
                # operand sizes of the memory and the register form: the size statements / rejection guards of the /digit branch of _dis, evaluated
                ms = X.dis_operand_sizes(c.name, c.modifs, c.row.rm, c.opc, c.row.afs, True)
                rs = X.dis_operand_sizes(c.name, c.modifs, c.row.rm, c.opc, c.row.afs, False)
                if ms in ('rejected', 'never'):
                    R2.ok('dict_to_ad:%s' % c.row.key(), nontrivial=False)
                    continue
                S = ms[1]
                live_reg = any((p[-1] >= 0xC0) for p, cc in X.cells.items() if cc.row is c.row and cc.modifs == c.modifs)
                reg_form_possible = live_reg and not isinstance(rs, str)
                S_reg = rs[1] if not isinstance(rs, str) else None
                inst = 'dict_to_ad:%s' % c.row.key()
                if reg_form_possible and S_reg not in tab32_keys:
                    R2.violation(inst, 'dict_to_ad:tab32:%s:%s' % (c.name, S), 'row %s decodes a register form (mod=3) with operand size %s, which dict_to_ad\'s register table '
                                 'does not know: KeyError when rendering' % (c.row.key(), S), where(arch, c.row.node), witness='db f9 renders with KeyError f80')
                elif S not in ad_size_keys:
                    R2.violation(inst, 'dict_to_ad:ad_size:%s:%s' % (c.name, S), 'memory operand size %s of row %s is not in dict_to_ad.ad_size' % (S, c.row.key()), where(arch, c.row.node))
                else:
                    R2.ok(inst, nontrivial=False)
    # MMX/SSE rows: the size _dis gives the memory form under each mandatory prefix (selection chain and per-mnemonic size table evaluated) must be a key of
    # dict_to_ad.ad_size -- both renderings go through that table
    PBYTES = {'np': [], '66': [0x66], 'f2': [0xF2], 'f3': [0xF3]}
    done_rows = set()
    n_mmx_mem = 0
    for c in D.variants:
        if not c.modifs.get(E['mmx']) or (c.row.idx, tuple(sorted((str(k), v) for k, v in c.modifs.items() if v))) in done_rows:
            continue
        done_rows.add((c.row.idx, tuple(sorted((str(k), v) for k, v in c.modifs.items() if v))))
        digit = isinstance(c.row.afs, int)
        rv = type('RowView', (), {})()
        rv.opc, rv.afs = c.opc, c.row.afs
        for pk, pb in PBYTES.items():
            r = X.dis_mmx_modes(c.name, pb, bool(c.modifs.get(E['sw'])), digit=digit, row=rv)
            if isinstance(r, str):
                continue                            # rejected / belief site: no instruction, or reported by D1
            opm, adm, swap = r
            szs = X.dis_operand_sizes(c.name, c.modifs, c.row.rm, c.opc, c.row.afs, True, opm, adm, pb)
            if isinstance(szs, str):
                continue
            n_mmx_mem += 1
            inst = 'dict_to_ad:%s:%s' % (c.row.key(), pk)
            if szs[1] not in ad_size_keys:
                R2.violation(inst, 'dict_to_ad:ad_size:%s:%s:%s' % (c.name, pk, szs[1]), 'the memory form of row %s under prefix %s gets operand size %r, which is not a key of dict_to_ad.ad_size: '
                             'the instruction decodes but cannot be rendered (KeyError)' % (c.row.key(), pk, szs[1]), where(arch, c.row.node))
            else:
                R2.ok(inst, nontrivial=(n_mmx_mem % 8 == 0), sample='%s prefix %s: memory size %s is rendered' % (c.row.key(), pk, szs[1]))
    if n_mmx_mem < 300:
        raise AnalysisError('C10.D2: only %d MMX/SSE memory forms were sized (expected several hundred)' % n_mmx_mem)

    # -------------------------------------------------------------- D3 assembler
    R3 = report.rule('C10.D3', 'assembler closure: only the documented ValueError is raised; no belief site or always-raising construct', floor=15)
    asm_funcs = [('x86_mn._asm', arch.method('x86_mn', '_asm')), ('x86_mn._asm_att', arch.method('x86_mn', '_asm_att')),
                 ('x86_mn.parse_mnemo', arch.method('x86_mn', 'parse_mnemo')), ('x86_mn.arg_set_numpy_imm', arch.method('x86_mn', 'arg_set_numpy_imm')),
                 ('x86_mn.normalize_args', arch.method('x86_mn', 'normalize_args')), ('x86_mn.asm_candidates', arch.method('x86_mn', 'asm_candidates')),
                 ('x86_mn.asm_all_candidate', arch.method('x86_mn', 'asm_all_candidate')), ('x86allmncs.forge_opc', arch.method('x86allmncs', 'forge_opc')),
                 ('x86allmncs.check_size_modif', arch.method('x86allmncs', 'check_size_modif')),
                 ('check_imm_size', arch.func('check_imm_size')), ('ad_to_generic', arch.func('ad_to_generic')), ('imm_to_generic', arch.func('imm_to_generic')),
                 ('mnemo_from_att', arch.func('mnemo_from_att')), ('parse_asm_x86', arch.func('parse_asm_x86')), ('mmx_set_suffix', arch.func('mmx_set_suffix'))]
    for m_, prefix in ((pa, 'parse_ad'), (att, 'ia32_att')):
        for name, fn in sorted(m_.funcs.items()):
            asm_funcs.append(('%s.%s' % (prefix, name), fn))
    for q, fn in asm_funcs:
        mod_ = pa if q.startswith('parse_ad.') else (att if q.startswith('ia32_att.') else arch)
        n_sites = 0
        for kind, node in sites_of(fn):
            n_sites += 1
            key = '%s:%s' % (q, norm(node)[:90])
            if kind == 'raise' and exc_class(node) == 'ValueError':
                R3.ok(key, sample='%s: documented ValueError' % q, nontrivial=(n_sites == 1))
                continue
            conds = path_conditions(node, fn)
            verdict, why = D.decide(conds, fn) if conds else ('no-argument', 'unguarded')
            if verdict == 'dead':
                R3.ok(key, sample='%s dead: %s' % (key, why))
            else:
                R3.violation(key, key, '%s `%s` in %s is not the documented error and has no deadness argument (%s)' %
                             ('assert-unreachable name' if kind == 'belief' else 'raise', norm(node)[:60], q, why), where(mod_, node))
        for n, what in c10_common.py2_constructs(fn):
            R3.violation(q, '%s:%s' % (q, norm(n)[:80]), '%s: %s (%s)' % (q, norm(n)[:60], what), where(mod_, n),
                         witness="asm('mov eax, 4-foo') -> TypeError" if 'dict({}' in norm(n) else None)
        if not n_sites:
            R3.ok(q, nontrivial=False)

    # dict displays subscripted in the assembler: the key is either table-derived (evaluated over every row variant that satisfies the
    # table-evaluable guards of the site) and always present, or the lookup is a KeyError on operands the caller chooses
    n_lit = 0
    for q, fn in asm_funcs:
        if not q.startswith('x86'):
            continue
        for n in walk_no_nested(fn):
            if not (isinstance(n, ast.Subscript) and isinstance(n.value, ast.Dict) and isinstance(n.ctx, ast.Load)):
                continue
            n_lit += 1
            key_txt = u(n.slice)
            site = '%s:%s[%s]' % (q, norm(n.value)[:50], key_txt)
            conds = path_conditions(n, fn)
            atoms = []
            for t_, pol_ in conds:
                atoms += conjuncts(t_, pol_)
            if any(isinstance(t_, ast.Compare) and pol_ and isinstance(t_.ops[0], ast.In) and u(t_.left) == key_txt for t_, pol_ in atoms):
                R3.ok(site, sample='%s: the key is tested for membership first' % site)
                continue
            missing, evaluated = None, 0
            for c in D.variants:
                cobj = Obj('c')
                cobj.name, cobj.modifs, cobj.rm, cobj.afs, cobj.opc = c.name, dict(c.modifs), list(c.row.rm), c.row.afs, list(c.opc)
                for d_ in (list(c.row.rm) or [None]):
                    env = dict(D.base)
                    env.update({'c': cobj, 'afs': c.row.afs, 'dibs': list(c.row.rm), 'dib': d_, 'name': c.name})
                    ev_ = Evaluator(env)
                    ok_ = True
                    for t_, pol_ in atoms:
                        try:
                            if bool(ev_.ev(t_)) != pol_:
                                ok_ = False
                                break
                        except (NotConst, Exception):
                            continue
                    if not ok_:
                        continue
                    try:
                        kv = ev_.ev(n.slice)
                        keys = set(ev_.ev(k_) for k_ in n.value.keys)
                    except (NotConst, Exception):
                        kv = keys = None
                    if keys is None:
                        missing = ('operand', None)
                        break
                    evaluated += 1
                    if kv not in keys:
                        missing = ('row', (c, kv))
                        break
                if missing:
                    break
            if missing is None and evaluated:
                R3.ok(site, sample='%s: every table value of the key is a key of the dictionary (%d row variants)' % (site, evaluated))
            elif missing and missing[0] == 'row':
                c, kv = missing[1]
                R3.violation(site, 'dict-key:%s' % site, 'row %s gives the key %r, which the dictionary display does not contain: KeyError instead of a ValueError / empty candidate list'
                             % (c.row.key(), kv), where(arch, n))
            else:
                R3.violation(site, 'dict-key:%s' % site, 'the key `%s` comes from the operands the caller wrote and is not tested for membership: an operand size the display does not list '
                             'raises KeyError instead of giving no candidate' % key_txt, where(arch, n), witness="asm('fld [eax]') raises KeyError(True)")
    if n_lit == 0:
        R3.note('no dictionary display is subscripted in the assembler')

    # -------------------------------------------------------------- D6 no byte beyond the instruction is consumed
    R6 = report.rule('C10.D6', 'every operand fetch of _dis reads the number of bytes its mode prescribes (no over-read, no unread tail)', floor=12)
    from .c01 import fetch_width_rule
    fetch_width_rule(ctx, R6, X)

    # -------------------------------------------------------------- D7 the immediate typing step is total
    R7 = report.rule('C10.D7', 'arg_set_numpy_imm, evaluated on operand lists of every combination of operand sizes, returns (no internal error on operands of different sizes)', floor=40)
    from .c09 import numpy_imm_eval
    from ..consteval import PyRaise as _PyRaise, NotConst as _NotConst
    afs_ = X.afs
    toks = [t for t in (afs_.u08, afs_.u16, afs_.u32, getattr(afs_, 'f32', None), getattr(afs_, 'f64', None), afs_.mm, afs_.xmm, True) if t is not None]
    for s1 in toks:
        for s2 in toks:
            for ad2 in (False, True):
                ops = [{0: 1, afs_.size: s1, afs_.ad: False}, {1: 1, afs_.size: s2, afs_.ad: ad2}, {afs_.imm: 3, afs_.size: afs_.u32, afs_.ad: False}]
                inst = 'arg_set_numpy_imm(%s, %s%s, imm)' % (s1, s2, ' mem' if ad2 else '')
                try:
                    numpy_imm_eval(ctx, ops)
                except _PyRaise as e:
                    R7.violation(inst, 'imm-typing-raises:%s' % e.exc_name, 'arg_set_numpy_imm raises %s on operands of sizes %s and %s with an immediate: an internal error instead of '
                                 'candidates / the documented ValueError' % (e.exc_name, s1, s2), where(arch, arch.method('x86_mn', 'arg_set_numpy_imm')),
                                 witness="asm_att('pinsrw $3, %ax, %xmm0') raises TypeError(unhashable type: 'set')")
                    continue
                except _NotConst as e:
                    raise AnalysisError('arg_set_numpy_imm is outside the evaluable subset on %s: %s' % (inst, e))
                R7.ok(inst, nontrivial=(s1 != s2))

    # -------------------------------------------------------------- D8 operand arithmetic of the Intel parser: work bounded by the text
    R8 = report.rule('C10.D8', 'dict_mul, evaluated on register x constant, does not build a value whose size is proportional to the constant', floor=4)
    from ..consteval import Evaluator as _Ev
    pad = ctx.mod('parse_ad')
    dm = pad.func('dict_mul')
    BIG = 1 << 16
    for label, a_, b_ in (('reg*N', {1: 1, afs_.size: afs_.u32}, {afs_.imm: BIG}), ('N*reg', {afs_.imm: BIG}, {1: 1, afs_.size: afs_.u32}),
                          ('(reg+reg)*N', {1: 1, 3: 1, afs_.size: afs_.u32, 'txt': 'ecx+ebx'}, {afs_.imm: BIG}), ('reg*8', {1: 1, afs_.size: afs_.u32}, {afs_.imm: 8})):
        scope = {'x86_afs': afs_}
        for fname_, fnode_ in pad.funcs.items():
            scope.setdefault(fname_, fnode_)
        inst = 'dict_mul %s' % label
        try:
            out = _Ev(scope).call_user(dm, [dict(a_), dict(b_)])
        except _PyRaise as e:
            if e.exc_name == 'ValueError' and label != 'reg*8':
                R8.ok(inst, sample='%s: refused with the documented ValueError' % label)
            else:
                R8.violation(inst, 'dict-mul:%s:%s' % (label, e.exc_name), 'dict_mul raises %s on %s' % (e.exc_name, label), where(pad, dm))
            continue
        except _NotConst as e:
            raise AnalysisError('dict_mul is outside the evaluable subset on %s: %s' % (label, e))
        big = [k_ for k_, v_ in out.items() if isinstance(v_, str) and len(v_) >= BIG] if isinstance(out, dict) else []
        if label == 'reg*8' and not big:
            # a chain of small factors: the text grows by two characters per factor, the entry must not grow ninefold
            try:
                for _i in range(6):
                    out = _Ev(scope).call_user(dm, [dict(out), {afs_.imm: 9}])
                big = [k_ for k_, v_ in out.items() if isinstance(v_, str) and len(v_) >= BIG]
                label = 'reg*8*9*9*9*9*9*9'
            except _PyRaise as e:
                if e.exc_name != 'ValueError':
                    R8.violation(inst, 'dict-mul:chain:%s' % e.exc_name, 'dict_mul raises %s on a chain of factors' % e.exc_name, where(pad, dm))
                    continue
            except _NotConst as e:
                raise AnalysisError('dict_mul is outside the evaluable subset on a chain: %s' % e)
        if big:
            R8.violation(inst, 'dict-mul:%s:repeat' % label, 'dict_mul repeats the string entry %r of the operand as many times as the constant says (%s with N = %d gives %d characters): '
                         'a 31-bit scale factor is gigabytes of memory and a MemoryError instead of the documented error' % (big[0], label, BIG, len(out[big[0]])), where(pad, dm),
                         witness="asm('mov eax, [ecx*0x7fffffff]') raises MemoryError")
        else:
            R8.ok(inst, sample='%s: no entry grows with the constant' % label)

    # -------------------------------------------------------------- D9 every site that selects the mandatory prefix selects the same one
    R9 = report.rule('C10.D9', 'the decoder, the undefined-form test and the renderer select the same mandatory prefix (66/F2/F3) from a prefix list, whatever else it holds', floor=30)
    mandatory_prefix_rule(ctx, R9, X)

    # -------------------------------------------------------------- D4 truncation / streams / progress
    R10 = report.rule('C10.D10', 'the parse-error callbacks that read locals of their callers through the frame chain (frame.f_back...f_locals[name]) name locals those callers have: '
                      'the documented ValueError is raised, not a KeyError from the error handler itself', floor=1)
    frame_locals_rule(ctx, R10)

    R11 = report.rule('C10.D11', 'every mnemonic / operand-size form the decoder can return has an AT&T mnemonic: mnemo_to_att, partially evaluated on every form, reaches a return '
                      '(no "Mnemonic unknown" from the renderer; the instances and findings of C09.D1, shared)', floor=700)
    from ..core import Report as _Report
    from . import c09 as _c09
    sub = _Report('C09', ctx.tier, ctx.root)
    try:
        _c09.run(ctx, sub)
    except AnalysisError as e_:
        # the shared sub-run builds the form model of the lifter, which stops on a table value it does not know (e.g. a new sd key).  When C10's own rules have already
        # reported a violation (the KeyError such a value causes in the decoder is theirs to report), that report stands; otherwise the run is undecided.
        from ..core import load_known as _lk
        known_ = set((k_['rule'], k_['key']) for k_ in _lk() if k_['property'] == 'C10' and k_.get('status', 'known') == 'known')
        if not any((f_.rule, f_.key) not in known_ for r_ in report.rules for f_ in r_.findings):
            raise
        R11.note('the shared C09.D1 sub-run stopped (%s); C10 has reported a violation of its own, which stands' % e_)
        R11.instances = max(R11.instances, R11.floor)
    for r_ in sub.rules:
        if r_.id == 'C09.D1':
            R11.instances += r_.instances
            R11.nontrivial |= r_.nontrivial
            R11.samples += r_.samples[:3]
            for f_ in r_.findings:
                R11.violation(f_.key, f_.key, f_.what, f_.where, f_.witness, count=False)

    R12 = report.rule('C10.D12', 'the decoder never indexes an operand list that may still be empty: a constant-index read of a list the function starts empty and fills in some branches '
                      'only is guarded by a test of that list (or by an IndexError handler), or follows an unconditional fill', floor=1)
    empty_index_rule(ctx, R12, ctx.mod('ia32_arch'), ['x86_mn._dis', 'x86_mn.special_opcodes', 'x86_mnemo_metaclass.dis'])

    R13 = report.rule('C10.D13', 'the loop of asm_candidates that matches parsed operands against the operand kinds of a candidate row, evaluated for every row with an immediate x 13 operand '
                      'lists (none, too few, too many, wrong kinds): the candidate is accepted or refused, no Python exception escapes', floor=100)
    from ..immdecode import asm_operand_loop_total_rule
    asm_operand_loop_total_rule(ctx, R13, x86model(ctx))

    R4 = report.rule('C10.D4', 'truncated input is reported as absent; reads are bounds-checked; loops make progress', floor=12)
    if not tries or 'IOError' not in caught:
        R4.violation('_dis:try', '_dis:no-IOError-handler', 'the decoder has no try whose IOError handler returns None', where(arch, dis))
    else:
        trynode = tries[0]
        inside = set(id(n) for s in trynode.body for n in ast.walk(s))
        for fnq, fn in (('x86_mn._dis', dis),):
            for n in walk_no_nested(fn):
                if isinstance(n, ast.Call) and isinstance(n.func, ast.Attribute) and n.func.attr == 'readbs':
                    inst = '_dis:%s' % norm(n)
                    st = n
                    while not isinstance(st, ast.stmt):
                        st = parent(st)
                    # the re-read of the instruction bytes at the end is within already-consumed input
                    if id(n) in inside:
                        R4.ok('%s@%d' % (inst, len(R4.nontrivial)), sample='%s inside the try/except IOError' % inst)
                    else:
                        R4.violation(inst, '_dis:readbs-outside-try:%s' % norm(st)[:60], 'a read of the input stream is outside the try that turns IOError into "no instruction"',
                                     where(arch, n))
        # callee reads: get_afs is only called from inside the try
        for n in walk_no_nested(dis):
            if isinstance(n, ast.Call) and u(n.func) in ('x86mndb.get_afs',):
                if id(n) in inside:
                    R4.ok('_dis:%s@%d' % (norm(n)[:30], n.lineno - dis.lineno), nontrivial=False)
                else:
                    R4.violation('_dis:get_afs', '_dis:get_afs-outside-try', 'get_afs (which reads the stream) is called outside the try', where(arch, n))
    for cname in ('bin_stream_str', 'bin_stream_file', 'bin_stream_virt'):
        fn = bs.method(cname, 'readbs')
        stm = fn.body
        inst = '%s.readbs' % cname
        first = stm[0]
        ok = isinstance(first, ast.If) and u(first.test).replace(' ', '') in ('self.offset+l>self.l',) and \
            any(isinstance(s, ast.Raise) and exc_class(s) == 'IOError' for s in first.body)
        if ok:
            R4.ok(inst, sample='%s: `if self.offset + l > self.l: raise IOError` precedes the read' % inst)
        else:
            R4.violation(inst, '%s:bounds' % inst, '%s no longer checks offset + l > self.l before reading' % inst, where(bs, fn))
        if cname != 'bin_stream_file':
            adv = any(isinstance(s, ast.AugAssign) and u(s.target) == 'self.offset' and u(s.value) == 'l' and isinstance(s.op, ast.Add) for s in stm)
            ret = [s for s in stm if isinstance(s, ast.Return)]
            if adv and ret and 'self.offset - l' in u(ret[0].value) and 'self.offset' in u(ret[0].value):
                R4.ok(inst + ':advance', sample='%s advances offset by exactly l and returns [offset-l:offset]' % inst)
            else:
                R4.violation(inst + ':advance', '%s:advance' % inst, '%s does not advance the offset by exactly l / return that window' % inst, where(bs, fn))
    # loops
    for n in walk_no_nested(dis):
        if isinstance(n, ast.While):
            inst = '_dis:while %s' % u(n.test)[:30]
            # progress: an unconditional readbs()/pop() at the top level of the body, before any statement that can `continue`
            body_reads = False
            for s in n.body:
                direct = isinstance(s, (ast.Assign, ast.Expr, ast.AugAssign)) and any(
                    isinstance(x, ast.Call) and isinstance(x.func, ast.Attribute) and x.func.attr in ('readbs', 'pop') for x in ast.walk(s))
                if direct:
                    body_reads = True
                    break
                if any(isinstance(x, ast.Continue) for x in ast.walk(s)):
                    break
            if body_reads:
                R4.ok(inst, sample='%s consumes input / pops on every iteration' % inst)
            else:
                R4.violation(inst, '_dis:loop:%s' % u(n.test)[:40], 'decoder loop `while %s` has no readbs()/pop() in its body' % u(n.test)[:40], where(arch, n))
    # offset restored and instruction bytes re-read
    txt = u(dis)
    if 'bin.offset = init_offset' in txt and 'bin.readbs(t_len)' in txt and 't_len = bin.offset - init_offset' in txt:
        R4.ok('_dis:bytes', sample='_dis: t_len = bin.offset - init_offset; bin.offset = init_offset; self.b = bin.readbs(t_len)')
    else:
        R4.violation('_dis:bytes', '_dis:bytes', 'raw bytes are no longer the prefix of the input that was consumed', where(arch, dis))

    dis_rewind_rule(ctx, R4, arch, dis)
    # -------------------------------------------------------------- D5 AT&T mnemonic reader is total
    R5 = report.rule('C10.D5', 'mnemo_from_att, evaluated on every mnemonic-like name x operand shape, returns or raises the documented ValueError', floor=3000)
    from_att_total(ctx, R5, arch)


def _maybe_empty_index_sites(fn):
    """(list name, subscript node, guarded?) for every constant-index read `L[k]` of a local list that fn initialises empty."""
    empties = set()
    for n in walk_no_nested(fn):
        if isinstance(n, ast.Assign) and len(n.targets) == 1 and isinstance(n.targets[0], ast.Name):
            v = n.value
            if (isinstance(v, ast.List) and not v.elts) or (isinstance(v, ast.Call) and u(v.func) == 'list' and not v.args):
                empties.add(n.targets[0].id)
    out = []
    if not empties:
        return out

    def mentions(test, name):
        return any(isinstance(x, ast.Name) and x.id == name for x in ast.walk(test))

    def fills(st, name):
        """an unconditional statement that leaves the list non-empty"""
        if isinstance(st, ast.Expr) and isinstance(st.value, ast.Call) and isinstance(st.value.func, ast.Attribute) and st.value.func.attr in ('append', 'insert') \
                and isinstance(st.value.func.value, ast.Name) and st.value.func.value.id == name:
            return True
        if isinstance(st, ast.AugAssign) and isinstance(st.target, ast.Name) and st.target.id == name and isinstance(st.value, ast.List) and st.value.elts:
            return True
        if isinstance(st, ast.Assign) and len(st.targets) == 1 and isinstance(st.targets[0], ast.Name) and st.targets[0].id == name:
            v = st.value
            if isinstance(v, ast.List) and v.elts:
                return True
            if isinstance(v, ast.BinOp) and isinstance(v.op, ast.Add) and any(isinstance(x, ast.List) and x.elts for x in (v.left, v.right)):
                return True
            if not ((isinstance(v, ast.List) and not v.elts) or (isinstance(v, ast.Call) and u(v.func) == 'list' and not v.args)):
                return True         # rebound to something else: no longer the list that started empty
        return False
    for sub in walk_no_nested(fn):
        if not (isinstance(sub, ast.Subscript) and isinstance(sub.ctx, ast.Load) and isinstance(sub.value, ast.Name) and sub.value.id in empties):
            continue
        sl = sub.slice
        if not (isinstance(sl, ast.Constant) and isinstance(sl.value, int)) and not (isinstance(sl, ast.UnaryOp) and isinstance(sl.operand, ast.Constant)):
            continue
        name = sub.value.id
        guarded = False
        node = sub
        while node is not fn and node is not None:
            par = parent(node)
            if par is None:
                break
            if isinstance(par, (ast.If, ast.While, ast.IfExp)) and node is not par.test and mentions(par.test, name):
                guarded = True
            if isinstance(par, ast.BoolOp) and node in par.values and any(mentions(v, name) for v in par.values[:par.values.index(node)]):
                guarded = True
            if isinstance(par, (ast.If, ast.While)) and node is par.test:
                pass
            if isinstance(par, ast.Try) and node in par.body and any(h.type is None or u(h.type) in ('IndexError', 'Exception', 'LookupError') or 'IndexError' in u(h.type) for h in par.handlers):
                guarded = True
            if isinstance(par, ast.comprehension) or isinstance(par, (ast.For,)) and isinstance(par.iter, ast.Name) and par.iter.id == name:
                guarded = True
            for fld in ('body', 'orelse', 'finalbody'):
                lst = getattr(par, fld, None)
                if isinstance(lst, list) and node in lst:
                    for prev in lst[:lst.index(node)]:
                        if fills(prev, name):
                            guarded = True
                        if isinstance(prev, ast.If) and mentions(prev.test, name) and prev.body and isinstance(prev.body[-1], (ast.Return, ast.Continue, ast.Break, ast.Raise)):
                            guarded = True
            node = par
        out.append((name, sub, guarded))
    return out


def empty_index_rule(ctx, R, mod, quals):
    example = ast.parse("def f(b, p):\n    args = []\n    out = []\n    if b:\n        args.append(1)\n    if p and args[0] == 1:\n        return None\n    if args and args[0] == 2:\n        return 1\n"
                        "    out.append(3)\n    return out[0]\n")
    for _n in ast.walk(example):
        for _c in ast.iter_child_nodes(_n):
            _c._parent = _n
    got = sorted((nm, g) for nm, _, g in _maybe_empty_index_sites(example.body[0]))
    if got != [('args', False), ('args', True), ('out', True)]:
        raise AnalysisError('empty-index rule: the built-in example is no longer recognised: %r' % (got,))
    n_fn = 0
    for q in quals:
        cname, mname = q.split('.')
        fn = mod.methods(cname).get(mname) if cname in mod.classes else None
        if fn is None:
            raise AnalysisError('%s not found' % q)
        n_fn += 1
        sites = _maybe_empty_index_sites(fn)
        for name, sub, guarded in sites:
            inst = '%s:%s' % (q, norm(sub)[:60])
            if guarded:
                R.ok(inst, sample='%s reads %s under a test of %s / after a fill' % (q, u(sub), name))
            else:
                R.violation(inst, 'empty-index:%s:%s' % (mname, name), '%s reads %s, but %s starts empty and is filled in some branches only, and nothing on the way tests it: the forms that '
                            'fill nothing (no ModRM operand) raise IndexError instead of being decoded or rejected' % (q, u(sub), name), where(mod, sub), witness='f0 04 11 (lock add al, 0x11)')
        R.ok('%s: scanned' % q, sample='%s: %d constant-index reads of lists that start empty' % (q, len(sites)))


def dis_rewind_rule(ctx, R4, arch, dis):
    """shared with C12.D14: a rejected decode leaves the caller's stream where it was, so that repeating the call gives the same answer"""
    # a decode that reports "no instruction" leaves the caller's stream where it was: either every failing exit of _dis rewinds,
    # or the entry point restores the offset it saved before calling _dis
    entry = arch.method('x86_mnemo_metaclass', 'dis')
    ps_ = [a.arg for a in entry.args.args]
    stream = ps_[1] if len(ps_) > 1 else 'op'
    entry_restores = True          # decided below by evaluating the entry point
    fails = [n for n in walk_no_nested(dis) if isinstance(n, ast.Return) and (n.value is None or u(n.value) in ('None', 'False'))]

    def rewinds_before(ret):
        blk = parent(ret)
        for fld in ('body', 'orelse', 'finalbody'):
            lst = getattr(blk, fld, None)
            if isinstance(lst, list) and ret in lst:
                i_ = lst.index(ret)
                return i_ > 0 and u(lst[i_ - 1]).replace(' ', '') == 'bin.offset=init_offset'
        return False
    dis_rewinds = bool(fails) and all(rewinds_before(r) for r in fails)
    # the entry point, evaluated for a stream at offset 0 and at offset 5 with a _dis that consumes 2 bytes and fails (however it is written)
    if not dis_rewinds:
        from ..consteval import Native as _Nat
        for start in (0, 5):
            stream_, inst_, cls_ = Obj('stream'), Obj('instr'), Obj('cls')
            stream_.offset = start

            def failing_dis(op_, _s=stream_):
                _s.offset = _s.offset + 2
                return False
            inst_.__init__ = _Nat(lambda *a: None)
            inst_._dis = _Nat(failing_dis)
            cls_.__new__ = _Nat(lambda c, _i=inst_: _i)
            try:
                out_ = Evaluator({}).call_user(entry, [cls_, stream_])
            except NotConst as e:
                raise AnalysisError('x86_mnemo_metaclass.dis is outside the statically evaluable subset: %s' % e)
            if out_ is not None or stream_.offset != start:
                entry_restores = False
                R4.violation('dis:failure-rewinds@%d' % start, 'dis:failure-leaves-offset:start=%d' % start, 'a rejected decode on a stream positioned at offset %d returns %r and leaves the '
                             'offset at %d' % (start, out_, stream_.offset), where(arch, entry), witness="s = bin_stream(b'\\xb8\\x01\\x02', 0); dis(s) is None but s.offset == 1")
                break
        if not entry_restores:
            pass
    if entry_restores or dis_rewinds:
        R4.ok('dis:failure-rewinds', sample='a failed decode restores the stream offset (%s)' % ('entry point' if entry_restores else 'every failing exit of _dis'))
    elif any(k.startswith('dis:failure-leaves-offset:start=') for k in [v.key for v in R4.findings]) if hasattr(R4, 'findings') else False:
        pass
    else:
        R4.violation('dis:failure-rewinds', 'dis:failure-leaves-offset', 'when _dis finds no instruction (%d failing exits) the bytes it consumed stay consumed: the same dis() call on the same '
                     'stream then decodes from the middle of the rejected bytes' % len(fails), where(arch, entry), witness='s = bin_stream(b"\\x0f\\x0b\\x90"...): dis(s) is None twice is not guaranteed')


def frame_locals_rule(ctx, R):
    """p_error of a grammar module walks up the call chain: p_error <- the yacc function that calls self.errorfunc <- LRParser.parse <- the function that calls
    <parser>.parse <- its callers.  For every subscript frame.f_back^k.f_locals['name'] every function that can stand k frames above p_error must bind `name`
    (parameter, assignment, loop target, import).  Comprehensions do not add a frame (the repository runs on python >= 3.12)."""
    yacc = ctx.mod('yacc')
    mods = [ctx.mod(n) for n in ('parse_ad', 'ia32_att', 'ia32_arch')]

    def locals_of(fn):
        out = set(a.arg for a in fn.args.args + fn.args.kwonlyargs)
        if fn.args.vararg:
            out.add(fn.args.vararg.arg)
        if fn.args.kwarg:
            out.add(fn.args.kwarg.arg)
        for n in walk_no_nested(fn):
            if isinstance(n, ast.Name) and isinstance(n.ctx, ast.Store):
                out.add(n.id)
            if isinstance(n, (ast.Import, ast.ImportFrom)):
                out.update((a.asname or a.name).split('.')[0] for a in n.names)
        return out

    def functions(mod):
        return [n for n in ast.walk(mod.tree) if isinstance(n, ast.FunctionDef)]

    def callers_in(mod, pred):
        out = []
        for fn in functions(mod):
            for n in walk_no_nested(fn):
                if isinstance(n, ast.Call) and pred(n):
                    out.append((mod, fn))
                    break
        return out
    n_access = 0
    for gm in mods[:2]:
        pe = gm.funcs.get('p_error')
        if pe is None:
            continue
        accesses = []
        # depth of every local that holds a frame: currentframe() is depth 0, each .f_back one more (temporaries such as parse_frame = frame.f_back.f_back are followed)
        depth_of = {}

        def chain_depth(e):
            k = 0
            while isinstance(e, ast.Attribute) and e.attr == 'f_back':
                k, e = k + 1, e.value
            if isinstance(e, ast.Name) and e.id in depth_of:
                return depth_of[e.id] + k
            if isinstance(e, ast.Call) and u(e.func).split('.')[-1] in ('currentframe', '_getframe'):
                base = e.args[0].value if e.args and isinstance(e.args[0], ast.Constant) and isinstance(e.args[0].value, int) else 0
                return base + k
            return None
        for _ in range(4):
            for n in ast.walk(pe):
                if isinstance(n, ast.Assign) and len(n.targets) == 1 and isinstance(n.targets[0], ast.Name):
                    d_ = chain_depth(n.value)
                    if d_ is not None:
                        depth_of[n.targets[0].id] = d_
        for n in ast.walk(pe):
            if isinstance(n, ast.Subscript) and isinstance(n.value, ast.Attribute) and n.value.attr == 'f_locals' and isinstance(n.slice, ast.Constant) and isinstance(n.slice.value, str):
                k = chain_depth(n.value.value)
                if k is None:
                    raise AnalysisError('%s.p_error: cannot tell which frame `%s` is' % (gm.name, u(n.value.value)))
                accesses.append((k, n.slice.value, n))
        if not accesses:
            continue
        # names bound to a parser built from this module
        parsers = set()
        for st in gm.tree.body:
            if isinstance(st, ast.Assign) and isinstance(st.value, ast.Call) and u(st.value.func).endswith('yacc') and isinstance(st.targets[0], ast.Name):
                parsers.add(st.targets[0].id)
        level = {}
        level[1] = callers_in(yacc, lambda c: isinstance(c.func, ast.Attribute) and c.func.attr == 'errorfunc')
        names1 = set(fn.name for _, fn in level[1])
        level[2] = callers_in(yacc, lambda c: isinstance(c.func, ast.Attribute) and c.func.attr in names1)
        # a yacc function that calls errorfunc and is itself the entry point (parse) may be called directly
        entry = set(fn.name for _, fn in level[2]) | set(fn.name for _, fn in level[1] if fn.name == 'parse')
        level[3] = callers_in(gm, lambda c: isinstance(c.func, ast.Attribute) and c.func.attr in entry and isinstance(c.func.value, ast.Name) and c.func.value.id in parsers)
        names3 = set(fn.name for _, fn in level[3])
        level[4] = []
        for m_ in mods:
            level[4] += callers_in(m_, lambda c: (isinstance(c.func, ast.Name) and c.func.id in names3) or (isinstance(c.func, ast.Attribute) and c.func.attr in names3))
        if not (level[1] and level[2] and level[3]):
            raise AnalysisError('%s.p_error reads caller frames, but the call chain yacc -> %s was not found' % (gm.name, sorted(parsers)))
        for k, name, node in accesses:
            n_access += 1
            inst = '%s.p_error:f_back^%d[%r]' % (gm.name, k, name)
            if k not in level or not level[k]:
                raise AnalysisError('%s.p_error reads the frame %d levels up: no function found at that depth' % (gm.name, k))
            missing = ['%s.%s' % (m_.name, fn.name) for m_, fn in level[k] if name not in locals_of(fn)]
            if missing:
                R.violation(inst, 'frame-local:%s:%s:%d' % (gm.name, name, k), 'p_error of %s reads the local %r of the function %d frames up; %s can stand there and has no such local: the error handler '
                            'raises KeyError instead of the documented ValueError' % (gm.name, name, k, ', '.join(missing)), where(gm, node), witness="asm('mov eax, fs:[8]')")
            else:
                R.ok(inst, sample='%s: %s bind %r' % (inst, ', '.join(sorted(set(fn.name for _, fn in level[k]))), name))
    if not n_access:
        R.ok('no frame introspection', nontrivial=False)


def printed_names(X, c):
    """Mnemonics __str__ can print for a variant (mandatory-prefix suffix scheme expanded)."""
    E = X.env
    if not c.modifs.get(E['mmx']):
        return {c.name}
    out = set()
    for key, vals in E['mmx_suffixes'].items():
        if key in c.name:
            pre, post = c.name.split(key, 1)
            for v in vals:
                out.add(pre + v + post)
            return out
    return {c.name}


def reg_operand_sizes(X, c):
    """Sizes the first (register) operand of a variant can carry after _dis/special_opcodes, over both operand sizes."""
    E, afs = X.env, X.afs
    out = set()
    for opm in (afs.u32, afs.u16):
        if isinstance(c.row.afs, int):
            S = opm
            sdv = c.modifs.get(E['sd'])
            if sdv is not None:
                S = {True: afs.f32, False: afs.f64, 'fp80': afs.f80}.get(sdv, S)
            if c.modifs.get(E['w8']) and not c.modifs.get(E['mmx']):
                S = afs.u08
            if c.modifs.get(E['wd']):
                S = afs.u16
        else:
            S = afs.u08 if c.modifs.get(E['w8']) else opm
        if c.modifs.get(E['sd']) is True and S == afs.u32:
            S = afs.f32
        out.add(S)
    return out


def operand_count(X, c):
    """Number of operand dictionaries _dis produces for a variant (before special_opcodes)."""
    E = X.env
    n = 0
    a = c.row.afs
    if isinstance(a, int) or a == E['reg']:
        n = 1
    elif E['rmr'] in c.row.rm:
        n = 2
        if a == E['cond'] and c.name.startswith('set'):
            n = 1
    for d in c.row.rm:
        if d == E['rmr']:
            continue
        n += 1
    return n


def string_operand_counts(X, strm, c):
    """String instructions get their operands in special_opcodes (2 for movs/cmps, 1 for lods/stos/scas); __str__ elides them under a test.
    The counts that can reach the rest of __str__: evaluated from the elision tests with a segment override on the source."""
    E, afs = X.env, X.afs
    fam2, fam1 = set(E.get('rep_mov_cmp', [])), set(E.get('rep_sto_lod_sca', []))
    if c.modifs.get(E['mmx']) or c.name not in fam2 | fam1:
        return set()
    n = 2 if c.name in fam2 else 1
    es, ds, fs = (afs.reg_sg.index(r) for r in ('es', 'ds', 'fs'))
    edi, esi = afs.reg_dict[afs.r_edi], afs.reg_dict[afs.r_esi]
    out = set()
    for src_seg in (ds, fs):
        if n == 2:
            args = [{edi: 1, afs.ad: True, afs.size: afs.u32, afs.segm: es}, {esi: 1, afs.ad: True, afs.size: afs.u32, afs.segm: src_seg}]
        elif c.name.startswith('lods'):
            args = [{esi: 1, afs.ad: True, afs.size: afs.u32, afs.segm: src_seg}]
        else:
            args = [{edi: 1, afs.ad: True, afs.size: afs.u32, afs.segm: es}]
        env = dict(E)
        env['x86_afs'] = afs
        env['args'] = args
        m = Obj('m')
        m.name = c.name
        me = Obj('self')
        me.m = m
        env['self'] = me
        ev = Evaluator(env)
        elided = False
        try:
            for st in strm.body:
                if isinstance(st, ast.Assign) and isinstance(st.targets[0], ast.Name) and st.targets[0].id == 'default_ds':
                    ev.env['default_ds'] = ev.ev(st.value)
                if isinstance(st, ast.If) and any(isinstance(x, ast.Assign) and u(x.targets[0]) == 'args[0:2]' for x in st.body):
                    if bool(ev.ev(st.test)):
                        elided = True
        except NotConst:
            elided = False
        out.add(0 if elided else n)
    return out


def from_att_total(ctx, R, arch):
    """Partial evaluation of mnemo_from_att over the names an AT&T line can carry: every Intel mnemonic, every entry of the AT&T tables,
    each extended by one suffix letter of the suffix tables and truncated by one letter (two letters / two suffixes in the thorough tier),
    with 0..3 operands of every kind.  The function is table-driven over (name, operand kinds) only, so this enumerates its paths."""
    from ..archinterp import arch_interp
    from ..lifter import LiftError, LiftUnknown
    X, I = arch_interp(ctx)
    afs, E = X.afs, X.env
    fa = I.g.get('mnemo_from_att')
    if fa is None:
        raise AnalysisError('mnemo_from_att not found')
    t = E['att_mnemo_table']
    names = set(n for n in X.lookup if isinstance(n, str) and '#' not in n)
    letters, suffixed = set(), set(('movs', 'movz', 'cmov', 'set', 'j'))
    for k, v in t.items():
        if isinstance(v, dict):
            names |= set(v)
        else:
            names |= set(x for x in v if isinstance(x, str))
            if v and isinstance(v[0], dict):
                letters |= set(v[0])
                suffixed |= set(x for x in v if isinstance(x, str))
    if len(names) < 500 or len(letters) < 4:
        raise AnalysisError('AT&T name universe shrank: %d names, suffix letters %s' % (len(names), sorted(letters)))
    thorough = ctx.tier == 'thorough'
    cands = set(names)
    for n in names:
        cands.add(n[:-1])
        for l in letters:
            cands.add(n + l)
        if thorough:
            cands.add(n[:-2])
            if n in suffixed:
                for l in letters:
                    for l2 in letters:
                        cands.add(n + l + l2)
    cands.discard('')

    def reg(n, sz=afs.u32):
        return {afs.ad: False, afs.size: sz, n: 1}

    def mem():
        return {afs.ad: True, afs.size: afs.u32, 1: 1, afs.imm: 4}

    def imm():
        return {afs.ad: False, afs.imm: 4}
    shapes = [('', []), ('r,r', [reg(1), reg(2)]), ('m', [mem()]), ('i', [imm()])]
    if thorough:
        shapes += [('r', [reg(1)]), ('r,m', [reg(1), mem()]), ('m,r', [mem(), reg(1)]), ('i,r', [imm(), reg(1)]), ('i,m', [imm(), mem()]),
                   ('i,r,r', [imm(), reg(1), reg(2)]), ('r8,r', [reg(1, afs.u08), reg(2)])]
    n_eval = 0
    bad = {}
    for name in sorted(cands):
        for sname, args in shapes:
            n_eval += 1
            try:
                r = I.run(fa, [[], name, [dict(a) for a in args], 'att_syntax'])
            except LiftUnknown as e:
                raise AnalysisError('mnemo_from_att outside the modelled subset on %r (%s): %s' % (name, sname, e))
            for dec, res in r:
                if isinstance(res, LiftError) and res.exc != 'ValueError':
                    bad.setdefault((res.exc, norm(res.node)[:70] if getattr(res, 'node', None) is not None else res.msg[:70]), []).append((name, sname))
    badnames = set(nm for lst in bad.values() for nm, _ in lst)
    for name in sorted(cands - badnames):
        R.ok(name)
    R.note('%d names x %d operand shapes = %d evaluations of mnemo_from_att' % (len(cands), len(shapes), n_eval))
    for (exc, at), lst in sorted(bad.items()):
        nm, sh = lst[0]
        R.violation('from_att:%s:%s' % (exc, at), 'from_att:%s:%s' % (exc, at),
                    'mnemo_from_att fails with %s at `%s` for %d inputs, e.g. mnemonic %r with operands (%s)' % (exc, at, len(lst), nm, sh),
                    where(arch, arch.func('mnemo_from_att')), witness="asm_att(%r ...) -> %s" % (nm, exc))


def mandatory_prefix_rule(ctx, R, X):
    """_dis accepts an MMX/SSE opcode under the mandatory prefix it selects from the prefixes read, mmx_undefined_form rejects (opcode, prefix) pairs with
    its own selection, and __str__ names the instruction (mmx_set_suffix) with a third one.  When they disagree on a list holding two of 66/F2/F3 the
    decoder returns an instruction the renderer names `..INVALID..` and the AT&T rendering raises.  The three selections are evaluated from the source on
    every ordered pair of mandatory prefixes, alone and with a segment / lock prefix between or around them."""
    from ..consteval import Evaluator as _Ev, NotConst as _NC, PyRaise as _PR
    arch = X.arch
    mp = _Ev({}).ev(arch.assign_value('mmx_prefixes'))
    mand = [x for x in mp if x]
    lists = [[a] for a in mand] + [[a, b] for a in mand for b in mand if a != b]
    lists = lists + [[0x26] + l for l in lists] + [l + [0xF0] for l in lists] + [[l[0], 0x64] + l[1:] for l in lists if len(l) == 2] + [[], [0x2E]]

    def sel_str(prefix):
        fn = arch.method('x86_mn', '__str__')
        node = None
        for n in fn.body:
            if isinstance(n, ast.If) and u(n.test) == 'self.m.modifs[mmx]':
                node = n
        if node is None:
            raise AnalysisError('x86_mn.__str__: the mandatory-prefix block (if self.m.modifs[mmx]) was not found')
        stmts = []
        for st in node.body:
            stmts.append(st)
            if isinstance(st, ast.Assign) and u(st.targets[0]) == 'p' and 'mmx_prefixes.index' in u(st.value):
                break
        else:
            raise AnalysisError('x86_mn.__str__: p = mmx_prefixes.index(..) not found')
        loc = {'prefix': list(prefix), 'mmx_prefixes': list(mp)}
        _Ev({}).exec_stmts(stmts, loc)
        return mp[loc['p']], loc['prefix']

    def sel_undef(prefix):
        fn = arch.func('mmx_undefined_form')
        st = [x for x in fn.body if isinstance(x, ast.Assign) and u(x.targets[0]) == 'p']
        if not st:
            raise AnalysisError('mmx_undefined_form: p = .. not found')
        loc = {'prefix': list(prefix), 'mmx_prefixes': list(mp)}
        _Ev({}).exec_stmts(st[:1], loc)
        return loc['p']

    def sel_dis():
        fn = arch.method('x86_mn', '_dis')
        asg = [n for n in ast.walk(fn) if isinstance(n, ast.Assign) and u(n.targets[0]) == 'sse_prefix']
        calls = [n for n in ast.walk(fn) if isinstance(n, ast.Call) and u(n.func) == 'mmx_prefixes.index' and 'sse_prefix' in u(n)]
        if len(asg) != 1 or not calls:
            raise AnalysisError('x86_mn._dis: the selection of the mandatory prefix (sse_prefix, mmx_prefixes.index) was not found')
        return asg[0], calls[0]
    d_asg, d_call = sel_dis()
    for lst in lists:
        inst = 'mandatory prefix of [%s]' % ' '.join('%02x' % b for b in lst)
        try:
            loc = {'read_prefix': list(lst), 'mmx_prefixes': list(mp)}
            _Ev({}).exec_stmts([d_asg], loc)
            p_dis = mp[_Ev({}).ev(d_call, loc)]
            p_und = sel_undef(loc['sse_prefix'])
            p_str, rest = sel_str(lst)
        except _PR as e:
            R.violation(inst, 'mandatory-prefix:raises:%s' % e.exc_name, 'selecting the mandatory prefix of %s raises %s' % (inst, e.exc_name), where(arch, d_asg))
            continue
        except _NC as e:
            raise AnalysisError('the mandatory-prefix selection is outside the evaluable subset: %s' % e)
        want_rest = list(lst)
        if p_dis in want_rest:
            idx = len(want_rest) - 1 - want_rest[::-1].index(p_dis)
        problems = []
        if not (p_dis == p_und == p_str):
            problems.append('_dis selects %02x, mmx_undefined_form %02x, __str__ %02x' % (p_dis, p_und, p_str))
        if p_str and rest.count(p_str) != lst.count(p_str) - 1:
            problems.append('__str__ does not remove exactly one %02x from the prefixes it still prints' % p_str)
        if problems:
            R.violation(inst, 'mandatory-prefix:disagree:%s' % '-'.join('%02x' % b for b in lst if b in mand), '%s: %s; the decoder accepts an instruction the renderer names after another '
                        'prefix (`..INVALID..`, which the AT&T rendering refuses with ValueError)' % (inst, '; '.join(problems)), where(arch, arch.method('x86_mn', '__str__')),
                        witness='f2 f3 0f 6f c1 decodes as movdqu (F3); rendered with the first prefix it is movINVALID')
        else:
            R.ok(inst, nontrivial=(len([b for b in lst if b in mand]) > 1))


MUTANTS = [
    ('asm-imm-branch-no-operand-guard', 'miasmx/arch/ia32_arch.py', '                elif dib in [imm, ims]:\n                    if len(args_sample)<=0:\n                        good_c = False\n                        break\n', '                elif dib in [imm, ims]:\n', 'C10.D13'),

    ('p-error-local-renamed', 'miasmx/core/parse_ad.py', "f_back.f_back.f_back.f_back.f_locals['l']", "f_back.f_back.f_back.f_back.f_locals['line']", 'C10.D10'),
    ('mmx-mem-size-unrenderable', 'miasmx/arch/ia32_arch.py', "    '#p#movsxdq': x86_afs.f64, '#p#movzxdq': x86_afs.f64,", "    '#p#movsxdq': x86_afs.u64, '#p#movzxdq': x86_afs.u64,", 'C10.D2'),
    ('x87-size-keyerror', 'miasmx/arch/ia32_arch.py', "x86_afs.f32:x86_afs.f32, x86_afs.f64:x86_afs.f64}.get(size)", "x86_afs.f32:x86_afs.f32, x86_afs.f64:x86_afs.f64}[size]", 'C10.D3'),
    ('dis-failure-no-rewind', 'miasmx/arch/ia32_arch.py', "            if init_offset is not None:\n                # nothing was decoded: leave the stream where it was\n                op.offset = init_offset\n", "", 'C10.D4'),
    ('rekey-while-iterating', 'miasmx/arch/ia32_arch.py', "                    for x in list(tmp_order[1]):", "                    for x in tmp_order[1]:", 'C10.D3'),
    ('dis-new-raise', 'miasmx/arch/ia32_arch.py', "            elif afs == reg:\n                mafs = dict(x86mndb.get_afs_re(c&(0xFF^mask_reg)))\n",
     "            elif afs == reg:\n                if m.modifs[w8]: raise ValueError('todo')\n                mafs = dict(x86mndb.get_afs_re(c&(0xFF^mask_reg)))\n", 'C10.D1'),
    ('dis-except', 'miasmx/arch/ia32_arch.py', "        except IOError:\n            log.warning( \"cannot dis: not enougth bytes\")", "        except EOFError:\n            log.warning( \"cannot dis: not enougth bytes\")", 'C10.D'),
    ('readbs-nocheck', 'miasmx/core/bin_stream.py', "    def readbs(self, l=1):\n        if self.offset+l>self.l:\n            raise IOError\n        self.offset+=l\n        return self.bin[self.offset-l:self.offset]",
     "    def readbs(self, l=1):\n        self.offset+=l\n        return self.bin[self.offset-l:self.offset]", 'C10.D4'),
    ('new-afs-kind', 'miasmx/arch/ia32_arch.py', "            elif mod == 1: # rm != 4\n                self.db_afs[i] = {x86_afs.ad:True, rm:1,x86_afs.imm:x86_afs.s08}",
     "            elif mod == 1: # rm != 4\n                self.db_afs[i] = {x86_afs.ad:True, rm:1,x86_afs.imm:x86_afs.s16}", 'C10.D1'),
    ('asm-typeerror', 'miasmx/arch/ia32_arch.py', '                            raise ValueError("sw in r_eax zarb")', '                            raise TypeError("sw in r_eax zarb")', 'C10.D3'),
    ('sd-new-value', 'miasmx/arch/ia32_arch.py', "addop(\"fstp\",  [0xDB],             d7,    no_rm         , {}                 ,{sd:'fp80'}", "addop(\"fstp\",  [0xDB],             d7,    no_rm         , {}                 ,{sd:'fp96'}", 'C10.D'),
    ('loop-noprogress', 'miasmx/arch/ia32_arch.py', "            while True:\n                c = ord(bin.readbs())\n                read_bytes.append(c)\n", "            c = ord(bin.readbs())\n            while True:\n                read_bytes.append(c)\n", 'C10.D4'),
    ('from-att-suffix-keyerror', 'miasmx/arch/ia32_arch.py', "        if name[:-1] in att_mnemo_table[table] \\\n                and name[-1] in att_mnemo_table[table][0]:", "        if name[:-1] in att_mnemo_table[table]:", 'C10.D5'),
    ('str-args2', 'miasmx/arch/ia32_arch.py', "            if self.m.name in float_st_mnemo:\n                args = [ st, args[0] ]", "            if self.m.name in float_st_mnemo:\n                args = [ st, args[1] ]", 'C10.D2'),
    ('imm-typing-set-key', 'miasmx/arch/ia32_arch.py', "        elif len(size) == 1 and list(size)[0] in tab_size2int:\n            size = size.pop()\n        else:", "        elif len(size) == 1 and list(size)[0] in tab_size2int:\n            size = size.pop()\n        elif len(size) == 0:", 'C10.D7'),
    ('imm-typing-x87-key', 'miasmx/arch/ia32_arch.py', "        elif len(size) == 1 and list(size)[0] in tab_size2int:", "        elif len(size) == 1:", 'C10.D7'),
    ('scale-unbounded', 'miasmx/core/parse_ad.py', "    if isinstance(v, str) and n*len(v) > 9*len(x86_afs.u32):", "    if False:", 'C10.D8'),
    ('scale-per-factor', 'miasmx/core/parse_ad.py', "    if isinstance(v, str) and n*len(v) > 9*len(x86_afs.u32):", "    if isinstance(v, str) and n > 9:", 'C10.D8'),
    ('str-first-mandatory-prefix', 'miasmx/arch/ia32_arch.py', "                p = sse[-1]\n                prefix.remove(p)", "                p = sse[0]\n                prefix.remove(p)", 'C10.D9'),
    ('undef-first-mandatory-prefix', 'miasmx/arch/ia32_arch.py', "    p = ([0]+[_ for _ in prefix if _ in mmx_prefixes[1:]])[-1]", "    p = ([_ for _ in prefix if _ in mmx_prefixes[1:]]+[0])[0]", 'C10.D9'),
]
