"""C17 -- control-flow metadata agrees with the architectural behaviour."""
import ast
import os

from ..core import AnalysisError, where, norm, VERIF
from ..x86table import model
from ..shapes import return_paths, u
from ..srcmodel import walk_no_nested, parent

CLASS_FLAGS = {
    'none': (False, False, False),
    'break': (True, False, False),
    'break+dst': (True, False, True),
    'break+split+dst': (True, True, True),
}


def load_flow_ref():
    path = os.path.join(VERIF, 'ref', 'ia32_flow.ref')
    out = {}
    with open(path) as f:
        for ln, line in enumerate(f, 1):
            line = line.split('#')[0].rstrip()
            if not line.strip():
                continue
            parts = line.split()
            # bytes... ext class rel mnemonic
            i = 0
            bs = []
            while i < len(parts) and len(parts[i]) == 2 and all(c in '0123456789ABCDEFabcdef' for c in parts[i]):
                bs.append(int(parts[i], 16))
                i += 1
            ext, cls, rel, mn = parts[i:i + 4]
            out[(tuple(bs), ext)] = {'class': cls, 'rel': rel, 'mnemonic': mn, 'line': ln}
    return out


def flatten_add(n):
    if isinstance(n, ast.BinOp) and isinstance(n.op, ast.Add):
        return flatten_add(n.left) + flatten_add(n.right)
    return [n]


def run(ctx, report):
    M = model(ctx)
    arch = M.arch
    E = M.env
    bkf, spf, dtf = E['bkf'], E['spf'], E['dtf']
    ref = load_flow_ref()
    report.explanation = (
        'D1: every cell of the statically expanded opcode table (539 addop rows -> trie cells, grouped into opcode units) carries '
        'exactly the (breakflow, splitflow, dstflow) attributes of its architectural class in ref/ia32_flow.ref; every unit absent from '
        'the ref must carry none (syscall family excluded as the property says). D2: relative-displacement opcodes use signed operand '
        'kinds (s08 / s32 / ims), far pointers imm+u16; the struct formats of signed kinds are signed; the decoder narrows s32 to s16 '
        'under the 16-bit OPERAND size. D3: def-use templates of getnextflow (offset + l), getdstflow ((offset + l + imm) & '
        'tab_max_uint[opmode]) and breakflow/splitflow/dstflow (the three table attributes).')
    report.not_decided = 'numeric value extraction of a concrete displacement inside _dis (struct.unpack at run time).'
    report.analysed['rows'] = len(M.rows)
    report.analysed['cells'] = len(M.cells)

    R1 = report.rule('C17.D1', 'flow attributes of every opcode unit equal the architectural class', floor=300)
    units = M.units()
    seen_ref = set()
    for (bs, ext), cells in sorted(units.items(), key=lambda kv: (kv[0][0], kv[0][1])):
        rkey = (bs, ext if not ext.startswith('+cc') else '+cc')
        if ext == '':
            rkey = (bs, '-')
        if ext == '+r':
            rkey = (bs, '+r')
        entry = ref.get(rkey)
        if entry is None and len(bs) > 1 and bs[0] == 0x66 and (bs[1:], rkey[1]) in ref:
            # a row whose opcode starts with the operand-size prefix (the 16-bit twin of a one-byte opcode: movsw, iretw):
            # the prefix does not change the control-transfer class
            entry = ref[(bs[1:], rkey[1])]
        if entry:
            seen_ref.add(rkey)
        cls = entry['class'] if entry else 'none'
        for c in cells[:1] + [x for x in cells[1:] if x.row is not cells[0].row]:
            got = (bool(c.modifs.get(bkf)), bool(c.modifs.get(spf)), bool(c.modifs.get(dtf)))
            inst = '%s %s%s' % (c.name, ' '.join('%02X' % b for b in bs), ext if ext else '')
            if cls == 'either':
                R1.ok(inst, sample='%s: either classification allowed' % inst, nontrivial=False)
                continue
            want = CLASS_FLAGS[cls]
            if got == want:
                R1.ok(inst, nontrivial=(cls != 'none'),
                      sample=('%s: (bkf,spf,dtf)=%s == class %s' % (inst, got, cls)) if cls != 'none' else None)
            else:
                R1.violation(inst, 'flow:%s' % inst, 'row %s has (breakflow,splitflow,dstflow)=%s, architectural class is %s %s'
                             % (c.row.key(), got, cls, want), where(arch, c.row.node))
    for rkey, entry in ref.items():
        if rkey not in seen_ref and entry['class'] != 'either':
            R1.note('ref opcode %s %s (%s) is not in the table' % (' '.join('%02X' % b for b in rkey[0]), rkey[1], entry['mnemonic']))

    R2 = report.rule('C17.D2', 'relative targets are signed and sized by the operand size', floor=10)
    signed_ok = {'rel8': [E['s08']], 'relv': [E['s32'], E['ims']]}
    for (bs, ext), cells in units.items():
        rkey = (bs, '+cc' if ext.startswith('+cc') else (ext or '-'))
        entry = ref.get(rkey)
        if not entry or entry['rel'] in ('-', 'ind'):
            continue
        c = cells[0]
        inst = '%s %s' % (c.name, ' '.join('%02X' % b for b in bs))
        rm = list(c.rm)
        if entry['rel'] in signed_ok:
            w8v = bool(c.modifs.get(E['w8']))
            kind_ok = len(rm) == 1 and ((rm[0] == E['ims'] and w8v == (entry['rel'] == 'rel8')) or
                                        (rm[0] != E['ims'] and rm[0] in signed_ok[entry['rel']]))
            if kind_ok:
                R2.ok(inst, sample='%s: displacement kind %s is signed (%s)' % (inst, rm[0], entry['rel']))
            else:
                R2.violation(inst, 'rel:%s' % inst, 'relative displacement of %s is declared %s, expected one of %s'
                             % (c.row.key(), rm, signed_ok[entry['rel']]), where(arch, c.row.node))
        elif entry['rel'] == 'abs':
            if len(rm) == 2 and rm[0] in (E['imm'], E['ims']) and rm[1] == E['u16']:
                R2.ok(inst, sample='%s: far pointer %s' % (inst, rm))
            else:
                R2.violation(inst, 'rel:%s' % inst, 'far pointer of %s is declared %s, expected [imm|ims, u16]' % (c.row.key(), rm),
                             where(arch, c.row.node))
    # struct formats: signed kinds -> lower-case (signed) letters of the right width
    ds = M.afs.dict_size
    want_fmt = {E['s08']: 'b', E['u08']: 'B', E['s16']: 'h', E['u16']: 'H', E['s32']: 'i', E['u32']: 'I'}
    for k, f in want_fmt.items():
        if ds.get(k) == f:
            R2.ok('dict_size[%s]' % k, sample='x86_afs.dict_size[%s] = %r' % (k, f))
        else:
            R2.violation('dict_size[%s]' % k, 'dict_size:%s' % k, 'struct format of %s is %r, expected %r' % (k, ds.get(k), f),
                         where(M.reg, M.reg.method('afs_desc', '__init__')))
    # get_im_fmt, evaluated on se x w8 x mode x kind: ims -> signed formats of the operand size, w8 -> one byte
    gif = arch.method('x86allmncs', 'get_im_fmt')
    tab = M.im_fmt_table()
    afs_ = M.afs
    want_im = {}
    for mode, (fu, tu, fs, ts) in ((afs_.u32, ('I', E['u32'], 'i', E['s32'])), (afs_.u16, ('H', E['u16'], 'h', E['s16']))):
        want_im[(False, False, mode, 'imm')] = ({'I': 4, 'H': 2}[fu], fu, tu)
        want_im[(False, False, mode, 'ims')] = ({'i': 4, 'h': 2}[fs], fs, ts)
        want_im[(False, True, mode, 'imm')] = (1, 'B', E['u08'])
        want_im[(False, True, mode, 'ims')] = (1, 'b', E['s08'])
        for w8_ in (False, True):
            for kind in ('imm', 'ims'):
                want_im[(True, w8_, mode, kind)] = (1, 'b', E['s08'])
    bad_im = [(k, tab.get(k), w) for k, w in sorted(want_im.items(), key=str) if tab.get(k) != w]
    if not bad_im:
        R2.ok('get_im_fmt', sample='get_im_fmt evaluated on %d combinations: ims -> i/h by the mode argument, w8 ims -> b, se -> b' % len(want_im))
    else:
        k, got, w = bad_im[0]
        R2.violation('get_im_fmt', 'get_im_fmt:signed', 'get_im_fmt(se=%s, w8=%s, mode=%s, %s) gives %s; the immediate is read as %s' % (k[0], k[1], k[2], k[3], got, w), where(arch, gif))
    # the same questions asked of one table object, in two orders: the format of a relative displacement must not depend on the instructions decoded before
    hist = getattr(M, '_im_fmt_history', [])
    if not hist:
        R2.ok('get_im_fmt:history', sample='get_im_fmt asked %d questions of one instance in two orders: every answer equals the answer of a fresh instance' % (2 * len(tab)))
    else:
        k, fresh, got = hist[0]
        R2.violation('get_im_fmt:history', 'get_im_fmt:history:%s' % k[3], 'get_im_fmt(se=%s, w8=%s, mode=%s, %s) gives %s on a fresh table object and %s after other questions were asked of the same '
                     'object: the signedness / width of an immediate or relative displacement depends on what was decoded before' % (k[0], k[1], k[2], k[3], fresh, got), where(arch, gif),
                     witness="dis('b001') then dis('ebfe').getdstflow()")
    dis = arch.method('x86_mn', '_dis')
    # the narrowing of s32 under the 16-bit operand size and the reading of imm / ims are decided by evaluation: C17.D5 (bytes by mode) and C17.D8 (value, sign, width)

    R3 = report.rule('C17.D3', 'address arithmetic and attribute accessors by def-use', floor=6)
    fn = arch.method('x86_mn', 'getnextflow')
    ps = return_paths(fn)
    if len(ps) == 1 and sorted(u(x) for x in flatten_add(ps[0].ret)) == ['self.l', 'self.offset']:
        R3.ok('getnextflow', sample='getnextflow -> ' + u(ps[0].ret))
    else:
        R3.violation('getnextflow', 'getnextflow:' + ' | '.join(u(p.ret) for p in ps), 'fall-through address is not offset + length: %s'
                     % [u(p.ret) for p in ps], where(arch, fn))
    for name, attr in (('breakflow', 'bkf'), ('splitflow', 'spf'), ('dstflow', 'dtf')):
        fn = arch.method('x86_mn', name)
        ps = return_paths(fn)
        if len(ps) == 1 and u(ps[0].ret) == 'self.m.modifs[%s]' % attr:
            R3.ok(name, sample='%s -> %s' % (name, u(ps[0].ret)))
        else:
            R3.violation(name, '%s:%s' % (name, ' | '.join(u(p.ret) for p in ps)), '%s does not return the table attribute %s' % (name, attr),
                         where(arch, fn))
    fn = arch.method('x86_mn', 'getdstflow')
    # (the arithmetic of the direct destination -- offset + length + displacement, reduced to the operand size -- is decided by evaluation: C17.D6)
    # getdstflow is total over the units that carry the destination-flow attribute: an instruction with more (or
    # fewer) than one operand must be returned by a special case before the `len(self.arg) != 1` rejection
    from ..consteval import Evaluator as _Ev, Obj as _Obj, Native as _Nat, NotConst as _NC, _Return as _Ret
    from .c01 import model_sig
    n_multi = 0
    seen_units = set()
    X = M
    for key, cells in X.units().items():
        for c in cells:
            if not c.modifs.get(E['dtf']) or c.modifs.get(E['mmx']):
                continue
            nargs = len(model_sig(X, c))
            if nargs == 1 or (c.name, nargs) in seen_units:
                continue
            seen_units.add((c.name, nargs))
            n_multi += 1
            me = _Obj('self')
            mm_ = _Obj('m')
            mm_.name = c.name
            me.m = mm_
            me.arg = [{'operand': k} for k in range(nargs)]
            me.offset, me.l, me.opmode = 0, 7, X.afs.u32
            scope = {'self': me, 'x86_afs': X.afs, 'is_imm': _Nat(lambda d: True), 'tab_max_uint': {}, 'len': _Nat(len)}
            ev_ = _Ev({})
            ev_.env = scope
            inst = 'getdstflow:%s with %d operands' % (c.name, nargs)
            try:
                ev_.exec_stmts(fn.body, scope)
                R3.violation(inst, 'getdstflow:arity:%s:%d' % (c.name, nargs), 'getdstflow falls through without a result for %s' % inst, where(arch, fn))
            except _Ret as r:
                if isinstance(r.v, list) and len(r.v) == 1 and r.v[0] is me.arg[0]:
                    R3.ok(inst, sample='%s: destination is its first operand' % inst)
                else:
                    R3.violation(inst, 'getdstflow:arity:%s:%d:value' % (c.name, nargs), '%s returns %r' % (inst, r.v), where(arch, fn))
            except _NC as e:
                if 'Raise' in str(e) or getattr(e, 'exc_name', None) is not None:
                    R3.violation(inst, 'getdstflow:arity:%s:%d' % (c.name, nargs), 'the opcode table gives %s (%d operands) the destination-flow attribute, but getdstflow raises for every '
                                 'instruction that does not have exactly one operand' % (c.name, nargs), where(arch, fn), witness='dis(9a 78 56 34 12 34 12).getdstflow() raises ValueError')
                else:
                    raise AnalysisError('getdstflow outside the evaluable subset: %s' % e)
    if n_multi < 2:
        raise AnalysisError('expected the far jump and far call units among the destination-flow units, found %d' % n_multi)
    tmu = E.get('tab_max_uint')
    want = {E['u08']: 0xFF, E['u16']: 0xFFFF, E['u32']: 0xFFFFFFFF}
    if isinstance(tmu, dict) and all(tmu.get(k) == v for k, v in want.items()):
        R3.ok('tab_max_uint', sample='tab_max_uint = %s' % dict((k, hex(v)) for k, v in tmu.items()))
    else:
        R3.violation('tab_max_uint', 'tab_max_uint', 'tab_max_uint does not hold 2^n-1 per operand size: %r' % (tmu,), where(arch, arch.assigns['tab_max_uint'][-1]))
    # _dis stores offset / length
    stores = {}
    local = {}
    for n in walk_no_nested(dis):
        if isinstance(n, ast.Assign) and len(n.targets) == 1:
            t = u(n.targets[0])
            if t in ('self.offset', 'self.l'):
                stores.setdefault(t, []).append(n.value)
            if isinstance(n.targets[0], ast.Name):
                local.setdefault(t, []).append(n.value)
    ok_off = [u(v) for v in stores.get('self.offset', [])] == ['init_offset'] and [u(v) for v in local.get('init_offset', [])] == ['bin.offset']
    lv = stores.get('self.l', [])
    ok_len = len(lv) == 1 and (u(lv[0]) == 'bin.offset - init_offset' or
                               (isinstance(lv[0], ast.Name) and [u(v) for v in local.get(lv[0].id, [])] == ['bin.offset - init_offset']))
    if ok_off and ok_len:
        R3.ok('_dis:offset/l', sample='_dis: self.offset = init_offset (= bin.offset at entry); self.l = bin.offset - init_offset')
    else:
        R3.violation('_dis:offset/l', '_dis:offset/l:%s/%s' % ([u(v) for v in stores.get('self.offset', [])], [u(v) for v in lv]),
                     'decoder does not record offset = entry offset and l = bytes consumed', where(arch, dis))

    # ---------------------------------------------------------------- D4 renamed row copies keep the attributes of their row
    R5 = report.rule('C17.D5', 'the operand / address size under which displacements are fetched: overrides switch the default once; every fetch reads the width its mode prescribes (shared with C01.D3)', floor=12)
    from .c01 import fetch_width_rule
    fetch_width_rule(ctx, R5)

    R4 = report.rule('C17.D4', 'a row copy that special_opcodes swaps in (iretw, pushfw, movsw, lfence ...) is a copy of the row it stands for, so that its flow attributes are that row\'s', floor=10)
    from ..stringops import renamed_copy_rule
    renamed_copy_rule(M, R4, 'the control-flow attributes (breakflow / splitflow / dstflow) are those')


    # ---------------------------------------------------------------- D6 destination of a direct branch, evaluated
    R6 = report.rule('C17.D6', 'getdstflow evaluated from the source on immediates typed by intsize (sign-extended kind and plain kind) x operand size x offsets in both halves of the '
                     'address range: the destination is offset + length + displacement reduced to the operand size, as a non-negative address', floor=20)
    dst_eval_rule(ctx, R6, M)

    # ---------------------------------------------------------------- D7 which operands a segment prefix reaches
    R7 = report.rule('C17.D7', 'every store of a segment override into a decoded operand is guarded so that it reaches memory operands only (guards evaluated on the register, immediate and memory '
                     'operand kinds): a branch with a 2e/3e hint prefix keeps an immediate operand that is_imm still recognises, so its destination is still reported', floor=3)
    segm_guard_rule(ctx, R7, M)

    # ---------------------------------------------------------------- D9 flow attributes reach every cell of their row
    R9 = report.rule('C17.D9', 'x86allmncs.addop interpreted on every row that declares a control-flow attribute: each decode cell the row expands to (the variants with an opcode bit toggled - '
                     'EB beside E9 - included) carries the attributes of the row', floor=20)
    n9 = 0
    for row in M.rows:
        want9 = dict((k_, row.sem.get(k_, row.prop.get(k_))) for k_ in (bkf, spf, dtf) if row.sem.get(k_, row.prop.get(k_)))
        if not want9:
            continue
        n9 += 1
        cells9 = M.addop_cells(row)
        badc = [(p_, c_) for p_, c_ in sorted(cells9.items()) if any(not c_[1].get(k_) for k_ in want9)]
        inst9 = 'flow-reach:%s' % row.key()
        if not cells9:
            R9.violation(inst9, 'flow-reach:%s:no-cell' % row.name, 'addop fills no decode cell for the row %s' % row.key(), where(arch, row.node))
        elif badc:
            p_, c_ = badc[0]
            R9.violation(inst9, 'flow-reach:%s' % row.name, 'the row %s declares %s, but the cell %s (%s) that addop builds for it carries %s: the instruction is decoded without its control-flow '
                         'attributes' % (row.key(), sorted(str(k_) for k_ in want9), ' '.join('%02X' % b for b in p_), c_[0], dict((str(k_), c_[1].get(k_)) for k_ in want9)),
                         where(arch, row.node), witness='eb fe (jmp rel8) reported as not ending its block')
        else:
            R9.ok(inst9, sample='%s: %d cells carry %s' % (row.key(), len(cells9), sorted(str(k_) for k_ in want9)), nontrivial=(len(cells9) > 1))

    # ---------------------------------------------------------------- D8 the displacement as the decoder reads it
    R8 = report.rule('C17.D8', 'the operand loop of _dis evaluated on every immediate kind x (w8, se) of the live cells x operand size x boundary byte patterns: bytes consumed, width and '
                     'value (sign- or zero-extended) of the immediate are the architectural ones, so a relative displacement reaches getdstflow with its sign (shared with C01.D14)', floor=18)
    from ..immdecode import imm_decode_rule
    imm_decode_rule(ctx, R8, M, 'C17')


def segm_guard_rule(ctx, R, M):
    """Store sites `<operand>[x86_afs.segm] = ..` in ia32_arch: the conditions guarding each site (enclosing if / else branches, earlier `if ..: continue|break|return` in the enclosing
    blocks) are evaluated with the checker's interpreter on operand dictionaries of the three kinds the decoder builds.  A conjunct the interpreter cannot evaluate (it does not speak about
    the operand) counts as possibly true.  For a kind the store can reach, is_imm / is_reg / is_address of the operand with the segment key must answer as without it."""
    from ..consteval import Evaluator, NotConst, PyRaise
    arch, afs, E = M.arch, M.afs, M.env
    scope = dict((k, v) for k, v in E.items() if isinstance(v, (str, int, bool, list, tuple, dict)) or v is None)
    scope['x86_afs'] = afs
    for fname_, fnode_ in arch.funcs.items():
        scope.setdefault(fname_, fnode_)
    kinds = {
        'immediate as read': {afs.imm: 5},
        'immediate completed': {afs.imm: 5, afs.ad: False, afs.size: afs.u32},
        'symbolic immediate': {afs.symb: {'lbl': 1}, afs.ad: False, afs.size: afs.u32},
        'register': {0: 1, afs.ad: False, afs.size: afs.u32},
        'memory [eax+5]': {0: 1, afs.imm: 5, afs.ad: True, afs.size: afs.u32},
        'memory [abs]': {afs.imm: 0x1000, afs.ad: afs.u32, afs.size: afs.u32},
    }
    preds = [f for f in ('is_imm', 'is_reg', 'is_address') if f in arch.funcs]
    if len(preds) < 3:
        raise AnalysisError('operand kind predicates is_imm / is_reg / is_address not all found in ia32_arch')

    def may_hold(cond, env):
        try:
            return bool(Evaluator(dict(scope, **env)).ev(cond))
        except PyRaise:
            return False
        except NotConst:
            if isinstance(cond, ast.BoolOp):
                rs = [may_hold(v, env) for v in cond.values]
                return all(rs) if isinstance(cond.op, ast.And) else any(rs)
            if isinstance(cond, ast.UnaryOp) and isinstance(cond.op, ast.Not):
                try:
                    return not bool(Evaluator(dict(scope, **env)).ev(cond.operand))
                except (NotConst, PyRaise):
                    return True
            return True

    sites = []
    for fn in [n for n in ast.walk(arch.tree) if isinstance(n, ast.FunctionDef)]:
        for n in walk_no_nested(fn):
            if isinstance(n, ast.Assign):
                for t in n.targets:
                    if isinstance(t, ast.Subscript) and u(t.slice) in ('x86_afs.segm', 'afs.segm') :
                        sites.append((fn, n, t))
    if not sites:
        raise AnalysisError('no store of a segment override into an operand found in ia32_arch (the decode fix-up loop is expected)')
    mem_reached = False
    for fn, st, t in sites:
        if not isinstance(t.value, ast.Name):
            mem_reached = True
            R.note('segment store into %s in %s is not a store into a named operand: not followed' % (u(t.value), fn.name))
            continue
        var = t.value.id
        guards = []        # (cond, polarity)
        node = st
        while node is not fn:
            par = parent(node)
            if par is None:
                break
            for fld in ('body', 'orelse', 'finalbody'):
                lst = getattr(par, fld, None)
                if isinstance(lst, list) and node in lst:
                    if isinstance(par, (ast.If, ast.While)):
                        guards.append((par.test, fld == 'body'))
                    for prev in lst[:lst.index(node)]:
                        if isinstance(prev, ast.If) and not prev.orelse and prev.body and isinstance(prev.body[-1], (ast.Continue, ast.Break, ast.Return, ast.Raise)):
                            guards.append((prev.test, False))
            node = par
        for kname, kd in kinds.items():
            env = {var: dict(kd)}
            reach = all((may_hold(c, env) if pol else may_hold(ast.UnaryOp(op=ast.Not(), operand=c), env)) for c, pol in guards)
            inst = 'segm-store@%s:%s' % (fn.name, kname)
            if not reach:
                R.ok(inst, sample='the segment store in %s does not reach an operand of kind %s' % (fn.name, kname))
                continue
            if kname.startswith('memory'):
                mem_reached = True
            with_seg = dict(kd)
            with_seg[afs.segm] = 1
            changed = []
            for pf in preds:
                try:
                    a_ = bool(Evaluator(scope).call_user(arch.funcs[pf], [dict(kd)]))
                    b_ = bool(Evaluator(scope).call_user(arch.funcs[pf], [with_seg]))
                except (NotConst, PyRaise) as e:
                    raise AnalysisError('%s is outside the evaluable subset: %s' % (pf, e))
                if a_ != b_:
                    changed.append('%s: %s -> %s' % (pf, a_, b_))
            if changed:
                R.violation(inst, 'segm-store:%s' % kname.split()[0], 'the segment override stored by %s reaches an operand of kind %s (guards: %s); with the segment key the operand is classified '
                            'differently (%s): getdstflow no longer finds the destination of a direct branch that carries a 2e / 3e hint prefix'
                            % (fn.name, kname, ' and '.join(('' if pol else 'not ') + '(' + u(c) + ')' for c, pol in guards) or 'none', '; '.join(changed)), where(arch, st),
                            witness='2e 74 05 (jz with a branch hint): getdstflow')
            else:
                R.ok(inst, sample='the segment store in %s reaches %s operands; their kind is unchanged by the key' % (fn.name, kname))
    if not mem_reached:
        R.violation('segm-store:memory', 'segm-store:never-reaches-memory', 'no store of a segment override can reach a memory operand: the guards of %s exclude every memory operand kind'
                    % ', '.join(sorted(set(f.name for f, _, _ in sites))), where(arch, sites[0][1]), witness='64 8b 00: mov eax, fs:[eax]')


def dst_eval_rule(ctx, R, M):
    from ..consteval import Evaluator, Obj, NotConst, PyRaise, class_obj
    from .. import simpeval as SE
    arch, afs, E = M.arch, M.afs, M.env
    gdf = arch.method('x86_mn', 'getdstflow')
    isz = arch.method('x86_mn', 'intsize')
    scope = dict((k, v) for k, v in E.items() if isinstance(v, (str, int, bool, list, tuple, dict)) or v is None)
    scope.update(SE.INT_CLASSES)
    scope['x86_afs'] = afs
    for fname_, fnode_ in arch.funcs.items():
        scope.setdefault(fname_, fnode_)
    # tables built from the integer classes (tab_max_uint ...) re-evaluated with the model classes
    for st in arch.tree.body:
        if isinstance(st, ast.Assign) and len(st.targets) == 1 and isinstance(st.targets[0], ast.Name) and any(isinstance(x, ast.Name) and x.id in SE.INT_CLASSES for x in ast.walk(st.value)):
            try:
                scope[st.targets[0].id] = Evaluator(scope).ev(st.value)
            except NotConst:
                pass
    n = 0
    for mode, bits in ((afs.u32, 32), (afs.u16, 16)):
        for ext in (True, False):
            for name in (('jmp',) if ext else ('jz', 'call')):
                for offset in (0x10, 0x9000, 0x7FFFFFF0, 0x80001000, 0xFFFFFFF0):
                    for disp, length in ((-2, 2), (0x10, 2), (-0x80, 2), (0x7F, 2), (-0x1000, 5), (0x12345, 5)):
                        if bits == 16 and not -0x8000 <= disp < 0x8000:
                            continue
                        me = class_obj(arch, 'x86_mn', 'self')
                        m_ = Obj('m')
                        m_.name = name
                        m_.modifs = dict((E[k_], None) for k_ in ('w8', 'se', 'sw', 'sd', 'wd', 'mmx') if k_ in E)
                        me.m, me.opmode, me.admode, me.offset, me.l = m_, mode, afs.u32, offset, length
                        try:
                            imm = Evaluator(scope).call_user(isz, [me, disp, ext])
                            me.arg = [{afs.imm: imm, afs.ad: False, afs.size: mode}]
                            out = Evaluator(scope).call_user(gdf, [me])
                        except PyRaise as e:
                            R.violation('dst[%s]' % name, 'dst-eval:%s:raises:%s' % (name, e.exc_name), 'getdstflow of %s at %#x (%d-bit operand size, displacement %d) raises %s' % (name, offset, bits, disp, e.exc_name),
                                        where(arch, gdf))
                            continue
                        except NotConst as e:
                            raise AnalysisError('getdstflow / intsize are outside the evaluable subset: %s' % e)
                        n += 1
                        want = (offset + length + disp) % (1 << bits)
                        inst = 'dst[%s,%d,%s]' % (name, bits, 'ims' if ext else 'rel')
                        got = out[0] if isinstance(out, list) and len(out) == 1 else out
                        if isinstance(got, int) and int(got) == want:
                            R.ok(inst, sample='%s at %#x + %d, displacement %d, %d-bit: %#x' % (name, offset, length, disp, bits, want), nontrivial=(n % 7 == 0))
                        else:
                            R.violation(inst, 'dst-eval:%s:%d:%s' % (name, bits, 'ims' if ext else 'rel'), 'destination of %s at %#x (length %d, displacement %d, %d-bit operand size) is reported as %s; '
                                        'the architectural target is %#x' % (name, offset, length, disp, bits, ('%#x' % int(got)) if isinstance(got, int) else repr(got), want), where(arch, gdf),
                                        witness='66 eb fd at 0x9000')


MUTANTS = [
    ('ims-not-sign-extended', 'miasmx/arch/ia32_arch.py', 'self.intsize(struct.unpack(fmt, bin.readbs(taille))[0], dib==ims)})', 'self.intsize(struct.unpack(fmt, bin.readbs(taille))[0], False)})', 'C17.D8'),

    ('segm-on-non-register', 'miasmx/arch/ia32_arch.py', '                    if is_address(a) and p in prefix_seg.values():', '                    if not is_reg(a) and p in prefix_seg.values():', 'C17.D7'),
    ('intsize-ext-signed', 'miasmx/arch/ia32_arch.py', "            return [uint16, uint32][self.opmode == u32](im)", "            return [int16, int32][self.opmode == u32](im)", 'C17.D6'),
    ('iretw-copy-of-into', 'miasmx/arch/ia32_arch.py', "        pm = self.db_mnemo[0xcf]\n        self.iretw_m", "        pm = self.db_mnemo[0xce]\n        self.iretw_m", 'C17.D4'),
    ('dstflow-farcall-raises', 'miasmx/arch/ia32_arch.py', '        if self.m.name == "jmpf" or \\\n                (self.m.name == "call" and len(self.arg) == 2):', '        if self.m.name == "jmpf":', 'C17.D3'),
    ('hlt-noflow', 'miasmx/arch/ia32_arch.py',
     'addop("hlt",   [0xF4],             noafs, no_rm         , {}                 ,{}                , {bkf:True}                  )',
     'addop("hlt",   [0xF4],             noafs, no_rm         , {}                 ,{}                , {}                  )', 'C17.D1'),
    ('loop-unsigned', 'miasmx/arch/ia32_arch.py',
     'addop("loop",  [0xE2],             noafs, [s08]', 'addop("loop",  [0xE2],             noafs, [u08]', 'C17.D2'),
    ('nextflow', 'miasmx/arch/ia32_arch.py', 'return self.offset+self.l', 'return self.offset', 'C17.D3'),
    ('int-break', 'miasmx/arch/ia32_arch.py',
     'addop("int",   [0xCD],             noafs, [u08]         , {}                 ,{}                , {},                         )',
     'addop("int",   [0xCD],             noafs, [u08]         , {}                 ,{}                , {bkf:True},                 )', 'C17.D1'),
    ('jcc-nosplit', 'miasmx/arch/ia32_arch.py',
     'addop("j",     [0x70],             cond , [s08]         , {}                 ,{}                , {bkf:True,spf:True,dtf:True})',
     'addop("j",     [0x70],             cond , [s08]         , {}                 ,{}                , {bkf:True,dtf:True})', 'C17.D1'),
    ('jmp-split', 'miasmx/arch/ia32_arch.py',
     'addop("jmp",   [0xFF],             d4   , no_rm         , {}                 ,{}                , {bkf:True,dtf:True}         )',
     'addop("jmp",   [0xFF],             d4   , no_rm         , {}                 ,{}                , {bkf:True,spf:True,dtf:True})', 'C17.D1'),
    ('dst-nolen', 'miasmx/arch/ia32_arch.py',
     'dst = (self.offset+self.l+a[x86_afs.imm])&tab_max_uint[self.opmode]', 'dst = (self.offset+a[x86_afs.imm])&tab_max_uint[self.opmode]', 'C17.D6'),
    # ('dst-nomask': dropping the mask is behaviour-preserving -- the immediate arrives as a fixed-width integer of the operand size, so the sum is already reduced)
    ('splitflow-attr', 'miasmx/arch/ia32_arch.py', 'return self.m.modifs[spf]', 'return self.m.modifs[bkf]', 'C17.D3'),
    ('s32-fmt-unsigned', 'miasmx/arch/ia32_reg.py', "self.s32:'i',", "self.s32:'I',", 'C17.D2'),
    ('call-rel-unsigned', 'miasmx/arch/ia32_arch.py',
     'addop("call",  [0xE8],             noafs, [s32]', 'addop("call",  [0xE8],             noafs, [u32]', 'C17.D2'),
    ('len-plus-prefix', 'miasmx/arch/ia32_arch.py', '            self.l = t_len\n', '            self.l = t_len + len(read_prefix)\n', 'C17.D3'),
    ('ret-imm-nobreak', 'miasmx/arch/ia32_arch.py',
     'addop("ret",   [0xC2],             noafs, [u16]         , {}                 ,{}                , {bkf:True},                 )',
     'addop("ret",   [0xC2],             noafs, [u16]         , {}                 ,{}                , {},                 )', 'C17.D1'),
    ('jz-by-admode', 'miasmx/arch/ia32_arch.py', '                    if self.opmode !=u32:\n                        if dib == u32: dib = u16',
     '                    if self.admode !=u32:\n                        if dib == u32: dib = u16', 'C17.D5'),
    ('tabmax-u16', 'miasmx/arch/ia32_arch.py', 'x86_afs.u16:0xFFFF, x86_afs.u32:uint32.limit-1', 'x86_afs.u16:0xFFFFF, x86_afs.u32:uint32.limit-1', 'C17.D3'),
]
