"""C11 -- every decodable instruction with lifted semantics lifts to well-typed IR.

E4 derives, for every live decoder variant x operand form x operand size, the IR template the lifter emits; the rules
below type-check the template."""
import ast

from ..core import AnalysisError, where, norm
from ..liftforms import LifterModel
from ..lifter import LiftError, Term, TInt, get_size, SizeError, show, walk_terms

SAME_WIDTH_OPS = {'+', '*', '&', '|', '^', '==', '-'}
COUNT_OPS = {'<<', '>>', 'a>>', 'a<<', '<<<', '>>>', '<<<c_rez', '<<<c_cf', '>>>c_rez', '>>>c_cf'}
INTERPRETED = SAME_WIDTH_OPS | COUNT_OPS | {'parity', '!'}


def zero_one(t):
    """Value provably in {0,1}."""
    k = t.kind
    if k == 'Int':
        return t.mod.val in (0, 1)
    if k == 'Cond':
        return zero_one(t.src1) and zero_one(t.src2)
    if k == 'Op':
        if t.op in ('&',):
            return any(zero_one(a) for a in t.args)
        if t.op in ('|', '^'):
            return all(zero_one(a) for a in t.args)
        if t.op in ('parity', '<<<c_cf', '>>>c_cf'):
            return True      # defined as a single bit (the evaluator masks with 1)
        if t.op == '==':
            return True
        return False
    if k in ('Id', 'Slice', 'Mem'):
        try:
            return get_size(t) == 1
        except SizeError:
            return False
    if k == 'Compose':
        return False
    return False


def opaque(t):
    """Result of an uninterpreted operator (x87/SSE/system): its width is not defined by the bit-vector reading."""
    return t.kind == 'Op' and t.op not in INTERPRETED


def func_name(inst):
    return inst.func.name if inst.func is not None else '?'


def check_template(R2, R3, R4, sem, inst, res):
    fname = func_name(inst)
    node = inst.func.node
    n_ok = True

    def viol(R, rule_detail, msg):
        R.violation(inst.key(), '%s:%s' % (fname, rule_detail), '%s (first seen on %s %s)' % (msg, inst.name, inst.form), where(sem, node), count=False)

    if not isinstance(res, list):
        viol(R2, 'not-a-list', 'lifter function %s returns %r, not a list of assignments' % (fname, type(res).__name__))
        return False
    written = []
    for aff in res:
        if not (isinstance(aff, Term) and aff.kind == 'Aff'):
            viol(R2, 'element:%s' % (aff.kind if isinstance(aff, Term) else type(aff).__name__),
                 '%s returns a list element that is not an assignment: %s' % (fname, show(aff)[:80]))
            n_ok = False
            continue
        dst, src = aff.dst, aff.src
        # D2 shape
        for sub in walk_terms(src):
            if sub.kind == 'Aff':
                viol(R2, 'nested-aff', '%s builds an assignment inside an expression: %s' % (fname, show(aff)[:120]))
                n_ok = False
        dk = dst.kind
        if dk == 'Slice':
            if dst.arg.kind not in ('Id', 'Mem'):
                viol(R2, 'dst-slice-of-%s' % dst.arg.kind, '%s assigns to a slice of a %s node (ExprAff reads dst.arg.size): %s' % (fname, dst.arg.kind, show(dst)))
                n_ok = False
        elif dk not in ('Id', 'Mem'):
            viol(R2, 'dst-kind-%s' % dk, '%s assigns to a %s node: %s' % (fname, dk, show(dst)[:80]))
            n_ok = False
        for sub in walk_terms(dst):
            if sub.kind == 'Aff':
                viol(R2, 'nested-aff-dst', '%s has an assignment inside a destination' % fname)
                n_ok = False
        # D3 widths
        try:
            for sub in list(walk_terms(src)) + list(walk_terms(dst)):
                k = sub.kind
                if k == 'Op':
                    if isinstance(sub.op, str) and sub.op in SAME_WIDTH_OPS and len(sub.args) >= 2:
                        ws = []
                        for a in sub.args:
                            if isinstance(a, Term) and not opaque(a):
                                ws.append(get_size(a))
                        if len(set(ws)) > 1:
                            viol(R3, 'op-width:%s:%s' % (sub.op, '/'.join(str(w) for w in ws)),
                                 '%s builds %r with operands of widths %s: %s' % (fname, sub.op, ws, show(sub)[:140]))
                            n_ok = False
                    if not isinstance(sub.op, str):
                        viol(R3, 'op-not-string', '%s builds an ExprOp whose operator is not a string' % fname)
                        n_ok = False
                    if not sub.args:
                        viol(R3, 'op-no-operand:%s' % sub.op, '%s builds ExprOp(%r) without operand: it has no determinate width' % (fname, sub.op))
                        n_ok = False
                elif k == 'Slice':
                    if not opaque(sub.arg):
                        w = get_size(sub.arg)
                        if not (0 <= sub.start < sub.stop <= w):
                            viol(R3, 'slice-range:%d:%d/%d' % (sub.start, sub.stop, w), '%s takes slice [%d:%d] of a %d-bit value: %s'
                                 % (fname, sub.start, sub.stop, w, show(sub)[:100]))
                            n_ok = False
                elif k == 'Compose':
                    slots = sorted((a[1], a[2]) for a in sub.args)
                    pos = 0
                    bad = False
                    for a, b in slots:
                        if a != pos or b <= a:
                            bad = True
                        pos = b
                    if bad or [(a[1], a[2]) for a in sub.args] != slots and False:
                        viol(R3, 'compose-tiling:%s' % ','.join('%d-%d' % s for s in slots),
                             '%s builds a concatenation whose slots %s do not tile [0,width) without gap/overlap' % (fname, slots))
                        n_ok = False
                elif k == 'Cond':
                    if isinstance(sub.src1, Term) and isinstance(sub.src2, Term) and not opaque(sub.src1) and not opaque(sub.src2):
                        w1, w2 = get_size(sub.src1), get_size(sub.src2)
                        if w1 != w2 and not (zero_one(sub.src1) and zero_one(sub.src2)):
                            viol(R3, 'cond-arms:%d/%d' % (w1, w2), '%s builds a conditional whose arms have widths %d and %d: %s' % (fname, w1, w2, show(sub)[:120]))
                            n_ok = False
                elif k == 'Mem':
                    if sub.size is True or not isinstance(sub.size, int):
                        viol(R3, 'mem-size:%r' % (sub.size,), '%s uses a memory cell whose size is %r' % (fname, sub.size))
                        n_ok = False
            if not opaque(src):
                ws, wd = get_size(src), get_size(dst)
                if ws != wd:
                    if wd == 1 and zero_one(src):
                        pass
                    else:
                        viol(R3, 'aff-width:%s<-%s:%s' % (wd, ws, show(dst) if dst.kind == 'Id' and wd == 1 else dst.kind),
                             '%s assigns a %d-bit value to a %d-bit destination: %s' % (fname, ws, wd, show(aff)[:140]))
                        n_ok = False
        except SizeError as e:
            viol(R3, 'no-width', '%s builds an expression without determinate width (%s): %s' % (fname, e, show(aff)[:120]))
            n_ok = False
        # D4 storage
        if dst.kind == 'Slice' and dst.arg.kind == 'Id':
            written.append(('id', dst.arg.name, dst.start, dst.stop, aff))
        elif dst.kind == 'Id':
            written.append(('id', dst.name, 0, dst.size, aff))
        elif dst.kind == 'Mem':
            written.append(('mem', dst.arg.key(), 0, dst.size, aff))
        elif dst.kind == 'Slice' and dst.arg.kind == 'Mem':
            written.append(('mem', dst.arg.arg.key(), dst.start, dst.stop, aff))
    seen = {}
    for kind, key, a, b, aff in written:
        k2 = (kind, key)
        if k2 in seen:
            other = seen[k2]
            viol(R4, 'double-write:%s' % (key if kind == 'id' else 'mem'),
                 '%s writes %s twice in one instruction (%s and %s); after the sub-register rewrite both are whole-location assignments and one is lost'
                 % (fname, key if kind == 'id' else 'the same memory cell', show(other)[:70], show(aff)[:70]))
            n_ok = False
        else:
            seen[k2] = aff
    return n_ok


def run(ctx, report):
    thorough = ctx.tier == 'thorough'
    L = LifterModel(ctx, opmodes=('u32', 'u16'), rich=True)
    sem = L.sem
    report.explanation = (
        'E4 derives the IR template of every live decoder variant (statically expanded opcode table) x operand form (register / memory / immediate '
        'kinds and widths as _dis builds them) x operand size (32, 16) by partially evaluating dict_to_Expr and the semantic function selected by '
        'mnemo_func / the MMX fallback, with the calling conventions of get_instr_expr_args. D1: the evaluation reaches no raise, unbound name, missing '
        'attribute/key or arity error. D2: the result is a list of assignments, no assignment inside an expression, destinations are Id / slice of Id or '
        'Mem / Mem. D3: every sub-expression has a determinate width; operands of + - * & | ^ == agree; slices lie inside their operand; concatenation '
        'slots tile; conditional arms agree; source width = destination width unless a 1-bit flag receives a value provably in {0,1}. D4: no location is '
        'written twice by one instruction. D5: slice_rest and ExprAff.__init__ (the rewrite of a slice destination into a full-register concatenation) are evaluated on abstract operands: the rest intervals are exactly the complement of the slice and the concatenation tiles the register with the unchanged bits around the assigned value. Uninterpreted operators (x87/SSE/system) are opaque: their width is not judged.')
    report.not_decided = 'aliasing of distinct symbolic addresses; instruction forms outside the form model (SIB/16-bit addressing variants share the same lifter path).'
    report.assumptions.append('form model: sa/liftforms.py mirrors x86_mn._dis/special_opcodes operand dictionaries; validated at authoring time against the real '
                              'lifter (2949 templates identical, 25 error classes identical; tools/validate_lifter.py)')
    R1 = report.rule('C11.D1', 'every supported form lifts without error', floor=1500)
    R2 = report.rule('C11.D2', 'result is a list of assignments with register/memory destinations', floor=1400)
    R3 = report.rule('C11.D3', 'widths are determinate and consistent', floor=1400)
    R4 = report.rule('C11.D4', 'single assignment per location', floor=1400)
    n_nosem = 0
    unknowns = []
    for inst in L.lift_all():
        if inst.func is None:
            n_nosem += 1
            continue
        if inst.unknown:
            unknowns.append((inst.key(), inst.unknown))
            continue
        fname = func_name(inst)
        for dec, res in inst.results:
            if isinstance(res, LiftError):
                site = norm(res.node) if res.node is not None and hasattr(res.node, 'lineno') else res.msg
                if isinstance(res.node, ast.FunctionDef):
                    site = 'call of %s' % res.node.name          # (a whole function as site: the key must not carry its body)
                fn_of_site = fname
                if res.msg.startswith('dict_to_Expr'):
                    fn_of_site = 'dict_to_Expr'
                key = '%s:%s:%s' % (fn_of_site, res.exc, site[:100])
                R1.violation(inst.key(), key, 'lifting %s (%s) raises %s: %s' % (inst.name, inst.form, res.exc, res.msg[:160]),
                             where(sem, res.node) if res.node is not None and hasattr(res.node, 'lineno') else where(sem, inst.func.node))
                continue
            R1.ok(inst.key(), sample='%s %s -> %s' % (inst.name, inst.form, '; '.join(show(x) for x in res[:2])[:160]) if isinstance(res, list) else None)
            ok = check_template(R2, R3, R4, sem, inst, res)
            for R in (R2, R3, R4):
                R.instances += 1
                R.nontrivial.add(inst.key())
            if ok and len(R3.samples) < 4 and isinstance(res, list) and res:
                R3.samples.append('%s %s: %s' % (inst.name, inst.form, show(res[-1])[:140]))
    # operand pairs the form model does not produce: the two byte parts of one register, in both orders, and one register named twice (xchg / xadd / cmpxchg merge their two writes)
    from ..lifter import TId, TSlice, InfoObj

    class _Probe(object):
        def __init__(self, name, form, func):
            self.name, self.form, self.func = name, form, func

        def key(self):
            return '%s[%s]' % (self.name, self.form)
    for rname in ('eax', 'ebx'):
        reg = TId(rname, 32, is_reg=True)
        lo, hi = TSlice(reg, 0, 8), TSlice(reg, 8, 16)
        for mn in ('xchg', 'xadd', 'cmpxchg'):
            f = L.mnemo_func.get(mn)
            if f is None:
                continue
            for tag, ops in (('%sl, %sh' % (rname[1], rname[1]), [lo, hi]), ('%sh, %sl' % (rname[1], rname[1]), [hi, lo]),
                             ('%s, %s' % (rname, rname), [reg, reg]), ('%sl, %sl' % (rname[1], rname[1]), [lo, TSlice(reg, 0, 8)]), ('%sx, %sx' % (rname[1], rname[1]), [TSlice(reg, 0, 16), TSlice(reg, 0, 16)])):
                probe = _Probe(mn, 'parts %s' % tag, f)
                try:
                    results = L.I.run(f, [InfoObj('u32', 'u32')] + ops)
                except LiftUnknown as e:
                    raise AnalysisError('%s is outside the modelled subset on %s: %s' % (mn, tag, e))
                for dec, res in results:
                    if isinstance(res, LiftError):
                        R1.violation(probe.key(), '%s:%s:parts' % (mn, res.exc), 'lifting %s %s raises %s: %s' % (mn, tag, res.exc, res.msg[:160]), where(sem, f.node))
                        continue
                    R1.ok(probe.key())
                    check_template(R2, R3, R4, sem, probe, res)
                    for R in (R2, R3, R4):
                        R.instances += 1
                        R.nontrivial.add(probe.key())
    if unknowns:
        raise AnalysisError('%d lifter instantiations are outside the modelled subset, e.g. %s' % (len(unknowns), unknowns[:3]))
    # ---------------------------------------------------------------- D5 sub-register rewrite
    R7 = report.rule('C11.D7', 'the lifter\'s tables hold no one-shot iterator (the second lifting of the same instruction in a process must succeed like the first; shared with C12.D15)', floor=1)
    from .c12 import oneshot_rule
    oneshot_rule(R7, [sem, ctx.mod('emul_helper')])
    R6 = report.rule('C11.D6', 'a semantic function returns a list built in the call (a shared list, extended by a caller, gives the next lifting a second assignment of the same location; shared with C12.D12)', floor=1)
    from .c12 import fresh_result_rule
    fresh_result_rule(ctx, R6)
    R5 = report.rule('C11.D5', 'an assignment to a slice is rewritten into a full-width concatenation that tiles the destination', floor=300)
    from ..consteval import Evaluator, Obj, Native, NotConst
    ex = ctx.mod('expression')
    sr = ex.func('slice_rest')
    init = ex.method('ExprAff', '__init__')
    n_sr = 0
    for size in (8, 16, 32, 64):
        for start in range(0, size):
            for stop in range(start + 1, size + 1):
                if size > 16 and (start % 8 or stop % 8) and not (stop - start == 1):
                    continue      # byte-aligned slices and single bits for the wide registers; every slice for 8/16 bits
                n_sr += 1
                try:
                    rest = Evaluator({}).call_user(sr, [size, start, stop])
                except NotConst as e:
                    raise AnalysisError('slice_rest is outside the evaluable subset: %s' % e)
                want = ([(0, start)] if start else []) + ([(stop, size)] if stop < size else [])
                inst = 'slice_rest(%d,%d,%d)' % (size, start, stop)
                if sorted(rest) == want:
                    R5.ok(inst, sample='%s = %s' % (inst, rest), nontrivial=(n_sr % 8 == 0))
                else:
                    R5.violation(inst, 'slice_rest:%s' % ('middle' if start and stop < size else 'low' if not start else 'high'),
                                 '%s returns %s; the bits of the register outside [%d:%d) are %s' % (inst, rest, start, stop, want), where(ex, sr),
                                 witness="'mov ah, 1' lifts to a 16-bit value assigned to eax")

    aff_slice_rule(ctx, R5)
    report.analysed['instances'] = len(L.instances)
    report.analysed['without_lifted_semantics'] = n_nosem
    report.analysed['mnemo_func_entries'] = len(L.mnemo_func)



def aff_slice_rule(ctx, R5):
    """ExprAff.__init__ rewrites an assignment to a slice of a register into an assignment of the whole register.  The constructor is evaluated, from its source,
    on slice destinations x kinds of source (an opaque value, a slice, a concatenation of the slice's width in 2 and in 8 pieces, a nested concatenation); the
    result is compared *bit by bit*: bit i of the new source is bit i of the register outside [start:stop) and bit i - start of the assigned value inside.
    A re-implementation that nests the value, splices its pieces at the right offsets or orders the slots differently gives the same bits and is accepted."""
    from ..consteval import Evaluator, Obj, Native, NotConst, PyRaise
    ex = ctx.mod('expression')
    sr = ex.func('slice_rest')
    init = ex.method('ExprAff', '__init__')

    def mkobj(cls, **kw):
        o = Obj(cls)
        o._class = cls
        for k, v in kw.items():
            setattr(o, k, v)
        if 'size' in kw:
            o.__dict__.setdefault('_methods', {})
        return o

    def cls_of(v):
        return v.__dict__['_attrs'].get('_class') if isinstance(v, Obj) else None

    def size_of(v):
        c = cls_of(v)
        a = v.__dict__['_attrs']
        if c == 'ExprSlice':
            return a['stop'] - a['start']
        if c == 'ExprCompose':
            return max(p[2] for p in a['args'])
        return a['size']

    def bits(v):
        """provenance of every bit of v, low bit first: (leaf object id, bit number)"""
        c = cls_of(v)
        a = v.__dict__['_attrs']
        if c == 'ExprSlice':
            return bits(a['arg'])[a['start']:a['stop']]
        if c == 'ExprCompose':
            n_ = max(p[2] for p in a['args'])
            out = [None] * n_
            for e_, lo, hi in a['args']:
                b_ = bits(e_)
                if len(b_) != hi - lo:
                    raise ValueError('slot [%d:%d) holds a %d-bit value' % (lo, hi, len(b_)))
                for i in range(lo, hi):
                    if out[i] is not None:
                        raise ValueError('bit %d is covered twice' % i)
                    out[i] = b_[i - lo]
            if any(x is None for x in out):
                raise ValueError('bit %d is not covered' % out.index(None))
            return out
        return [(a['name'], i) for i in range(a['size'])]
    cls_slice = Native(lambda arg, start, stop: mkobj('ExprSlice', arg=arg, start=start, stop=stop))
    cls_comp = Native(lambda lst: mkobj('ExprCompose', args=list(lst)))
    size_native = Native(lambda self_: size_of(self_))
    env = {'slice_rest': sr, 'ExprSlice': cls_slice, 'ExprCompose': cls_comp}
    known = {'ExprSlice': cls_slice, 'ExprCompose': cls_comp}
    for cname in ('ExprId', 'ExprInt', 'ExprMem', 'ExprOp', 'ExprCond'):
        known[cname] = env[cname] = Native(lambda *a, **k: (_ for _ in ()).throw(NotConst('constructor in ExprAff.__init__')))

    def isinst(v, c):
        cs = c if isinstance(c, tuple) else (c,)
        for c_ in cs:
            for nm, nat in known.items():
                if c_ is nat and cls_of(v) == nm:
                    return True
        return False
    env['isinstance'] = Native(isinst)

    def leaf(name, size, cls='ExprId'):
        o = mkobj(cls, name=name, size=size)
        o.__dict__['_attrs']['get_size'] = size_native_for(o)
        return o

    def size_native_for(o):
        return Native(lambda: size_of(o))

    def with_size(o):
        o.__dict__['_attrs']['get_size'] = size_native_for(o)
        return o

    def sources(w):
        v = leaf('v', w, 'ExprOp')
        yield 'a value', v
        big = leaf('s', 64)
        yield 'a slice', with_size(mkobj('ExprSlice', arg=big, start=8, stop=8 + w))
        if w >= 2:
            h = w // 2
            yield 'a concatenation of two pieces', with_size(mkobj('ExprCompose', args=[(leaf('p', h, 'ExprOp'), 0, h), (leaf('q', w - h, 'ExprOp'), h, w)]))
        if w >= 8:
            pieces, pos = [], 0
            for i in range(8):
                hi = (w * (i + 1)) // 8
                pieces.append((leaf('f%d' % i, hi - pos, 'ExprOp'), pos, hi))
                pos = hi
            yield 'a concatenation of eight pieces', with_size(mkobj('ExprCompose', args=pieces))
            h = w // 2
            inner = with_size(mkobj('ExprCompose', args=[(leaf('p', h // 2, 'ExprOp'), 0, h // 2), (leaf('q', h - h // 2, 'ExprOp'), h // 2, h)]))
            yield 'a nested concatenation', with_size(mkobj('ExprCompose', args=[(inner, 0, h), (leaf('r', w - h, 'ExprOp'), h, w)]))
    for size, start, stop in ((32, 0, 8), (32, 8, 16), (32, 0, 16), (32, 16, 32), (16, 8, 16), (32, 0, 1), (32, 31, 32), (64, 32, 64), (32, 4, 12)):
        for what, src in sources(stop - start):
            reg = leaf('reg', size)
            me = Obj('self')
            inst = 'ExprAff(reg%d[%d:%d], %s)' % (size, start, stop, what)
            try:
                Evaluator(env).call_user(init, [me, with_size(mkobj('ExprSlice', arg=reg, start=start, stop=stop)), src])
                dstv, srcv = me.dst, me.src
            except PyRaise as e:
                R5.violation(inst, 'aff-slice:raises:%s:%s' % (e.exc_name, what), '%s raises %s' % (inst, e.exc_name), where(ex, init))
                continue
            except NotConst as e:
                raise AnalysisError('ExprAff.__init__ is outside the evaluable subset: %s' % e)
            problems = []
            if dstv is not reg:
                problems.append('destination is not the sliced register itself')
            try:
                got = bits(srcv)
                want = bits(reg)[:start] + bits(src) + bits(reg)[stop:]
                if len(got) != size:
                    problems.append('the new source has %d bits, the register %d' % (len(got), size))
                elif got != want:
                    i = [k for k in range(size) if got[k] != want[k]][0]
                    problems.append('bit %d of the new source is bit %d of %s; it must be bit %d of %s' % (i, got[i][1], got[i][0], want[i][1], want[i][0]))
            except ValueError as e:
                problems.append('the new source is not a tiling: %s' % e)
            if problems:
                R5.violation(inst, 'aff-slice:%s:%s' % (what, 'low' if start == 0 else 'high' if stop == size else 'middle'), '%s: %s' % (inst, '; '.join(problems)), where(ex, init),
                             witness="'lahf' (9f): ah receives a concatenation of the flags" if 'concatenation' in what else None)
            else:
                R5.ok(inst, sample='%s -> every bit of the new source is the register bit outside [%d:%d) and the value bit inside' % (inst, start, stop))

MUTANTS = [
    ('float-pop-32bit-zero', 'miasmx/arch/ia32_sem.py', "        if src is None: src = ExprInt64(0)", "        if src is None: src = ExprInt32(0)", 'C11.D3'),
    ('float-eip-opmode-width', 'miasmx/arch/ia32_sem.py', "    e.append(ExprAff(float_eip, ExprInt32(info.offset)))", "    e.append(ExprAff(float_eip, ExprInt(tab_mode[info.opmode](info.offset))))", 'C11.D3'),
    ('slice-rest-elif', 'miasmx/expression/expression.py', "    if start !=0:\n        rest.append((0, start))\n    if stop < size:", "    if start !=0:\n        rest.append((0, start))\n    elif stop < size:", 'C11.D5'),
    # ('aff-slice-unsorted' retired: a concatenation whose slots are listed out of order denotes the same bits - the lifted `mov ah, 0x7f` evaluates and simplifies alike
    #  (checked on the real code); the old D5 demanded the order, the bit-by-bit comparison does not)
    ('movzx-slot', 'miasmx/arch/ia32_sem.py', "                                    (b, 0, b.get_size())]))]", "                                    (b, 8, b.get_size())]))]", 'C11.D3'),
    ('xchg-double', 'miasmx/arch/ia32_sem.py', "    return [ExprAff(a, va), ExprAff(b, vb)]\n\ndef xchg", "    return [ExprAff(a, va), ExprAff(a, vb)]\n\ndef xchg", 'C11.D4'),
    ('lea-unbound', 'miasmx/arch/ia32_sem.py', "    src = b.arg\n    if src.get_size() > a.get_size():", "    src = bb.arg\n    if src.get_size() > a.get_size():", 'C11.D1'),
    ('lea16-untruncated', 'miasmx/arch/ia32_sem.py', "        src = src[:a.get_size()]\n    return [ExprAff(a, src)]", "        pass\n    return [ExprAff(a, src)]", 'C11.D3'),
    ('eip-16bit-destination', 'miasmx/arch/ia32_sem.py', "    else:\n        dst = zeroext32(dst)\n    return ExprAff(eip, dst)", "    return ExprAff(eip, dst)", 'C11.D3'),
    ('bswap-width', 'miasmx/arch/ia32_sem.py', "ExprOp('>>', ExprOp('&', ExprInt_from(a, 0xFF00), a), ExprInt32(8))", "ExprOp('>>', ExprOp('&', ExprInt16(0xFF00), a), ExprInt32(8))", 'C11.D'),
    ('setz-nested', 'miasmx/arch/ia32_sem.py', "def sete(info, a):\n    e = []\n    e.append(ExprAff(a, ExprCond(zf, ExprInt_from(a, 1), ExprInt_from(a, 0))))",
     "def sete(info, a):\n    e = []\n    e.append(ExprAff(a, ExprCond(zf, ExprAff(a, ExprInt_from(a, 1)), ExprInt_from(a, 0))))", 'C11.D2'),
    ('inc-wide-const', 'miasmx/arch/ia32_sem.py', "def inc(info, a):\n    e= []\n    b = ExprInt_from(a, 1)", "def inc(info, a):\n    e= []\n    b = ExprInt32(1)", 'C11.D3'),
    ('stc-not-list', 'miasmx/arch/ia32_sem.py', "def stc(info):\n    return     [ExprAff(cf, ExprInt32(1))]", "def stc(info):\n    return     ExprAff(cf, ExprInt32(1))", 'C11.D2'),
    ('cmov-arity', 'miasmx/arch/ia32_sem.py', "def cmovs(info, a, b):", "def cmovs(info, a, b, c):", 'C11.D1'),
    ('neg-slice', 'miasmx/arch/ia32_sem.py', "def update_flag_nf(a):\n    return [ExprAff(nf, get_op_msb(a))]", "def update_flag_nf(a):\n    return [ExprAff(nf, a[a.get_size():a.get_size()+1])]", 'C11.D'),
    ('mnemo-func-wrong', 'miasmx/arch/ia32_sem.py', '"lahf": lahf,', '"lahf": push,', 'C11.D'),
    ('jmp-short-8bit', 'miasmx/arch/ia32_sem.py', "    if isinstance(a, ExprInt) and a.get_size() == 8:\n        # short jump", "    if False:\n        # short jump", 'C11.D3'),
    ('movzx-r16-empty-slot', 'miasmx/arch/ia32_sem.py', "    if b.get_size() == a.get_size():\n        # (66 0F B7 /r: both operands are words)\n        return [ExprAff(a, b)]\n", "", 'C11.D3'),
    ('sidt-const32', 'miasmx/arch/ia32_sem.py', "ExprInt16(0x8245)))", "ExprInt32(0x8245)))", 'C11.D3'),
    ('into-shared-empty-list', 'miasmx/arch/ia32_sem.py', "def into(info):\n    return []\n", "no_effect = []\ndef into(info):\n    return no_effect\n", 'C11.D6'),
    ('mmx-scale-typed-by-admode', 'miasmx/arch/ia32_sem.py', "        int_cast = tab_afs_int[[x86_afs.u32, x86_afs.u16][admode == x86_afs.u16]]", "        int_cast = tab_afs_int[admode]", 'C11.D3'),
    ('aff-pair-unordered-slice', 'miasmx/arch/ia32_sem.py', "        return [ExprAff(ExprSlice(a.arg, lo.start, hi.stop),", "        return [ExprAff(ExprSlice(a.arg, a.start, b.stop),", 'C11.D3'),
    # ('cmpxchg-acc-dest-two-writes' retired: since aff_pair writes a register named twice once, with the value the processor writes last, removing the `a == c` shortcut
    #  of cmpxchg leaves one assignment of the same value - an equivalent mutant)
]
