"""Command line: ./check <Cxx> [--tier quick|thorough] [--root DIR] [--replay PATH]"""
import argparse
import json
import os
import sys
import time

from . import core


def main(argv=None):
    ap = argparse.ArgumentParser(prog='check')
    ap.add_argument('prop')
    ap.add_argument('--tier', default=os.environ.get('VERIF_TIER') or 'quick', choices=['quick', 'thorough'])
    ap.add_argument('--root', default=core.DEFAULT_ROOT)
    ap.add_argument('--replay')
    ap.add_argument('--no-evidence', action='store_true')
    ap.add_argument('--no-selftest', action='store_true')
    ap.add_argument('--selftest-only', action='store_true')
    args = ap.parse_args(argv)
    prop = args.prop.upper()
    try:
        seed = int(os.environ.get('VERIF_SEED') or 0)
    except ValueError:
        seed = 0
    if args.replay:
        return replay(prop, args)
    selftest = None
    if (args.tier == 'thorough' and not args.no_selftest) or args.selftest_only:
        from . import selftest as st
        try:
            selftest = st.run_battery(prop, args.root, args.tier)
        except Exception as e:
            print('ANALYSIS-ERROR property=%s selftest crashed: %r' % (prop, e))
            return 2
    code, _, _ = core.run_property(prop, args.tier, args.root, seed=seed,
                                   write_evidence=not args.no_evidence and args.root == core.DEFAULT_ROOT,
                                   selftest=selftest)
    return code


def replay(prop, args):
    """Print the stored finding and re-run the property's rules; exit 1 if the
    same construct is still reported."""
    try:
        with open(args.replay) as f:
            stored = json.load(f)
    except Exception as e:
        print('ANALYSIS-ERROR property=%s cannot read replay file: %r' % (prop, e))
        return 2
    print('REPLAY %s' % json.dumps(stored, indent=1))
    code, violations, knowns = core.run_property(prop, stored.get('tier', args.tier), args.root,
                                                 write_evidence=False, quiet=True)
    if code == 2:
        print('ANALYSIS-ERROR property=%s replay run failed' % prop)
        return 2
    ident = (stored['property'], stored['rule'], stored['key'])
    for f in violations + knowns:
        if f.ident() == ident:
            print('REPRODUCED %s %s at %s: %s' % (f.rule, f.key, f.where, f.what))
            print('VIOLATION property=%s replay=%s' % (prop, args.replay))
            return 1
    print('NOT-REPRODUCED: the construct is no longer reported on %s' % args.root)
    return 0


if __name__ == '__main__':
    try:
        rc = main()
    except SystemExit:
        raise
    except BaseException as e:  # fail closed
        print('ANALYSIS-ERROR internal: %r' % (e,))
        rc = 2
    sys.stdout.flush()
    sys.exit(rc)
