"""Linear forms over source sub-expressions: a + b - c + 3 -> {text(a): 1, text(b): 1, text(c): -1, 1: 3}.
Used by rules about bit positions (shift amounts, slice bounds) that must add up."""
import ast

PASS_THROUGH_CALLS = {'uint8', 'uint16', 'uint32', 'uint64', 'int', 'int8', 'int16', 'int32', 'int64'}


def lin(e, syms=None):
    """dict sym-text -> coefficient (key 1 is the constant).  Non-linear sub-expressions become opaque symbols."""
    out = {}

    def add(k, c):
        out[k] = out.get(k, 0) + c
        if out[k] == 0:
            del out[k]

    def go(x, sign):
        if isinstance(x, ast.Constant) and isinstance(x.value, int) and not isinstance(x.value, bool):
            add(1, sign * x.value)
        elif isinstance(x, ast.BinOp) and isinstance(x.op, ast.Add):
            go(x.left, sign); go(x.right, sign)
        elif isinstance(x, ast.BinOp) and isinstance(x.op, ast.Sub):
            go(x.left, sign); go(x.right, -sign)
        elif isinstance(x, ast.UnaryOp) and isinstance(x.op, ast.USub):
            go(x.operand, -sign)
        elif isinstance(x, ast.BinOp) and isinstance(x.op, ast.Mult) and isinstance(x.left, ast.Constant) and isinstance(x.left.value, int):
            for k, c in lin(x.right).items():
                add(k, sign * c * x.left.value)
        elif isinstance(x, ast.BinOp) and isinstance(x.op, ast.Mult) and isinstance(x.right, ast.Constant) and isinstance(x.right.value, int):
            for k, c in lin(x.left).items():
                add(k, sign * c * x.right.value)
        elif isinstance(x, ast.Call) and isinstance(x.func, ast.Name) and x.func.id in PASS_THROUGH_CALLS and len(x.args) == 1:
            go(x.args[0], sign)
        else:
            add(ast.unparse(x), sign)
    go(e, 1)
    return out


def lin_add(a, b, sb=1):
    out = dict(a)
    for k, c in b.items():
        out[k] = out.get(k, 0) + sb * c
        if out[k] == 0:
            del out[k]
    return out


def show(l):
    if not l:
        return '0'
    parts = []
    for k, c in sorted(l.items(), key=lambda kv: str(kv[0])):
        if k == 1:
            parts.append('%+d' % c)
        else:
            parts.append(('%+d*' % c if c not in (1, -1) else ('+' if c == 1 else '-')) + str(k))
    return ' '.join(parts).lstrip('+')


def clone(n):
    """copy of an ast subtree over _fields only (the source model hangs parent links on nodes)"""
    if isinstance(n, list):
        return [clone(x) for x in n]
    if not isinstance(n, ast.AST):
        return n
    new = type(n)()
    for f in n._fields:
        if hasattr(n, f):
            setattr(new, f, clone(getattr(n, f)))
    for a in ('lineno', 'col_offset', 'end_lineno', 'end_col_offset'):
        if hasattr(n, a):
            setattr(new, a, getattr(n, a))
    return new


class Subst(ast.NodeTransformer):
    def __init__(self, env):
        self.env = env

    def visit_Name(self, n):
        if isinstance(n.ctx, ast.Load) and n.id in self.env:
            return clone(self.env[n.id])
        return n


def straightline(fn):
    """Substitute local straight-line assignments of a small function, path by path (if/else forks; branches that
    only raise are guards): returns (returned expressions after substitution, fold operators of
    `for a in args[1:]: acc = acc OP a` loops, ok flag)."""
    import copy
    rets = []
    folds = []
    state = {'ok': True}

    def sub(e, env):
        return Subst(env).visit(clone(e))

    def block(stmts, env):
        for i, st in enumerate(stmts):
            if isinstance(st, ast.Assign) and len(st.targets) == 1 and isinstance(st.targets[0], ast.Name):
                env[st.targets[0].id] = sub(st.value, env)
            elif isinstance(st, ast.AugAssign) and isinstance(st.target, ast.Name):
                cur = env.get(st.target.id, ast.Name(id=st.target.id, ctx=ast.Load()))
                env[st.target.id] = ast.BinOp(left=clone(cur), op=st.op, right=sub(st.value, env))
            elif isinstance(st, ast.Return) and st.value is not None:
                rets.append(sub(st.value, env))
                return
            elif isinstance(st, ast.For) and isinstance(st.target, ast.Name) and len(st.body) == 1 and isinstance(st.body[0], ast.Assign) \
                    and isinstance(st.body[0].value, ast.BinOp) and isinstance(st.body[0].targets[0], ast.Name):
                b = st.body[0]
                acc = b.targets[0].id
                if isinstance(b.value.left, ast.Name) and b.value.left.id == acc and isinstance(b.value.right, ast.Name) and b.value.right.id == st.target.id:
                    folds.append((type(b.value.op).__name__, ast.unparse(st.iter), ast.unparse(env.get(acc, ast.Name(id=acc)))))
                    env[acc] = ast.Name(id='<fold %s>' % type(b.value.op).__name__, ctx=ast.Load())
                else:
                    state['ok'] = False
            elif isinstance(st, ast.If):
                for br in (st.body, st.orelse):
                    if br and all(isinstance(s, ast.Raise) for s in br):
                        continue
                    block(list(br) + list(stmts[i + 1:]), dict(env))
                return
            elif isinstance(st, ast.Try):
                block(list(st.body) + list(stmts[i + 1:]), dict(env))
                return
            elif isinstance(st, (ast.Raise,)):
                return
            elif isinstance(st, (ast.Pass, ast.Expr)):
                pass
            else:
                state['ok'] = False
    block(list(fn.body), {})
    return rets, folds, state['ok']
