"""Evaluation of the simplifier on a structured finite family of IR expressions (shared by C05, C06, C07, C13).

The functions of expression_helper.py (_expr_simp, _expr_simp_w, expr_simp, merge_sliceto_slice, parity) and the ordering key of
expression.py (canonize_expr_list, key_expr, key_expr_compose) are interpreted FROM THEIR SOURCE by the checker's evaluator (consteval) on
model IR nodes.  Nothing of the repository is imported or run by Python.  The family is generated from the shapes the rewrite rules of
the simplifier distinguish (operator x arity x which operands are constants x boundary constants x slice/composition boundaries on the
byte grid), not sampled from program inputs; every member is well typed.  For each member the one-step rewrite and the full
simplification are compared with an independent bit-vector denotation (value on a fixed set of valuations that sets every single bit,
all ones, zero) and with the width; the full simplification is also run twice (idempotence) and on permuted / re-nested spellings
(order-insensitivity).

Trusted base of this engine: the model of the fixed-width integers (arithmetic modulo 2^n with the class-mixing rule of modint.py: C14
decides modint.py itself), the model of node construction / equality / get_size / visit / copy (C15 and C11 decide those methods of
expression.py), and the denotation function below.
"""
import ast
import sys

from .core import AnalysisError
from .consteval import Evaluator, Obj, Native, NotConst, PyRaise, ModelValue


# ----------------------------------------------------------------------------------------------- fixed-width integers (model)
class MInt(ModelValue, int):
    size = 0
    signed = False
    model_attrs = ('size', 'limit', 'arg')
    model_methods = ('maxcast',)

    @classmethod
    def maxcast(c1, c2):
        # modint.moduint.maxcast: the wider of the class and the class of the value (the value's class on a tie)
        c2 = type(c2)
        return c1 if c1.size > c2.size else c2

    def __new__(cls, v=0):
        v = int(v) % (1 << cls.size)
        if cls.signed and v >= (1 << (cls.size - 1)):
            v -= 1 << cls.size
        return int.__new__(cls, v)

    @property
    def arg(self):
        return int(self)

    @property
    def limit(self):
        return 1 << self.size

    def _cls(self, o):
        if isinstance(o, MInt):
            return type(self) if type(self).size > type(o).size else type(o)
        return type(self)

    def __repr__(self):
        return '%s(%#x)' % (type(self).__name__, int(self))

    __str__ = __repr__

    def __hash__(self):
        return int.__hash__(self)

    def __neg__(self):
        return type(self)(-int(self))

    def __invert__(self):
        return type(self)(~int(self))

    def __lshift__(self, o):
        c = self._cls(o)
        if int(o) >= c.size:
            return c(0)
        return c(int(self) << int(o))

    def __rshift__(self, o):
        c = self._cls(o)
        if int(o) >= 4096:
            return c(-1 if int(self) < 0 else 0)
        return c(int(self) >> int(o))


def _binop(name, f):
    def op(self, o):
        if not isinstance(o, int):
            return NotImplemented
        return self._cls(o)(f(int(self), int(o)))
    op.__name__ = name
    return op


for _n, _f in (('__add__', lambda a, b: a + b), ('__sub__', lambda a, b: a - b), ('__mul__', lambda a, b: a * b), ('__and__', lambda a, b: a & b),
               ('__or__', lambda a, b: a | b), ('__xor__', lambda a, b: a ^ b)):
    setattr(MInt, _n, _binop(_n, _f))
    setattr(MInt, '__r' + _n[2:], _binop('__r' + _n[2:], (lambda g: (lambda a, b: g(b, a)))(_f)))
MInt.__mod__ = _binop('__mod__', lambda a, b: a % b)

INT_CLASSES = {}
for _s in (1, 8, 16, 32, 64, 128):
    INT_CLASSES['uint%d' % _s] = type('uint%d' % _s, (MInt,), {'size': _s, 'signed': False, 'limit': 1 << _s})
    INT_CLASSES['int%d' % _s] = type('int%d' % _s, (MInt,), {'size': _s, 'signed': True, 'limit': 1 << _s})
INT_CLASSES['moduint'] = MInt
U = dict((s, INT_CLASSES['uint%d' % s]) for s in (1, 8, 16, 32, 64, 128))
S = dict((s, INT_CLASSES['int%d' % s]) for s in (8, 16, 32, 64))


# ----------------------------------------------------------------------------------------------- IR nodes (model)
class Node(Obj):
    FIELDS = ()
    KIND = '?'

    def __init__(self, **kw):
        Obj.__init__(self, self.KIND)
        for k in self.FIELDS:
            setattr(self, k, kw[k])
        setattr(self, 'get_size', Native(lambda: size_of(self)))
        setattr(self, 'copy', Native(lambda: copy_of(self)))
        setattr(self, 'visit', Native(lambda cb: visit_of(self, cb)))

    def f(self, k):
        return self.__dict__['_attrs'][k]

    def key(self):
        return (self.KIND,) + tuple(_k(self.f(k)) for k in self.FIELDS)

    def __eq__(self, o):
        return isinstance(o, Node) and self.key() == o.key()

    def __ne__(self, o):
        return not self.__eq__(o)

    def __hash__(self):
        return hash(self.key())

    def __repr__(self):
        return show(self)

    # operators of Expr that the simplifier uses to build nodes
    def __neg__(self):
        return ExprOp('-', self)

    def __add__(self, o):
        return ExprOp('+', self, o)

    def __sub__(self, o):
        return ExprOp('+', self, ExprOp('-', o))

    def __getitem__(self, i):
        if not isinstance(i, slice):
            raise ValueError('bad slice')
        start, stop, _ = i.indices(size_of(self))
        return ExprSlice(self, start, stop)


def _k(v):
    if isinstance(v, Node):
        return v.key()
    if isinstance(v, MInt):
        return (type(v).__name__, int(v))
    if isinstance(v, (list, tuple)):
        return tuple(_k(x) for x in v)
    return v


class ExprInt(Node):
    FIELDS = ('arg',)
    KIND = 'Int'

    def __init__(self, arg):
        if not isinstance(arg, MInt):
            raise ValueError('arg %r should be a modint' % (arg,))
        Node.__init__(self, arg=arg)

    def key(self):
        # ExprInt.__eq__ of the repository: same width and same value (C15 decides it)
        a = self.f('arg')
        return ('Int', type(a).size, int(a) % (1 << type(a).size), type(a).signed) if _STRICT_INT[0] else ('Int', type(a).size, int(a))


_STRICT_INT = [False]


class ExprId(Node):
    FIELDS = ('name', 'size', 'is_term', 'is_reg')
    KIND = 'Id'

    def __init__(self, name, size=32, is_term=False, is_reg=False):
        Node.__init__(self, name=name, size=size, is_term=is_term, is_reg=is_reg)

    def key(self):
        return ('Id', self.f('name'), self.f('size'), self.f('is_reg'))


class ExprMem(Node):
    FIELDS = ('arg', 'size', 'segm')
    KIND = 'Mem'

    def __init__(self, arg, size=32, segm=None):
        Node.__init__(self, arg=arg, size=size, segm=segm)


class ExprOp(Node):
    FIELDS = ('op', 'args')
    KIND = 'Op'

    def __init__(self, op, *args):
        if isinstance(op, Node):
            raise NameError('fdsfsdf')
        Node.__init__(self, op=op, args=tuple(args))


class ExprSlice(Node):
    FIELDS = ('arg', 'start', 'stop')
    KIND = 'Slice'

    def __init__(self, arg, start, stop):
        Node.__init__(self, arg=arg, start=start, stop=stop)


class ExprCond(Node):
    FIELDS = ('cond', 'src1', 'src2')
    KIND = 'Cond'

    def __init__(self, cond, src1, src2):
        Node.__init__(self, cond=cond, src1=src1, src2=src2)


class ExprCompose(Node):
    FIELDS = ('args',)
    KIND = 'Compose'

    def __init__(self, args):
        Node.__init__(self, args=args)


class ExprAff(Node):
    FIELDS = ('dst', 'src')
    KIND = 'Aff'

    def __init__(self, dst, src):
        Node.__init__(self, dst=dst, src=src)


NODE_CLASSES = dict((c.__name__, c) for c in (ExprInt, ExprId, ExprMem, ExprOp, ExprSlice, ExprCond, ExprCompose, ExprAff))
NODE_CLASSES['Expr'] = Node


class IllTyped(Exception):
    pass


def size_of(t):
    k = t.KIND
    if k == 'Int':
        return type(t.f('arg')).size
    if k in ('Id', 'Mem'):
        return t.f('size')
    if k == 'Op':
        return size_of(t.f('args')[0])
    if k == 'Slice':
        return t.f('stop') - t.f('start')
    if k == 'Cond':
        return size_of(t.f('src1'))
    if k == 'Compose':
        ps = t.f('args')
        return max(p[2] for p in ps) - min(p[1] for p in ps)
    if k == 'Aff':
        return size_of(t.f('dst'))
    raise IllTyped(k)


def copy_of(t):
    k = t.KIND
    if k == 'Int':
        a = t.f('arg')
        return ExprInt(type(a)(a))
    if k == 'Id':
        return ExprId(t.f('name'), t.f('size'), t.f('is_term'), t.f('is_reg'))
    if k == 'Mem':
        return ExprMem(copy_of(t.f('arg')), t.f('size'), copy_of(t.f('segm')) if isinstance(t.f('segm'), Node) else t.f('segm'))
    if k == 'Op':
        return ExprOp(t.f('op'), *[copy_of(a) for a in t.f('args')])
    if k == 'Slice':
        return ExprSlice(copy_of(t.f('arg')), t.f('start'), t.f('stop'))
    if k == 'Cond':
        return ExprCond(copy_of(t.f('cond')), copy_of(t.f('src1')), copy_of(t.f('src2')))
    if k == 'Compose':
        return ExprCompose([(copy_of(p[0]), p[1], p[2]) for p in t.f('args')])
    return ExprAff(copy_of(t.f('dst')), copy_of(t.f('src')))


_CALLBACK = [None]


def visit_of(t, cb):
    """Bottom-up traversal: children first, then the callback on the (re)built node -- what every Expr.visit of expression.py does (C15.D2)."""
    call = _CALLBACK[0]
    k = t.KIND
    if k in ('Int', 'Id'):
        return call(cb, t)
    if k == 'Mem':
        sg = t.f('segm')
        n = ExprMem(visit_of(t.f('arg'), cb), t.f('size'), visit_of(sg, cb) if isinstance(sg, Node) else None)
    elif k == 'Op':
        n = ExprOp(t.f('op'), *[visit_of(a, cb) for a in t.f('args')])
    elif k == 'Slice':
        n = ExprSlice(visit_of(t.f('arg'), cb), t.f('start'), t.f('stop'))
    elif k == 'Cond':
        n = ExprCond(visit_of(t.f('cond'), cb), visit_of(t.f('src1'), cb), visit_of(t.f('src2'), cb))
    elif k == 'Compose':
        n = ExprCompose([(visit_of(p[0], cb), p[1], p[2]) for p in t.f('args')])
    else:
        n = ExprAff(visit_of(t.f('dst'), cb), visit_of(t.f('src'), cb))
    if n == t:
        n = t
    return call(cb, n)


def show(t):
    if not isinstance(t, Node):
        return repr(t)
    k = t.KIND
    if k == 'Id':
        return t.f('name')
    if k == 'Int':
        a = t.f('arg')
        return '%#x:%s%d' % (int(a) % (1 << type(a).size), 's' if type(a).signed else 'u', type(a).size)
    if k == 'Mem':
        sg = t.f('segm')
        return '%s@%d[%s]' % ((show(sg) + ':') if isinstance(sg, Node) else '', t.f('size'), show(t.f('arg')))
    if k == 'Op':
        a = t.f('args')
        if len(a) == 1:
            return '(%s %s)' % (t.f('op'), show(a[0]))
        return '(' + (' %s ' % t.f('op')).join(show(x) for x in a) + ')'
    if k == 'Slice':
        return '%s[%d:%d]' % (show(t.f('arg')), t.f('start'), t.f('stop'))
    if k == 'Cond':
        return '(%s ? %s : %s)' % (show(t.f('cond')), show(t.f('src1')), show(t.f('src2')))
    if k == 'Compose':
        return '{' + ', '.join('%s@%d:%d' % (show(p[0]), p[1], p[2]) for p in t.f('args')) + '}'
    return '%s = %s' % (show(t.f('dst')), show(t.f('src')))


# ----------------------------------------------------------------------------------------------- well-typedness and denotation
def check_typed(t, lenient_const_pieces=False):
    """(lenient_const_pieces: a constant held in a concatenation slot may be wider than the slot -- merge_sliceto_slice types merged constants with the
    width of the whole concatenation; the value is the constant masked to the slot.)
    Raise IllTyped unless every sub-expression has a determinate width, operands of + * ^ & | == have equal widths, slices lie inside
    their operand and concatenation slots tile the result."""
    k = t.KIND
    if k == 'Int' or k == 'Id':
        return size_of(t)
    if k == 'Mem':
        check_typed(t.f('arg'), lenient_const_pieces)
        if isinstance(t.f('segm'), Node):
            check_typed(t.f('segm'), lenient_const_pieces)
        return t.f('size')
    if k == 'Op':
        sizes = [check_typed(a, lenient_const_pieces) for a in t.f('args')]
        op = t.f('op')
        if not sizes:
            raise IllTyped('operator without operands')
        if op in ('+', '*', '^', '&', '|', '==', '-') and len(set(sizes)) != 1:
            raise IllTyped('%s on widths %s' % (op, sizes))
        return sizes[0]
    if k == 'Slice':
        s = check_typed(t.f('arg'), lenient_const_pieces)
        if not (0 <= t.f('start') < t.f('stop') <= s):
            raise IllTyped('slice [%d:%d] of %d bits' % (t.f('start'), t.f('stop'), s))
        return t.f('stop') - t.f('start')
    if k == 'Cond':
        check_typed(t.f('cond'), lenient_const_pieces)
        a, b = check_typed(t.f('src1'), lenient_const_pieces), check_typed(t.f('src2'), lenient_const_pieces)
        if a != b:
            raise IllTyped('conditional arms of %d and %d bits' % (a, b))
        return a
    if k == 'Compose':
        pos = 0
        for p in sorted(t.f('args'), key=lambda p: p[1]):
            wp = check_typed(p[0], lenient_const_pieces)
            if p[1] != pos or (wp != p[2] - p[1] and not (lenient_const_pieces and p[0].KIND == 'Int' and wp > p[2] - p[1])):
                raise IllTyped('concatenation slot %d:%d holds %d bits at position %d' % (p[1], p[2], size_of(p[0]), pos))
            pos = p[2]
        return pos
    raise IllTyped(k)


def _mem_byte(seg, addr, salt):
    x = (seg * 0x9E3779B1 + addr * 0x85EBCA6B + salt * 0xC2B2AE35 + 0x27D4EB2F) & 0xFFFFFFFF
    x ^= x >> 15
    x = (x * 0x2C1B3C6D) & 0xFFFFFFFF
    x ^= x >> 12
    return x & 0xFF


def value(t, env, salt=0):
    """Standard bit-vector meaning; memory is a byte-addressed little-endian function of (segment value, address)."""
    k = t.KIND
    if k == 'Int':
        a = t.f('arg')
        return int(a) % (1 << type(a).size)
    if k == 'Id':
        return env[t.f('name')] % (1 << t.f('size'))
    if k == 'Mem':
        addr = value(t.f('arg'), env, salt)
        sg = t.f('segm')
        seg = (value(sg, env, salt) + 1) if isinstance(sg, Node) else 0
        v = 0
        for i in range(t.f('size') // 8):
            v |= _mem_byte(seg, (addr + i) & 0xFFFFFFFF, salt) << (8 * i)
        return v
    if k == 'Slice':
        return (value(t.f('arg'), env, salt) >> t.f('start')) & ((1 << (t.f('stop') - t.f('start'))) - 1)
    if k == 'Cond':
        return value(t.f('src1'), env, salt) if value(t.f('cond'), env, salt) != 0 else value(t.f('src2'), env, salt)
    if k == 'Compose':
        v = 0
        lo = min(p[1] for p in t.f('args'))
        for p in t.f('args'):
            v |= (value(p[0], env, salt) & ((1 << (p[2] - p[1])) - 1)) << (p[1] - lo)
        return v
    if k == 'Op':
        op, args = t.f('op'), t.f('args')
        w = size_of(args[0])
        m = (1 << w) - 1
        vs = [value(a, env, salt) for a in args]
        if op == '+':
            return sum(vs) & m
        if op == '*':
            r = 1
            for v in vs:
                r = (r * v) & m
            return r
        if op in ('^', '&', '|'):
            r = vs[0]
            for v in vs[1:]:
                r = (r ^ v) if op == '^' else (r & v) if op == '&' else (r | v)
            return r & m
        if op == '-':
            if len(vs) == 1:
                return (-vs[0]) & m
            return (vs[0] - vs[1]) & m
        if op == '>>':
            return (vs[0] >> vs[1]) & m if vs[1] < w else 0
        if op == '<<':
            return (vs[0] << vs[1]) & m if vs[1] < w else 0
        if op == 'a>>':
            sv = vs[0] - (1 << w) if vs[0] >> (w - 1) else vs[0]
            return (sv >> min(vs[1], w)) & m
        if op in ('<<<', '>>>'):
            c = vs[1] % w
            if op == '>>>':
                c = (w - c) % w
            return ((vs[0] << c) | (vs[0] >> (w - c))) & m if c else vs[0]
        if op == '==':
            return 1 if vs[0] == vs[1] else 0
        if op == 'parity':
            return 1 - (bin(vs[0] & 0xFF).count('1') & 1)
        raise IllTyped('operator %r has no denotation here' % op)
    raise IllTyped(k)


NAMES = (('x', 32), ('y', 32), ('z', 32), ('w', 16), ('v', 16), ('b', 8), ('c', 8), ('f', 1), ('fs', 16), ('gs', 16))


def valuations():
    out = []
    base = [0, 0xFFFFFFFF, 0x80000000, 0x7FFFFFFF, 0x12345678, 0xDEADBEEF, 0x00FF00FF, 0xAAAAAAAA, 0x55555555, 1, 0x100, 0x8000, 0x80, 0xFF, 0xFFFF, 0x10000]
    for i, v in enumerate(base):
        env = {}
        for j, (n, s) in enumerate(NAMES):
            env[n] = (base[(i + 3 * j) % len(base)] if j else v)
        out.append(env)
    for bit in range(32):
        env = dict((n, ((1 << bit) if j % 2 == 0 else ~(1 << bit)) & 0xFFFFFFFF) for j, (n, s) in enumerate(NAMES))
        out.append(env)
    # shift counts whose sum wraps at 8 bits, or passes the operand width
    for bv, cv, zv in ((0x80, 0x84, 0x84), (0x18, 0xF0, 0xF0), (0xFF, 0x01, 0x01), (0x10, 0x10, 0x10), (0x1F, 0x01, 0x21), (0x04, 0xFC, 0x03)):
        env = dict(out[4])
        env.update({'b': bv, 'c': cv, 'x': 0xDEADBEEF, 'y': (out[4]['y'] & ~0xFF) | bv, 'z': (out[4]['z'] & ~0xFF) | zv})
        out.append(env)
    return out


# ----------------------------------------------------------------------------------------------- the family
def atoms():
    A = {}
    for n, s in NAMES:
        A[n] = ExprId(n, s)
    return A


def C(v, size=32):
    return ExprInt(U[size](v))


def SC(v, size=32):
    return ExprInt(S[size](v))


def Sl(a, lo, hi):
    return ExprSlice(a, lo, hi)


def Op(op, *a):
    return ExprOp(op, *a)


def Comp(*pieces):
    return ExprCompose([tuple(p) for p in pieces])


def family():
    """(label, expression) pairs; labels name the rewrite the shape is aimed at."""
    A = atoms()
    x, y, z, w, v, b, c, f, fs, gs = [A[n] for n, _ in NAMES]
    mx, msx, my8 = ExprMem(x, 32), ExprMem(x, 32, fs), ExprMem(y, 8)
    F = []

    def add(label, e):
        F.append((label, e))
    # --- constants
    for e in (C(0), C(5), C(0xFFFFFFFF), SC(-1), SC(-128, 8), SC(5, 16), C(1, 1), C(0xFF, 8), SC(-1, 64), C(1 << 63, 64)):
        add('const', e)
    # --- associative operators
    for op in ('+', '*', '^', '&', '|'):
        for args in ((x, y), (y, x), (x, C(0)), (C(0), x), (x, C(1)), (x, C(0xFFFFFFFF)), (C(3), C(5)), (C(0xFFFFFFFF), C(2)), (x, C(3), C(5)), (C(3), x, C(5)), (C(3), C(5), x),
                     (Op(op, x, y), z), (x, Op(op, y, z)), (Op(op, x, C(1)), C(2)), (Op(op, Op(op, x, y), C(7)), Op(op, z, C(8))), (x, x), (x, y, x), (x, x, x), (x, x, y, y),
                     (x, y, C(0)), (x, y, z, C(0)), (C(0), x, y), (mx, x), (msx, mx), (b, C(0x80, 8)), (b, c, C(0, 8)), (C(0x81, 8), C(0x7F, 8)), (w, C(0xFFFF, 16), v),
                     (Sl(x, 0, 8), b), (Sl(x, 0, 4), Sl(y, 0, 4)), (Sl(x, 0, 4), Sl(x, 0, 4)), (Sl(x, 4, 28), Sl(x, 4, 28)), (f, f), (f, C(1, 1)), (SC(-1), x), (x, SC(-2), C(2))):
            add('assoc:%s' % op, Op(op, *args))
    # --- negation / subtraction
    for e in (Op('-', x, C(0)), Op('-', b, C(0, 8)), Op('-', C(7), C(0)), Op('-', x), Op('-', Op('-', x)), Op('-', Op('-', Op('-', x))), Op('-', C(5)), Op('-', C(0)), Op('-', SC(-3)), Op('-', C(0x80, 8)), Op('-', x, y), Op('-', x, C(1)), Op('-', C(9), C(4)),
              Op('-', x, x), Op('-', Op('+', x, y)), Op('-', Op('+', x, y, C(4))), Op('-', Op('+', x, Op('-', y))), Op('+', x, Op('-', x)), Op('+', Op('-', x), x), Op('+', x, y, Op('-', x)),
              Op('+', Op('-', x), y, x), Op('+', x, Op('-', y)), Op('+', Op('-', x), Op('-', x)), Op('+', x, Op('-', Op('+', x, y))), Op('+', Op('+', x, C(1)), C(0xFFFFFFFF)),
              Op('+', Op('+', x, y, C(1)), C(0xFFFFFFFF)), Op('+', Op('+', x, Op('*', y, C(4)), C(8)), C(0xFFFFFFF8)), Op('+', Op('+', x, C(4)), Op('-', C(4))), Op('-', b), Op('-', Op('-', b)),
              Op('+', Sl(x, 0, 4), Op('-', Sl(x, 0, 4))), Op('+', b, Op('-', b)), Op('-', x, Op('-', y)), Op('-', Op('*', x, y)), Op('*', x, Op('-', y))):
        add('neg', e)
    # --- shifts
    counts32 = [C(0), C(1), C(7), C(8), C(31), C(32), C(33), C(0x80000000), C(0, 8), C(1, 8), C(31, 8), C(32, 8), C(0xFF, 8)]
    for op in ('>>', '<<', 'a>>'):
        for cnt in counts32:
            add('shift:%s' % op, Op(op, x, cnt))
        for val, cnt in ((C(8), C(1)), (C(1), C(4)), (C(0xFFFFFFFF), C(1)), (C(0x80000000), C(31)), (C(3), C(40)), (C(0x80000000), C(31, 8)), (C(0x81, 8), C(1, 8)), (C(0xFF, 8), C(9, 8)),
                         (C(1), C(0, 8)), (C(0xF0F0, 16), C(4, 16)), (C(1), C(0xFFFFFFFF)), (C(0x80, 8), C(7, 8)), (SC(-2), C(1))):
            add('shift-const:%s' % op, Op(op, val, cnt))
        add('shift:%s' % op, Op(op, b, C(3, 8)))
        add('shift:%s' % op, Op(op, x, Sl(y, 0, 8)))
        add('shift:%s' % op, Op(op, Op(op, x, C(1)), C(2)))
        add('shift:%s' % op, Op(op, C(0), x))
    for m_ in (0, 1, 0x7F, 0x80, 0x81, 0xFF, 0x100, 0x101, 0xFF00, 0x7FFFFFFF, 0x80000000, 0xFFFFFFFF):
        for s_ in (0, 1, 7, 8, 9, 16, 31, 32, 40):
            add('mask-shift', Op('>>', Op('&', x, C(m_)), C(s_)))
        add('mask-shift', Op('>>', Op('&', x, C(m_)), C(8, 8)))
        add('mask-shift', Op('>>', Op('&', x, y, C(m_)), C(8)))
        add('mask-shift', Op('>>', Op('&', C(m_), x), C(8)))
        add('mask-shift', Op('<<', Op('&', x, C(m_)), C(8)))
        add('mask-shift', Op('a>>', Op('&', x, C(m_)), C(8)))
    for m_ in (0, 1, 0x7F, 0x80, 0xFF, 0x10, 0x0F):
        for s_ in (0, 1, 4, 7, 8, 9):
            add('mask-shift', Op('>>', Op('&', b, C(m_, 8)), C(s_, 8)))
    for m_ in (0x8000, 0x7FFF, 0x100, 0xFF):
        for s_ in (8, 15, 16):
            add('mask-shift', Op('>>', Op('&', w, C(m_, 16)), C(s_, 16)))
    add('mask-shift', Op('>>', Op('&', x, y), C(8)))
    add('mask-shift', Op('>>', Op('&', x, C(0xFF)), y))
    # --- rotations
    for op in ('<<<', '>>>'):
        for cnt in (C(0), C(1), C(31), C(32), C(33), C(0, 8), C(1, 8), C(32, 8), C(8, 8)):
            add('rot:%s' % op, Op(op, x, cnt))
        for cnt in (C(0, 8), C(3, 8), C(8, 8), C(9, 8)):
            add('rot:%s' % op, Op(op, b, cnt))
        add('rot:%s' % op, Op(op, w, C(16, 16)))
        add('rot:%s' % op, Op(op, x, y))
        for op2 in ('<<<', '>>>'):
            for a_, b_ in ((1, 2), (3, 3), (5, 2), (2, 5), (31, 1), (16, 16), (0, 4), (4, 0)):
                add('rot-merge', Op(op, Op(op2, x, C(a_)), C(b_)))
                add('rot-merge', Op(op, Op(op2, x, C(a_, 8)), C(b_, 8)))
            add('rot-merge-mixed', Op(op, Op(op2, x, Op('&', y, C(0x1F))), C(3, 8)))
            add('rot-merge', Op(op, Op(op2, x, y), z))
            add('rot-merge', Op(op, Op(op2, x, C(3)), y))
            add('rot-merge', Op(op, Op(op2, b, C(3, 8)), C(6, 8)))
            add('rot-merge', Op(op, Op(op2, Op(op, x, C(1)), C(2)), C(4)))
    # --- nested shifts and rotations with symbolic counts (a merged count X+Y is computed at the counts' own width)
    for op in ('>>', '<<', 'a>>', '<<<', '>>>'):
        for inner in ('>>', '<<', 'a>>', '<<<', '>>>'):
            add('nested-shift', Op(op, Op(inner, x, b), c))
            add('nested-shift', Op(op, Op(inner, x, b), C(0xF0, 8)))
            add('nested-shift', Op(op, Op(inner, x, C(0x18, 8)), c))
            add('nested-shift', Op(op, Op(inner, x, Sl(y, 0, 8)), Sl(z, 0, 8)))
    # --- operands of one shape whose inner constants differ only in width (their ordering keys coincide where the key ignores the width)
    for op in ('&', '|', '^', '+', '*'):
        s8, s32 = Op('<<', x, Op('+', C(0xF9, 8), C(0x0B, 8))), Op('<<', x, Op('+', C(0xF9), C(0x0B)))
        add('width-twins', Op(op, s8, s32))
        add('width-twins', Op(op, s32, s8))
        add('width-twins', Op(op, Op('>>', y, C(4, 8)), Op('>>', y, C(4))))
        add('width-twins', Op(op, ExprCond(Op('+', C(0xFF, 8), C(1, 8)), x, y), ExprCond(Op('+', C(0xFF), C(1)), x, y)))
    # --- complement of a sum that holds a complement (the neg / sbb / dec chains: !(!X + c)), alone and inside a longer xor whose other operands sort before / after a sum
    for (X_, M_, k_, others) in ((x, C(0xFFFFFFFF), C(5), (y, Op('<<', y, C(1)), Op('-', y, z), Op('&', y, z), ExprMem(y), Sl(ExprCompose([(y, 0, 32), (z, 32, 64)]), 8, 40))),
                                 (b, C(0xFF, 8), C(5, 8), (c, Op('<<', c, C(1, 8)), my8))):
        S_ = Op('+', Op('^', X_, M_), k_)
        add('not-sum', Op('^', S_, M_))
        add('not-sum', Op('^', M_, S_))
        add('not-sum', Op('^', Op('+', k_, Op('^', M_, X_)), M_))
        for o_ in others:
            add('not-sum', Op('^', S_, M_, o_))
            add('not-sum', Op('^', Op('^', S_, o_), M_))
            add('not-sum', Op('^', o_, Op('^', M_, S_)))
            add('not-sum', Op('^', S_, o_, others[0], M_))
    add('not-sum', Op('^', Op('+', Op('^', b, C(0xFF, 8)), C(5, 8)), C(0xF0, 8), C(0x0F, 8), Op('<<', c, C(1, 8))))
    # --- comparison and parity
    for e in (Op('==', C(3), C(3)), Op('==', C(3), C(4)), Op('==', C(0), C(0)), Op('==', C(0xFF, 8), C(0xFF, 8)), Op('==', C(1, 8), C(0, 8)), Op('==', C(1, 1), C(1, 1)), Op('==', SC(-1), C(0xFFFFFFFF)),
              Op('==', Op('|', x, C(1)), C(0)), Op('==', Op('|', x, C(0)), C(0)), Op('==', Op('|', x, C(0x80000000)), C(0)), Op('==', Op('|', x, y), C(0)), Op('==', Op('|', x, y, C(4)), C(0)),
              Op('==', Op('|', x, C(1)), C(1)), Op('==', Op('|', C(1), x), C(0)), Op('==', Op('|', b, C(1, 8)), C(0, 8)), Op('==', Op('&', x, C(1)), C(0)), Op('==', x, C(0)), Op('==', x, y), Op('==', x, x),
              Op('==', C(0), x), Op('==', Op('+', x, C(0)), y)):
        add('eq', e)
    for cst in (C(0), C(1), C(3), C(0xFF), C(0x100), C(0x1FF), C(0x80000000), C(0xFFFFFFFF), C(0, 8), C(7, 8), C(0xFF, 8), C(0x101, 16), C(1, 1), C(0, 1), C(0x1FF, 64)):
        add('parity', Op('parity', cst))
    add('parity', Op('parity', x))
    add('parity', Op('parity', Op('&', x, C(0xFF))))
    add('parity', Op('parity', Op('+', C(1), C(2))))
    # --- slices
    comp1 = Comp((b, 0, 8), (w, 8, 24), (c, 24, 32))
    comp2 = Comp((Sl(x, 0, 16), 0, 16), (Sl(y, 0, 16), 16, 32))
    comp3 = Comp((w, 0, 16), (C(0, 16), 16, 32))
    for arg in (x, C(0x12345678), C(0xFF, 8), SC(-2), C(0x8000000000000001, 64), Sl(x, 8, 24), Sl(x, 0, 16), Sl(Sl(x, 4, 28), 4, 20), comp1, comp2, comp3, mx, msx, ExprMem(x, 64), ExprMem(x, 16), Op('+', x, y),
                Op('+', C(1), C(2)), ExprCond(f, x, y)):
        n = size_of(arg)
        for lo, hi in ((0, n), (0, 8), (8, 16), (0, 16), (16, 32), (4, 12), (0, 1), (n - 1, n), (0, 24), (8, n), (7, 9), (24, 32), (0, 4), (16, 24), (1, 8), (0, 32), (32, 64), (8, 40)):
            if 0 <= lo < hi <= n:
                add('slice:%s' % arg.KIND, Sl(arg, lo, hi))
    # --- compositions
    for pieces in (((C(0x11, 8), 0, 8), (C(0x22, 8), 8, 16), (C(0x3344, 16), 16, 32)), ((C(0x3344, 16), 16, 32), (C(0x11, 8), 0, 8), (C(0x22, 8), 8, 16)),
                   ((C(0x11, 8), 0, 8), (b, 8, 16), (C(0x3344, 16), 16, 32)), ((C(0xFF, 8), 0, 8), (C(0xFF, 8), 8, 16)), ((C(0xAB, 8), 0, 8), (C(0xCD, 8), 8, 16), (C(0xEF, 8), 16, 24)),
                   ((C(0x1234, 16), 0, 16), (w, 16, 32)), ((w, 0, 16), (C(0x1234, 16), 16, 32)), ((w, 0, 16), (C(0, 16), 16, 32)), ((C(1, 1), 0, 1), (C(0, 1), 1, 2)),
                   ((C(0x11, 8), 0, 8), (C(0x22, 8), 8, 16), (w, 16, 32)), ((C(0x11, 8), 0, 8), (w, 8, 24), (C(0x22, 8), 24, 32)), ((C(0x11, 8), 0, 8), (C(0x22, 8), 8, 16), (b, 16, 24), (C(0x44, 8), 24, 32)),
                   ((C(0x80, 8), 0, 8), (C(0x01, 8), 8, 16), (C(0xFFFF, 16), 16, 32), (C(0x12345678), 32, 64)), ((SC(-1, 8), 0, 8), (C(0, 8), 8, 16)), ((C(0, 8), 0, 8), (SC(-1, 8), 8, 16)), ((C(0, 8), 0, 8), (SC(-1, 8), 8, 16), (C(0, 16), 16, 32)),
                   ((Sl(x, 0, 8), 0, 8), (Sl(x, 8, 32), 8, 32)), ((Sl(x, 8, 32), 8, 32), (Sl(x, 0, 8), 0, 8)), ((Sl(x, 0, 8), 0, 8), (Sl(x, 8, 16), 8, 16), (Sl(y, 0, 16), 16, 32)),
                   ((Sl(x, 0, 8), 0, 8), (Sl(x, 8, 16), 8, 16), (Sl(x, 16, 32), 16, 32)), ((Sl(x, 0, 8), 0, 8), (Sl(x, 16, 24), 8, 16), (w, 16, 32)), ((Sl(x, 8, 16), 0, 8), (Sl(x, 0, 8), 8, 16), (w, 16, 32)),
                   ((Sl(x, 0, 8), 0, 8), (Sl(y, 8, 16), 8, 16), (w, 16, 32)), ((Sl(x, 0, 8), 0, 8), (b, 8, 16), (Sl(x, 16, 32), 16, 32)), ((Sl(x, 8, 16), 0, 8), (Sl(x, 16, 24), 8, 16), (w, 16, 32)),
                   ((Sl(w, 0, 8), 0, 8), (Sl(w, 8, 16), 8, 16), (v, 16, 32)), ((Sl(x, 0, 8), 0, 8), (Sl(x, 8, 16), 8, 16), (Sl(y, 0, 8), 16, 24), (Sl(y, 8, 16), 24, 32)),
                   ((Sl(x, 0, 16), 0, 16), (Sl(x, 0, 16), 16, 32)), ((Sl(x, 16, 32), 0, 16), (Sl(x, 0, 16), 16, 32)), ((x, 0, 32),), ((x, 0, 32), (y, 32, 64)), ((Sl(x, 0, 8), 0, 8),), ((b, 0, 8), (c, 8, 16)),
                   ((mx, 0, 32), (ExprMem(y, 32), 32, 64)), ((Sl(mx, 0, 8), 0, 8), (Sl(mx, 8, 32), 8, 32)), ((Sl(msx, 0, 16), 0, 16), (Sl(mx, 16, 32), 16, 32)),
                   ((f, 0, 1), (Sl(x, 1, 32), 1, 32)), ((Sl(x, 0, 1), 0, 1), (Sl(x, 1, 32), 1, 32)), ((Sl(x, 0, 31), 0, 31), (f, 31, 32)),
                   ((C(0x11, 8), 0, 8), (C(0x22, 8), 8, 16), (C(0x33, 8), 16, 24)), ((b, 0, 8), (C(0x22, 8), 8, 16), (C(0x33, 8), 16, 24)), ((Sl(x, 0, 8), 0, 8), (Sl(x, 8, 24), 8, 24))):
        add('compose', ExprCompose([tuple(p) for p in pieces]))
    # --- conditionals
    for e in (ExprCond(C(0), x, y), ExprCond(C(1), x, y), ExprCond(C(2), x, y), ExprCond(C(0x80000000), x, y), ExprCond(C(0, 1), x, y), ExprCond(C(1, 1), x, y), ExprCond(C(0, 8), b, c),
              ExprCond(Op('-', x), y, z), ExprCond(Op('-', Op('-', x)), y, z), ExprCond(Op('-', x, y), y, z), ExprCond(x, y, z), ExprCond(f, x, y), ExprCond(x, y, y), ExprCond(Op('+', C(1), C(0xFFFFFFFF)), x, y),
              ExprCond(Op('-', C(0)), x, y), ExprCond(Op('==', C(1), C(1)), x, y), ExprCond(x, C(1), C(0)), ExprCond(Op('-', f), x, y), ExprCond(SC(-1), x, y)):
        add('cond', e)
    # --- nested shapes for the full simplification (addresses, flags)
    for e in (ExprMem(Op('+', Op('+', x, C(4)), C(0xFFFFFFFC))), ExprMem(Op('+', x, C(0))), ExprMem(Op('+', x, y, C(0)), 8), ExprMem(Op('+', Op('+', x, y, C(1)), C(0xFFFFFFFF)), 8),
              ExprMem(Op('+', Op('+', x, Op('*', y, C(4))), C(0))), ExprMem(x, 32, ExprCond(C(1), fs, gs)), Sl(ExprMem(Op('+', x, C(0)), 32, fs), 0, 8), Op('+', ExprMem(Op('+', y, x)), ExprMem(Op('+', x, y))),
              Op('^', ExprMem(Op('+', y, x)), ExprMem(Op('+', x, y))), Op('^', msx, mx), Op('^', ExprMem(x, 32, fs), ExprMem(x, 32, gs)), ExprCond(Op('==', Op('+', x, C(0)), x), y, z),
              Sl(Op('+', Sl(x, 0, 16), Sl(y, 0, 16)), 0, 8), Sl(Comp((Op('+', b, C(0, 8)), 0, 8), (Sl(x, 8, 32), 8, 32)), 0, 8), Op('>>', Op('&', Op('+', x, C(0)), C(0x80)), C(7)),
              Op('+', Op('*', x, C(1)), C(0)), Op('*', x, C(1)), Op('*', x, C(0)), Op('&', x, C(0)), Op('|', x, C(0xFFFFFFFF)), Op('&', x, C(0xFFFFFFFF)), Op('^', x, C(0xFFFFFFFF), C(0xFFFFFFFF)),
              Op('+', Op('-', Op('+', x, y)), x, y), Op('+', Op('<<', x, C(0)), C(0)), Comp((Sl(Op('+', x, C(0)), 0, 8), 0, 8), (Sl(x, 8, 32), 8, 32)),
              Comp((Sl(w, 0, 8), 0, 8), (Sl(w, 8, 16), 8, 16), (Sl(v, 0, 8), 16, 24), (Sl(v, 8, 16), 24, 32)), Op('^', Comp((Sl(w, 0, 8), 0, 8), (Sl(w, 8, 16), 8, 16), (v, 16, 32)), Comp((w, 0, 16), (v, 16, 32))),
              Op('^', Comp((w, 0, 16), (v, 16, 32)), Comp((Sl(w, 0, 8), 0, 8), (Sl(w, 8, 16), 8, 16), (v, 16, 32))), ExprCond(Op('-', Op('+', x, C(0))), y, z),
              Op('+', Comp((Sl(x, 0, 8), 0, 8), (Sl(x, 8, 32), 8, 32)), C(0)), Sl(Sl(Op('+', x, C(0)), 0, 16), 0, 8), Op('parity', Op('&', C(0x1FF), C(0xFFF))), Op('==', Op('+', C(1), C(2)), C(3))):
        add('nested', e)
    return F


def spelling_groups():
    """Groups of expressions that differ only in the order or nesting of the operands of a commutative-associative operator (C13), and
    groups that differ by a neutral constant or a cancelling pair of constants (the forms address arithmetic produces; C07)."""
    A = atoms()
    x, y, z, w, v, b, c, f, fs, gs = [A[n] for n, _ in NAMES]
    order, neutral = [], []
    for op in ('+', '*', '^', '&', '|'):
        order.append(('%s:2' % op, [Op(op, x, y), Op(op, y, x)]))
        order.append(('%s:3' % op, [Op(op, x, y, z), Op(op, z, y, x), Op(op, Op(op, x, y), z), Op(op, x, Op(op, y, z)), Op(op, Op(op, z, x), y), Op(op, y, Op(op, x, z))]))
        order.append(('%s:const' % op, [Op(op, x, C(5), y), Op(op, C(5), x, y), Op(op, y, Op(op, x, C(5))), Op(op, Op(op, C(5), y), x)]))
        order.append(('%s:2const' % op, [Op(op, x, C(3), C(4)), Op(op, C(3), x, C(4)), Op(op, Op(op, x, C(3)), C(4)), Op(op, C(4), Op(op, C(3), x))]))
        order.append(('%s:mem' % op, [Op(op, ExprMem(x), y, ExprMem(x, 32, fs)), Op(op, ExprMem(x, 32, fs), ExprMem(x), y), Op(op, y, Op(op, ExprMem(x, 32, fs), ExprMem(x)))]))
        order.append(('%s:mixed' % op, [Op(op, Sl(z, 0, 8), b, C(1, 8)), Op(op, C(1, 8), Sl(z, 0, 8), b), Op(op, b, Op(op, C(1, 8), Sl(z, 0, 8)))]))
        order.append(('%s:sub' % op, [Op(op, Op('-', x), y), Op(op, y, Op('-', x))]))
        order.append(('%s:cond' % op, [Op(op, ExprCond(f, x, y), x), Op(op, x, ExprCond(f, x, y))]))
        order.append(('%s:8' % op, [Op(op, b, c), Op(op, c, b)]))
        # operands whose first structural difference is the value of a constant leaf (the order of two constants decides the order of the operands)
        for lbl_, (p_, q_) in (('mem-disp', (ExprMem(Op('+', x, C(4))), ExprMem(Op('+', x, C(8))))),
                               ('mem-disp-top', (ExprMem(Op('+', x, C(4))), ExprMem(Op('+', x, C(0xFFFFFFFC))))),
                               ('mem-abs', (ExprMem(C(0x1000)), ExprMem(C(0x80001000)))),
                               ('mask-shift', (Op('>>', Op('&', x, C(0xFF)), C(4)), Op('>>', Op('&', x, C(0xFF00)), C(4)))),
                               ('cond-arms', (ExprCond(f, C(4), C(8)), ExprCond(f, C(8), C(4)))),
                               ('shift-count', (Op('<<', x, C(1)), Op('<<', x, C(31))))):
            order.append(('%s:const-twin:%s' % (op, lbl_), [Op(op, p_, q_), Op(op, q_, p_)]))
            order.append(('%s:const-twin3:%s' % (op, lbl_), [Op(op, p_, q_, y), Op(op, y, Op(op, q_, p_)), Op(op, Op(op, p_, y), q_)]))
    # long operand lists (an unrolled checksum, a sum of many cells): the same operands flat, nested to the left, nested to the right and with the pair that cancels / repeats kept
    # together in a short inner list -- the result may not depend on how many operands one node holds
    for n_ in (9, 17):
        cells = [ExprMem(Op('+', x, C(4 * i_))) for i_ in range(n_)]
        for op in ('^', '+', '|', '&'):
            twin = Op('-', y) if op == '+' else y
            flat = Op(op, y, *(cells + [twin]))
            left = y
            for t_ in cells + [twin]:
                left = Op(op, left, t_)
            right = twin
            for t_ in reversed([y] + cells):
                right = Op(op, t_, right)
            paired = Op(op, Op(op, y, twin), Op(op, *cells))
            order.append(('%s:long%d' % (op, n_), [flat, left, right, paired]))
    order.append(('mem-addr', [ExprMem(Op('+', x, y)), ExprMem(Op('+', y, x))]))
    order.append(('mem-addr3', [ExprMem(Op('+', x, y, C(4)), 8), ExprMem(Op('+', C(4), y, x), 8), ExprMem(Op('+', Op('+', y, C(4)), x), 8)]))
    order.append(('nested-ops', [Op('+', Op('*', x, y), z), Op('+', z, Op('*', y, x))]))
    for lbl_, o_ in (('id', y), ('shift', Op('<<', y, C(1))), ('and', Op('&', y, z))):
        S_, M_ = Op('+', Op('^', x, C(0xFFFFFFFF)), C(5)), C(0xFFFFFFFF)
        order.append(('not-sum:%s' % lbl_, [Op('^', Op('^', S_, M_), o_), Op('^', S_, Op('^', M_, o_)), Op('^', Op('^', o_, S_), M_), Op('^', o_, M_, S_), Op('^', M_, Op('^', o_, S_))]))
    order.append(('xor-cancel', [Op('^', x, y, x), Op('^', x, x, y), Op('^', y, x, x)]))
    for label, base in (('x', x), ('x+y', Op('+', x, y)), ('x+y*4', Op('+', x, Op('*', y, C(4)))), ('x+4', Op('+', x, C(4))), ('x+y+4', Op('+', x, y, C(4))), ('x+y+z', Op('+', x, y, z))):
        neutral.append(('+0:%s' % label, [base, Op('+', base, C(0)), Op('+', C(0), base), Op('+', Op('+', base, C(1)), C(0xFFFFFFFF)), Op('+', Op('+', base, C(0xFFFFFFFC)), C(4)),
                                        Op('+', Op('+', base, C(8)), Op('-', C(8)))]))
        neutral.append(('mem+0:%s' % label, [ExprMem(base, 8), ExprMem(Op('+', base, C(0)), 8), ExprMem(Op('+', Op('+', base, C(1)), C(0xFFFFFFFF)), 8)]))
    for op in ('|', '^', '<<', '>>', '<<<', '>>>'):
        neutral.append(('%s0' % op, [x, Op(op, x, C(0))]))
    neutral.append(('|0:3', [Op('|', x, y), Op('|', x, y, C(0))]))
    neutral.append(('^0:3', [Op('^', x, y), Op('^', x, y, C(0))]))
    return order, neutral


# ----------------------------------------------------------------------------------------------- running the source
class SimpRun(object):
    def __init__(self, ctx):
        self.ctx = ctx
        self.hlp = ctx.mod('expr_helper')
        self.expr = ctx.mod('expression')
        scope = dict(NODE_CLASSES)
        scope.update(INT_CLASSES)
        self.unevaluated = {}
        op_mod = Obj('operator')
        for nm_, f_ in (('add', lambda a, b: a + b), ('sub', lambda a, b: a - b), ('mul', lambda a, b: a * b), ('xor', lambda a, b: a ^ b), ('and_', lambda a, b: a & b),
                        ('or_', lambda a, b: a | b), ('rshift', lambda a, b: a >> b), ('lshift', lambda a, b: a << b), ('neg', lambda a: -a), ('eq', lambda a, b: a == b), ('ne', lambda a, b: a != b)):
            setattr(op_mod, nm_, Native(f_))
        scope['operator'] = op_mod
        scope['hash'] = Native(hash)
        scope['id'] = Native(id)
        # module-level tables of both modules (tab_size_int, op_assoc, whatever named constants the rules use), evaluated in source order
        for mod in (self.expr, self.hlp):
            for st in mod.tree.body:
                if isinstance(st, ast.Assign) and len(st.targets) == 1 and isinstance(st.targets[0], ast.Name) and st.targets[0].id not in NODE_CLASSES:
                    try:
                        scope[st.targets[0].id] = Evaluator(scope).ev(st.value)
                    except NotConst as e:
                        self.unevaluated[st.targets[0].id] = str(e)
        for need in ('canonize_expr_list', 'key_expr'):
            if need not in self.expr.funcs:
                raise AnalysisError('expression.%s not found' % need)
        for mod in (self.expr, self.hlp):
            for fname, fnode in mod.funcs.items():
                if fname not in ('MatchExpr',):
                    scope[fname] = fnode
        for need in ('tab_size_int', 'op_assoc'):
            if need not in scope:
                raise AnalysisError('expression_helper.%s is not statically evaluable' % need)
        for need in ('_expr_simp', 'expr_simp', 'merge_sliceto_slice'):
            if need not in self.hlp.funcs:
                raise AnalysisError('expression_helper.%s not found' % need)
        self.scope = scope
        self.ev = Evaluator(scope)
        _CALLBACK[0] = lambda cb, node: self.ev.call_user(cb, [node]) if isinstance(cb, ast.FunctionDef) else cb.fn(node)
        self.vals = valuations()

    def call(self, fname, e):
        """('ok', result) | ('raises', exception name) | ('loops', reason); AnalysisError when the source leaves the evaluable subset."""
        old = sys.getrecursionlimit()
        sys.setrecursionlimit(max(old, 12000))
        try:
            r = self.ev.call_user(self.scope[fname], [e])
            return 'ok', r
        except PyRaise as ex:
            return 'raises', ex.exc_name
        except RecursionError:
            return 'loops', 'unbounded recursion'
        except NotConst as ex:
            msg = str(ex)
            if 'does not terminate within the evaluation bound' in msg:
                return 'loops', msg
            if msg.startswith('name '):
                if msg[5:] in self.unevaluated:
                    raise AnalysisError('expression_helper: the module-level value of %s is outside the evaluable subset (%s)' % (msg[5:], self.unevaluated[msg[5:]]))
                return 'raises', 'NameError(%s)' % msg[5:]
            raise AnalysisError('%s is outside the evaluable subset on %s: %s' % (fname, show(e), msg))
        except (TypeError, ValueError, KeyError, IndexError, AttributeError, ZeroDivisionError) as ex:
            return 'raises', type(ex).__name__
        finally:
            sys.setrecursionlimit(old)

    def same_value(self, a, b):
        """None when a and b agree on every valuation, else (env, va, vb)."""
        for env in self.vals:
            va, vb = value(a, env), value(b, env)
            if va != vb:
                return env, va, vb
        return None


_CACHE = {}


def results(ctx):
    """Evaluate the whole family once per context: list of dicts (label, e, step, full, twice, problems)."""
    key = id(ctx)
    if key in _CACHE:
        return _CACHE[key]
    run = SimpRun(ctx)
    out = {'members': [], 'order': [], 'neutral': [], 'run': run}
    fam = family()
    for label, e in fam:
        try:
            check_typed(e)
        except IllTyped as ex:
            raise AnalysisError('simpeval: family member %s is ill typed (%s)' % (show(e), ex))
        rec = {'label': label, 'e': e, 'problems': []}
        for which, fname in (('step', '_expr_simp'), ('full', 'expr_simp')):
            if which == 'step' and e.KIND != 'Int' and _has_signed(e):
                rec[which] = ('skipped', None)      # expr_simp normalises the constant leaves before the rules see their parent
                continue
            e_in = copy_of(e)
            st, r = run.call(fname, e_in)
            rec[which] = (st, r)
            if e_in != e:
                rec['problems'].append(('input-modified', which, '%s changes its argument %s into %s' % (fname, show(e), show(e_in))))
            if st == 'raises':
                rec['problems'].append(('raises', which, '%s(%s) raises %s' % (fname, show(e), r)))
            elif st == 'loops':
                rec['problems'].append(('loops', which, '%s(%s) does not terminate (%s)' % (fname, show(e), r)))
            elif not isinstance(r, Node):
                rec['problems'].append(('result', which, '%s(%s) returns %r, not an expression' % (fname, show(e), r)))
            else:
                try:
                    check_typed(r, lenient_const_pieces=True)
                    if size_of(r) != size_of(e):
                        rec['problems'].append(('width', which, '%s(%s) = %s has %d bits, the input %d' % (fname, show(e), show(r), size_of(r), size_of(e))))
                    else:
                        d = run.same_value(e, r)
                        if d is not None:
                            env, va, vb = d
                            rec['problems'].append(('value', which, '%s(%s) = %s: for %s the input is %#x, the result %#x' % (
                                fname, show(e), show(r), ', '.join('%s=%#x' % (n, env[n]) for n in sorted(_ids(e) | _ids(r))) or 'any valuation', va, vb)))
                except IllTyped as ex:
                    rec['problems'].append(('ill-typed', which, '%s(%s) = %s is ill typed: %s' % (fname, show(e), show(r), ex)))
        st, r = rec['full']
        if st == 'ok' and isinstance(r, Node):
            st2, r2 = run.call('expr_simp', copy_of(r))
            rec['twice'] = (st2, r2)
            if st2 == 'ok' and isinstance(r2, Node) and r2 != r:
                rec['problems'].append(('idempotence', 'full', 'expr_simp(%s) = %s, and simplifying a copy of that gives %s' % (show(e), show(r), show(r2))))
            elif st2 != 'ok':
                rec['problems'].append(('idempotence', 'full', 'simplifying a copy of expr_simp(%s) = %s %s %s' % (show(e), show(r), st2, r2)))
        out['members'].append(rec)
    order, neutral = spelling_groups()
    for kind, groups in (('order', order), ('neutral', neutral)):
        for label, es in groups:
            forms = []
            for e in es:
                check_typed(e)
                st, r = run.call('expr_simp', copy_of(e))
                forms.append((e, st, r))
            out[kind].append((label, forms))
    _CACHE[key] = out
    return out


def _has_signed(t):
    if t.KIND == 'Int':
        return type(t.f('arg')).signed
    for k in t.FIELDS:
        v = t.f(k)
        if isinstance(v, Node) and _has_signed(v):
            return True
        if isinstance(v, (list, tuple)):
            for x in v:
                if isinstance(x, Node) and _has_signed(x):
                    return True
                if isinstance(x, (list, tuple)) and any(isinstance(y, Node) and _has_signed(y) for y in x):
                    return True
    return False


def _ids(t):
    if not isinstance(t, Node):
        return set()
    if t.KIND == 'Id':
        return {t.f('name')}
    s = set()
    for k in t.FIELDS:
        v = t.f(k)
        if isinstance(v, Node):
            s |= _ids(v)
        elif isinstance(v, (list, tuple)):
            for x in v:
                if isinstance(x, Node):
                    s |= _ids(x)
                elif isinstance(x, (list, tuple)):
                    for y in x:
                        s |= _ids(y)
    return s


def emit(R, ctx, select, kinds, key_map=None, what_prefix=''):
    """Report, under rule R, the problems of the given kinds for the family labels `select` accepts: one instance per label (anti-vacuity: number of
    members evaluated), one finding per (label, kind).  Keys name the family label and the kind of failure, not the member or a line."""
    from .core import where
    res = results(ctx)
    run = res['run']
    fn = run.hlp.funcs['_expr_simp']
    by_label = {}
    for rec in res['members']:
        if select(rec['label']):
            by_label.setdefault(rec['label'], []).append(rec)
    for label in sorted(by_label):
        recs = by_label[label]
        seen = {}
        for rec in recs:
            for kind, which, msg in rec['problems']:
                if kind in kinds and kind not in seen:
                    seen[kind] = msg
        if not seen:
            R.ok('simp[%s]' % label, sample='%s: %d expressions, one rewriting step and the full simplification keep width and value on %d valuations' % (label, len(recs), len(run.vals)))
            for i in range(min(len(recs) // 4, 12)):
                R.ok('simp[%s]#%d' % (label, i), nontrivial=True)
        for kind, msg in sorted(seen.items()):
            key = (key_map or {}).get((label, kind), 'simp:%s:%s' % (label, kind))
            R.violation('simp[%s]:%s' % (label, kind), key, what_prefix + msg, where(run.hlp, fn))
    return len(by_label)


def emit_groups(R, ctx, kind, what):
    """kind = 'order' | 'neutral': every spelling of a group must simplify to the identical expression."""
    from .core import where
    res = results(ctx)
    run = res['run']
    fn = run.hlp.funcs['expr_simp']
    for label, forms in res[kind]:
        bad = [(e, st, r) for e, st, r in forms if st != 'ok' or not isinstance(r, Node)]
        distinct = []
        for e, st, r in forms:
            if st == 'ok' and isinstance(r, Node) and not any(r == d[1] for d in distinct):
                distinct.append((e, r))
        inst = '%s[%s]' % (kind, label)
        if bad:
            e, st, r = bad[0]
            R.violation(inst, 'simp-group:%s:%s:%s' % (kind, label, st), 'expr_simp(%s) %s %s' % (show(e), st, r), where(run.hlp, fn))
        elif len(distinct) > 1:
            R.violation(inst, 'simp-group:%s:%s' % (kind, label), '%s: expr_simp(%s) = %s but expr_simp(%s) = %s' % (what, show(distinct[0][0]), show(distinct[0][1]), show(distinct[1][0]), show(distinct[1][1])),
                        where(run.hlp, fn))
        else:
            R.ok(inst, sample='%s: %d spellings simplify to %s' % (label, len(forms), show(distinct[0][1]) if distinct else '?'))
