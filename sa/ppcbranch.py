"""PowerPC branch family (bc, bclr/bcctr): the render -> assemble half of the C18 fixpoint, evaluated statically.
getname/args2str (renderer) and check_mnemo/parse_name_cond/parse_opts/str2name/parse_args (assembler) are small decision
procedures over the finite field space BO x BI x AA x LK: they are evaluated from their source (consteval) on every
combination, and the fields the assembler rebuilds are compared with the fields that were rendered."""
import ast

from .core import AnalysisError
from .consteval import Evaluator, NotConst, Obj, module_env, Opaque, PyRaise
from .shapes import u


class Raised(Exception):
    """The analysed code raises a Python exception on this input."""

    def __init__(self, exc_name, msg):
        Exception.__init__(self, msg)
        self.exc_name = exc_name


class BranchTrip(object):
    def __init__(self, ctx, P):
        self.P = P
        self.mod = pm = ctx.mod('ppc_arch')
        env, skipped = module_env(pm, {})
        for name, f in pm.funcs.items():
            env.setdefault(name, f)
        self.env = env
        # class objects (data attributes through the MRO + methods through the MRO)
        self.cls_objs = {}
        for cname in list(P.classes) + ['bm_cond']:
            o = Obj(cname)
            if cname in P.classes:
                meths, attrs = {}, {}
                for k in reversed(P.classes[cname].mro):
                    if k in P.classes:
                        meths.update(P.classes[k].methods)
                        attrs.update(dict((a, v) for a, v in P.classes[k].own.items() if not isinstance(v, Opaque) and a != 'mask'))
                    elif k == 'ppc_mn':
                        meths.update(pm.methods('ppc_mn'))
                cm = dict(pm.methods('ppc_mnemo_metaclass'))
                cm.update(meths)
                o.__dict__['_methods'] = cm
                o.__dict__['_instance_methods'] = meths
                o.__dict__['_isclass'] = True
                o.__dict__['_meta_methods'] = set(pm.methods('ppc_mnemo_metaclass')) - set(meths)
                o.__dict__['_classattrs'] = attrs
                for a, v in attrs.items():
                    setattr(o, a, v)
            else:
                for st in pm.cls(cname).body:
                    if isinstance(st, ast.Assign) and isinstance(st.targets[0], ast.Name):
                        try:
                            setattr(o, st.targets[0].id, Evaluator({}).ev(st.value))
                        except NotConst:
                            pass
            self.cls_objs[cname] = o
            env[cname] = o

    def instance(self, cname, **fields):
        c = self.cls_objs[cname]
        o = Obj(cname + '()')
        o.__dict__['_methods'] = c.__dict__['_instance_methods']
        for a, v in c.__dict__['_classattrs'].items():
            setattr(o, a, v)
        for k, v in fields.items():
            setattr(o, k, v)
        return o

    def call(self, obj, mname, *args):
        fn = obj.__dict__['_methods'].get(mname)
        if fn is None:
            raise AnalysisError('%s has no method %s' % (obj, mname))
        try:
            return Evaluator(self.env).call_user(fn, [obj] + list(args))
        except PyRaise as e:
            raise Raised(e.exc_name, '%s.%s: %s' % (obj.__dict__['_name'], mname, e))
        except NotConst as e:
            raise AnalysisError('%s.%s is outside the statically evaluable subset: %s' % (obj, mname, e))

    def render(self, cname, fields):
        o = self.instance(cname, **fields)
        name = self.call(o, 'getname')
        args = self.call(o, 'args2str')
        return name, list(args)

    def symbol_filter(self, full):
        """The operand list after ppc_mn replaced the names that are not registers by "0": the loop that does it (in __init__ or in a helper method of
        ppc_mn, whatever its variable names) is replayed from the source."""
        loops = []
        for mname, fn in self.mod.methods('ppc_mn').items():
            for n in ast.walk(fn):
                if isinstance(n, ast.For) and isinstance(n.iter, ast.Name) and isinstance(n.target, ast.Name) and any('is_symbol' in u(x) for x in ast.walk(n)):
                    accs = set(c.func.value.id for c in ast.walk(n) if isinstance(c, ast.Call) and isinstance(c.func, ast.Attribute) and c.func.attr == 'append'
                               and isinstance(c.func.value, ast.Name))
                    if len(accs) == 1:
                        loops.append((n, accs.pop()))
        if len(loops) != 1:
            raise AnalysisError('ppc_mn: the loop that replaces symbols by "0" (is_symbol) was not found (%d candidates)' % len(loops))
        loop, acc = loops[0]
        ev = Evaluator(dict(self.env))
        ev.env.update({loop.iter.id: list(full), acc: [], 'print': Opaque('print')})
        body = [st for st in loop.body if not (isinstance(st, ast.Expr) and isinstance(st.value, ast.Call) and u(st.value.func) == 'print')]

        def strip_print(stmts):
            out = []
            for st in stmts:
                if isinstance(st, ast.Expr) and isinstance(st.value, ast.Call) and u(st.value.func) == 'print':
                    continue
                if isinstance(st, ast.If):
                    st2 = ast.If(test=st.test, body=strip_print(st.body) or [ast.Pass()], orelse=strip_print(st.orelse))
                    ast.copy_location(st2, st)
                    out.append(st2)
                else:
                    out.append(st)
            return out
        body = strip_print(loop.body)
        try:
            for a in full:
                ev.env[loop.target.id] = a
                try:
                    ev.exec_stmts(body, ev.env)
                except Exception as e:
                    if type(e).__name__ != '_Continue':
                        raise
        except NotConst as e:
            raise AnalysisError('ppc_mn symbol filter not evaluable: %s' % e)
        return list(ev.env[acc])

    def accepting_classes(self, name):
        out = []
        for cname in self.P.tab_mn:
            c = self.cls_objs[cname]
            ns = getattr(c, 'namestr', None) if 'namestr' in c.__dict__['_attrs'] else None
            if not ns or not any(name.startswith(n) for n in ns):
                continue
            try:
                if self.call(c, 'check_mnemo', name):
                    out.append(cname)
            except AnalysisError:
                out.append(cname + '?')
        return out

    def assemble(self, cname, name, args):
        """Fields after ppc_mn.__init__(text, 0, False) for the class: the statements of the assembling branch are replayed."""
        o = self.instance(cname)
        nm, rest = self.call(o, 'parse_name_cond', name)
        o.name = nm
        self.call(o, 'parse_opts', rest)
        self.call(o, 'str2name', nm)
        # symbols that are not whitelisted are replaced by "0" (evaluated from the source of __init__)
        full = self.symbol_filter(list(reversed(args)))
        self.call(o, 'parse_args', full)
        return o
