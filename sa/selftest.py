"""Sensitivity battery: apply recorded source edits ("mutants") to a scratch copy
of the analysed packages and demand that the property's rules fire on it.

A mutant is (name, relpath, old, new, expected_rule_prefix).  `old` must occur
exactly once in the file; if it does not occur (the repository moved on) the
mutant is skipped, not failed.  A mutant that applies, still parses, and is not
reported by a rule whose id starts with expected_rule_prefix is `missed` ->
the thorough run ends with ANALYSIS-ERROR (the checker is broken, not the repo).
"""
import ast
import importlib
import os
import shutil
import tempfile
from concurrent.futures import ProcessPoolExecutor

from . import core

PKGS = ['miasmx', 'ply']


def _copy_tree(root, dst):
    for p in PKGS:
        src = os.path.join(root, p)
        shutil.copytree(src, os.path.join(dst, p),
                        ignore=shutil.ignore_patterns('__pycache__', '*.pyc', 'parsetab.py', 'parser.out'))


def _one(args):
    prop, root, tier, mutant, baseline = args
    name, relpath, old, new, expect = mutant
    src_path = os.path.join(root, relpath)
    try:
        with open(src_path, encoding='utf-8', errors='replace') as f:
            text = f.read()
    except OSError:
        return name, 'skipped', 'file missing'
    if text.count(old) != 1:
        return name, 'skipped', 'anchor text occurs %d times' % text.count(old)
    mutated = text.replace(old, new)
    try:
        ast.parse(mutated)
    except SyntaxError as e:
        return name, 'skipped', 'mutant does not parse: %s' % e
    tmp = tempfile.mkdtemp(prefix='sa_mut_')
    try:
        _copy_tree(root, tmp)
        with open(os.path.join(tmp, relpath), 'w', encoding='utf-8') as f:
            f.write(mutated)
        code, violations, knowns = core.run_property(prop, tier, tmp, write_evidence=False, quiet=True)
        new_f = [f for f in violations + knowns if repr(f.ident()) not in baseline]
        hit = [f for f in new_f if f.rule.startswith(expect)]
        if hit:
            return name, 'detected', '%s %s' % (hit[0].rule, hit[0].key)
        if code == 2:
            return name, 'missed', 'analysis error on mutant instead of a named finding'
        return name, 'missed', 'new findings: %s' % [f.rule + ' ' + f.key for f in new_f][:3]
    finally:
        shutil.rmtree(tmp, ignore_errors=True)


def run_battery(prop, root, tier='quick'):
    mod = importlib.import_module('sa.props.%s' % prop.lower())
    mutants = list(getattr(mod, 'MUTANTS', []))
    code, violations, knowns = core.run_property(prop, tier, root, write_evidence=False, quiet=True)
    baseline = set(repr(f.ident()) for f in violations + knowns)
    res = {'total': len(mutants), 'detected': 0, 'skipped': 0, 'missed': [], 'details': []}
    if not mutants:
        return res
    jobs = [(prop, root, tier, m, baseline) for m in mutants]
    with ProcessPoolExecutor(max_workers=min(16, len(jobs))) as ex:
        for name, status, info in ex.map(_one, jobs):
            res['details'].append({'mutant': name, 'status': status, 'info': info})
            if status == 'detected':
                res['detected'] += 1
            elif status == 'skipped':
                res['skipped'] += 1
            else:
                res['missed'].append(name)
    return res
