"""E4 driver: instruction forms from the decoder table -> operand dictionaries (static model of what
x86_mn._dis / special_opcodes hand to the lifter) -> dict_to_Expr and the semantic function, both
partially evaluated by sa.lifter.Interp.  The mapping row -> operand dictionaries is the one place where
the checker models `_dis`; it is printed in evidence as an assumption.
"""
import ast

from .core import AnalysisError
from .lifter import (Interp, InfoObj, ModVal, Term, TInt, TId, LiftError, LiftUnknown, FuncVal, Ctor, Sym, show)
from .x86table import model as x86model, RowView
from .shapes import u


class Instance(object):
    """One lifter instantiation: a decoder row variant under an operand form and mode."""

    def __init__(self, name, row, modifs, opmode, prefix, operands, form):
        self.name, self.row, self.modifs, self.opmode, self.prefix = name, row, modifs, opmode, prefix
        self.operands, self.form = operands, form     # operand dicts, textual form tag
        self.func = None
        self.args = None
        self.results = None      # list of (decisions, list-of-terms | LiftError)
        self.unknown = None      # LiftUnknown message

    def key(self):
        return '%s[%s]' % (self.name, self.form)


class LifterModel(object):
    def __init__(self, ctx, opmodes=('u32',), rich=False, concrete=False):
        self.ctx = ctx
        self.concrete = concrete
        self.X = x86model(ctx)
        self.sem = ctx.mod('ia32_sem')
        self.eh = ctx.mod('emul_helper')
        E = self.X.env
        arch_env = dict((k, E[k]) for k in ('w8', 'wd', 'sd', 'dr', 'cr', 'sg', 'mmx', 'se', 'sw') if k in E)
        expr_names = set()
        for st in self.sem.tree.body:
            if isinstance(st, ast.ImportFrom) and st.module == 'miasmx.expression.expression':
                expr_names.update(a.name for a in st.names)
        self.I = Interp(self.sem, self.X.afs, arch_env, expr_names)
        # ia32_arch helpers used by dict_to_Expr
        afs = self.X.afs
        self.I.g['is_reg'] = NativeFunc(lambda d: not (d.get(afs.ad)) and afs.imm not in d and afs.symb not in d)
        self.I.g['is_imm'] = NativeFunc(lambda d: not d.get(afs.ad) and (afs.imm in d or afs.symb in d)
                                        and all(k in (afs.imm, afs.size, afs.ad, afs.symb, 'txt') for k in d))
        self.I.g['is_address'] = NativeFunc(lambda d: bool(d.get(afs.ad)))
        mf = self.I.g.get('mnemo_func')
        if not isinstance(mf, dict) or len(mf) < 250:
            raise AnalysisError('ia32_sem.mnemo_func is not statically evaluable (%r)' % (type(mf).__name__,))
        self.mnemo_func = mf
        self.opmodes = opmodes
        self.rich = rich
        self._jcc = self._eval_list(self.eh, 'jcc')
        self._dispatch = self._read_dispatch()
        self.instances = []
        self._build_instances()

    def _read_dispatch(self):
        return None

    def call_pattern(self, name, args, same=False):
        """Which of l, my_eip, args[0], *args get_instr_expr_args hands to the semantic function of this mnemonic: found by evaluating the function
        itself (consteval) with recording stand-ins for mnemo_func / MMXnoflags, whatever shape its if/elif chain has.  `same`: both operands are one object
        (an instruction naming one register twice); the semantic function that was called is kept in self._callee[(name, first_int, same)]."""
        first_int = bool(args and isinstance(args[0], TInt))
        key = (name, first_int, bool(same))
        callee_of = self.__dict__.setdefault('_callee', {})
        cache = self.__dict__.setdefault('_pattern_cache', {})
        if key in cache:
            return cache[key]
        from .consteval import Evaluator, Obj, Native, NotConst, PyRaise
        fn = self.eh.func('get_instr_expr_args')
        params = [a.arg for a in fn.args.args]
        if params[:3] != ['l', 'args', 'my_eip']:
            raise AnalysisError('get_instr_expr_args%r: unmodelled signature' % (tuple(params),))

        class _ExprInt(object):
            pass

        class _Other(object):
            pass
        A0 = _ExprInt() if first_int else _Other()
        A1 = _Other()
        EIP = _Other()
        l = Obj('l')
        m = Obj('m')
        m.name = name
        l.m = m
        l.prefix = []
        l.opmode = l.admode = l.mnemo_mode = self.X.afs.u32
        seen = []

        def recorder(callee):
            def rec(*a):
                seen.append((callee, a))
                return []
            return Native(rec)

        class _MF(dict):
            def __missing__(self_, k):
                raise KeyError(k)
        mf = _MF((k, recorder('mnemo_func')) for k in self.mnemo_func)
        scope = {'mnemo_func': mf, 'MMXnoflags': recorder('MMXnoflags'), 'ExprInt': _ExprInt, 'x86_afs': self.X.afs}
        # helpers get_instr_expr_args imports from ia32_sem (predicates over the instruction and its operands) are evaluated from their source; the node classes they may
        # test with isinstance are checker-side classes none of the stand-in operands belongs to, except ExprInt
        for st in self.eh.tree.body:
            if isinstance(st, ast.ImportFrom) and st.module and st.module.endswith('ia32_sem'):
                for al in st.names:
                    if al.name in self.sem.funcs and al.name not in scope:
                        def helper(*a, _n=al.name, _f=self.sem.funcs[al.name]):
                            # a predicate is evaluated; a function that builds IR (outside the evaluable subset here) is a semantic function: recorded like the others
                            try:
                                return Evaluator(scope).call_user(_f, list(a))
                            except NotConst:
                                seen.append((_n, a))
                                return []
                        scope[al.asname or al.name] = Native(helper)
        for cn_ in ('ExprMem', 'ExprId', 'ExprOp', 'ExprSlice', 'ExprCompose', 'ExprCond', 'ExprAff'):
            scope.setdefault(cn_, type('_' + cn_, (object,), {}))
        for st in self.sem.tree.body:
            if isinstance(st, ast.Assign) and len(st.targets) == 1 and isinstance(st.targets[0], ast.Name) and isinstance(st.value, (ast.List, ast.Tuple, ast.Constant)) \
                    and st.targets[0].id not in scope:
                try:
                    scope[st.targets[0].id] = Evaluator({}).ev(st.value)
                except NotConst:
                    pass
        for st in self.eh.tree.body:
            if isinstance(st, ast.Assign) and len(st.targets) == 1 and isinstance(st.targets[0], ast.Name) and isinstance(st.value, (ast.List, ast.Tuple)):
                try:
                    scope[st.targets[0].id] = Evaluator({}).ev(st.value)
                except NotConst:
                    pass
        for fname_, fnode_ in self.eh.funcs.items():
            scope.setdefault(fname_, fnode_)
        try:
            # asked with the same operand object twice for a form that names one register twice, with two operands otherwise
            Evaluator(scope).call_user(fn, [l, [A0, A0] if same else [A0, A1], EIP])
        except PyRaise as e:
            if e.exc_name == 'KeyError':
                cache[key] = ('l', '*args')         # no lifter: the failing lookup of the last branch
                callee_of[key] = 'mnemo_func'
                return cache[key]
            raise AnalysisError('get_instr_expr_args raises %s for %s' % (e.exc_name, name))
        except NotConst as e:
            raise AnalysisError('get_instr_expr_args is outside the evaluable subset for %s: %s' % (name, e))
        if len(seen) != 1:
            raise AnalysisError('get_instr_expr_args calls %d semantic functions for %s' % (len(seen), name))
        callee, a = seen[0]
        if not a or a[0] is not l:
            raise AnalysisError('get_instr_expr_args does not pass the instruction first for %s' % name)
        rest = a[1:]
        A1_ = A0 if same else A1
        table = {(A0,): ('l', 'args[0]'), (A0, A1_): ('l', '*args'), (EIP, A0): ('l', 'my_eip', 'args[0]'), (EIP, A0, A1_): ('l', 'my_eip', '*args')}
        pat = None
        for k_, v_ in table.items():
            if len(k_) == len(rest) and all(x is y for x, y in zip(k_, rest)):
                pat = v_
        if pat is None:
            raise AnalysisError('get_instr_expr_args: unmodelled argument list for %s' % name)
        cache[key] = pat
        callee_of[key] = callee
        return pat

    def _eval_list(self, mod, name):
        from .consteval import Evaluator
        return list(Evaluator({}).ev(mod.assign_value(name)))

    # ------------------------------------------------------------ operand dictionaries
    def REG(self, n, size):
        afs = self.X.afs
        return {afs.ad: False, n: 1, afs.size: size}

    def cval(self, size):
        if not self.concrete:
            return None
        return {8: 0x11, 16: 0x1122, 32: 0x11223344}[size]

    def MEM(self, size, admode='u32', lea=False):
        afs = self.X.afs
        return {afs.ad: True, 5: 1, afs.imm: ModVal(32 if admode == 'u32' else 16, self.cval(32)), afs.size: size}

    def IMM(self, mv):
        afs = self.X.afs
        return {afs.imm: mv, afs.size: {8: afs.u08, 16: afs.u16, 32: afs.u32}[mv.size], afs.ad: False}

    def intsize(self, modifs, opmode, ext=False, val=None):
        E = self.X.env
        if val is None and self.concrete:
            val = self._cimm
        if ext:
            return ModVal(32 if opmode == 'u32' else 16, val)
        if modifs.get(E['w8']):
            return ModVal(8, val)
        return ModVal(32 if opmode == 'u32' else 16, val)

    def _build_instances(self):
        """One instance per live decoder variant: (cell name, row, modifier set, opcode bytes) taken from the statically
        expanded trie, so that rows shadowed by later rows and non-final condition-code aliases do not appear."""
        X, E, afs = self.X, self.X.env, self.X.afs
        seen = set()
        variants = {}
        for path, c in sorted(X.cells.items()):
            if path[0] == 0x66:
                continue     # 0x66 is consumed as a prefix by _dis: these rows are reached through their unprefixed twin
            k = (c.name, c.row.idx, tuple(sorted((str(a), str(b)) for a, b in c.modifs.items() if b is not None)))
            if k not in variants:
                variants[k] = c
                c.live = set()
            variants[k].live.add(path[-1])
        for k, c in sorted(variants.items(), key=lambda kv: (kv[1].row.idx, kv[0][0], kv[0][2])):
            row, name, modifs, opc = c.row, c.name, c.modifs, c.opc
            combos = []
            if modifs.get(E['mmx']):
                # the 0x66 byte is both the operand-size prefix and the mandatory SSE prefix
                for prefix in ([(), (0x66,), (0xF2,), (0xF3,)] if self.rich else [(), (0x66,)]):
                    combos.append(('u16' if prefix == (0x66,) else 'u32', prefix))
            else:
                combos = [(om, ()) for om in self.opmodes]
            for opmode, prefix in combos:
                for _once in (1,):
                    self._cur_view = RowView(opc, row.afs)
                    for form, ops in self._forms(row, name, modifs, opmode, prefix, c.live):
                        name2, ops2 = self._special(name, modifs, opmode, ops)
                        kk = (name2, form, opmode, prefix, k[2], row.idx)
                        if kk in seen:
                            continue
                        seen.add(kk)
                        tag = '%s;%s%s' % (form, opmode, (';pfx=' + ','.join('%02X' % p for p in prefix)) if prefix else '')
                        inst = Instance(name2, row, modifs, opmode, prefix, ops2, tag)
                        inst.opc, inst.rowname = list(opc), name
                        self.instances.append(inst)

    def _forms(self, row, name, modifs, opmode, prefix, live=None):
        """Yield (form tag, operand dict list) as _dis builds mnemo_args for this row variant."""
        X, E, afs = self.X, self.X.env, self.X.afs
        w8, se, sw, sd, wd, mmx, sg, dr, cr = (E[k] for k in ('w8', 'se', 'sw', 'sd', 'wd', 'mmx', 'sg', 'dr', 'cr'))
        rmr = E['rmr']
        dibs = list(row.rm)
        opm = afs.u32 if opmode == 'u32' else afs.u16
        afsk = row.afs
        base = []   # list of alternatives: (tag, [operand dicts])
        if isinstance(afsk, int):
            S = opm
            if modifs.get(sd) is not None:
                S = {True: afs.f32, False: afs.f64, 'fp80': afs.f80}.get(modifs[sd], None)
                if S is None:
                    raise AnalysisError('row %r: unknown sd value %r' % (row, modifs[sd]))
            if modifs.get(w8) and not modifs.get(mmx):
                S = afs.u08
            if modifs.get(wd):
                S = afs.u16
            live = live if live is not None else set(range(256))
            live_reg = sorted(b & 7 for b in live if b >= 0xC0)
            if live_reg and X.dis_digit_reg_rejected(modifs, dibs, name, row.opc):
                live_reg = []           # _dis returns None for a register r/m operand of this row
            live_mem = any(b < 0xC0 for b in live)
            if modifs.get(mmx) and X.dis_mmx_modes(name, list(prefix), False, digit=True, row=getattr(self, '_cur_view', None) or row) == 'rejected':
                return                  # _dis returns None for this (row, mandatory prefix) pair
            opc_ = getattr(self, '_cur_view', None).opc if getattr(self, '_cur_view', None) is not None else row.opc
            if not modifs.get(mmx):
                # operand sizes of the two forms, from the size statements of the /digit branch of _dis
                rs = X.dis_operand_sizes(name, modifs, dibs, opc_, afsk, False, opm)
                ms = X.dis_operand_sizes(name, modifs, dibs, opc_, afsk, True, opm)
                if 'never' in (rs, ms):
                    raise AnalysisError('row %r: the /digit size statements of _dis reach NEVER' % (row,))
                if rs == 'rejected':
                    live_reg = []
                S_reg = S if isinstance(rs, str) else rs[1]
                S_mem = S if isinstance(ms, str) else ms[1]
                if ms == 'rejected':
                    live_mem = False
            else:
                S_reg = S_mem = S
            if modifs.get(mmx):
                if live_reg:
                    r_ = X.dis_mmx_modes(name, list(prefix), False, digit=True, row=getattr(self, '_cur_view', None) or row)
                    adm_ = r_[1] if isinstance(r_, tuple) else afs.u32
                    rn = {afs.mm: afs.reg_mm_base, afs.xmm: afs.reg_xmm_base}.get(adm_, 0) + live_reg[-1]
                    base.append(('rm=reg%d' % live_reg[-1], [self.REG(rn, S)]))
            else:
                if live_reg:
                    r0 = 3 if 3 in live_reg else live_reg[0]
                    base.append(('rm=reg%d' % r0, [self.REG(r0, S_reg)]))
                    if S_reg == afs.u08 and self.rich and 7 in live_reg:
                        base.append(('rm=reg7', [self.REG(7, S_reg)]))
            if live_mem:
                base.append(('rm=mem', [self.MEM(S_mem)]))
        elif afsk == E['reg']:
            S = afs.u08 if modifs.get(w8) else opm
            live_r = sorted(b & 7 for b in (live if live is not None else range(256)))
            r0 = 3 if 3 in live_r else live_r[0]
            base.append(('+r%d' % r0, [self.REG(r0, S)]))
            if self.rich and r0 != 0 and 0 in live_r:
                # register number 0 (eax / st(0)) is the implicit operand of many of these rows: both operands are then one register
                base.append(('+r0', [self.REG(0, S)]))
        elif rmr in dibs:
            for tag, mafs, modr in self._rmr_forms(row, name, modifs, opmode, prefix):
                ops = [mafs, modr]
                if afsk == E['cond'] and name.startswith('set'):
                    ops.pop(0)
                base.append((tag, ops))
        else:
            base.append(('noargs', []))
        for tag, margs in base:
            margs = [dict(a) for a in margs]
            swap = modifs.get(sw)
            if modifs.get(mmx) and rmr in dibs and not isinstance(afsk, int):
                r_ = X.dis_mmx_modes(name, list(prefix), swap, row=getattr(self, '_cur_view', None) or row)
                if r_ == 'rejected':
                    continue        # _dis returns None for this combination
                if isinstance(r_, tuple):
                    swap = r_[2]
            if swap:
                margs.reverse()
            dib_out = []
            for dib in dibs:
                if dib in (E['u08'], E['s08'], E['u16'], E['s16'], E['u32'], E['s32']):
                    dk = dib
                    if opmode != 'u32':
                        dk = {E['u32']: E['u16'], E['s32']: E['s16']}.get(dib, dib)
                    self._cimm = {E['u08']: 0x11, E['s08']: 0x11, E['u16']: 0x1122, E['s16']: 0x1122, E['u32']: 0x11223344, E['s32']: 0x11223344}[dk]
                    dib_out.append({afs.imm: self.intsize(modifs, opmode)})
                elif dib in (E['imm'], E['ims']):
                    if modifs.get(E['se']) or modifs.get(E['w8']):
                        self._cimm = 0x11
                    else:
                        self._cimm = 0x11223344 if opmode == 'u32' else 0x1122
                    dib_out.append({afs.imm: self.intsize(modifs, opmode, ext=(dib == E['ims']))})
                elif dib in (E['im1'], E['im3']):
                    dib_out.append({afs.imm: self.intsize(modifs, opmode, val=(1 if dib == E['im1'] else 3))})
                elif dib == rmr:
                    continue
                elif dib == E['r_eax']:
                    r = self.REG(0, afs.u08 if modifs.get(w8) else opm)
                    if margs:
                        margs = (margs + [r]) if modifs.get(sw) else ([r] + margs)
                    else:
                        dib_out.append(r)
                elif dib == E['mim']:
                    dib_out.append({afs.ad: True, afs.size: afs.u08 if modifs.get(w8) else opm, afs.imm: ModVal(32, self.cval(32))})
                elif dib == E['r_cl'] or dib == E['r_dx']:
                    dib_out.append(dict(dib))
                elif dib in E['segm_regs']:
                    dib_out.append({afs.ad: False, afs.size: opm, afs.reg_dict[dib]: 1})
                else:
                    raise AnalysisError('row %r: operand kind %r unknown to the form model' % (row, dib))
            margs = margs + dib_out
            for a in margs:
                if afs.ad not in a and afs.imm in a:
                    a[afs.size] = {8: afs.u08, 16: afs.u16, 32: afs.u32}[a[afs.imm].size]
                    a[afs.ad] = False
                if a.get(afs.ad) is True:
                    if name in ['lea'] + list(E.get('mnemo_prefetch', [])):
                        a[afs.size] = True
                    else:
                        a[afs.ad] = a[afs.size]
            yield tag, margs

    def _rmr_forms(self, row, name, modifs, opmode, prefix):
        """(tag, mafs dict, modr dict) alternatives for a ModRM reg,r/m row (mirrors the noafs/cond branch of _dis)."""
        X, E, afs = self.X, self.X.env, self.X.afs
        w8, se, sw, sd, wd, mmx, sg, dr, cr = (E[k] for k in ('w8', 'se', 'sw', 'sd', 'wd', 'mmx', 'sg', 'dr', 'cr'))
        dibs = list(row.rm)
        opm = afs.u32 if opmode == 'u32' else afs.u16
        adm = afs.u32
        reg_cat = 0
        if modifs.get(dr):
            reg_cat += 0x8
        if modifs.get(cr):
            reg_cat += 0x10
        if modifs.get(sg):
            reg_cat += 0x20
        swap_args = modifs.get(sw)
        if modifs.get(mmx):
            # derived from the source of x86_mn._dis (register-file selection of MMX/SSE rows)
            r = X.dis_mmx_modes(row.name, list(prefix), swap_args, row=getattr(self, '_cur_view', None) or row)
            if r in ('rejected', 'never'):
                return
            o, a, _swap = r
            if o == afs.xmm:
                reg_cat = afs.reg_xmm_base
            elif o == afs.mm:
                reg_cat = afs.reg_mm_base
            elif o == afs.u32:
                reg_cat = 0
            else:
                return      # the NEVER site of _dis (reported by C10)
            opm_, adm_ = o, a
        else:
            opm_, adm_ = opm, adm
        # r/m alternatives: register (mod=3) and memory
        def rm_reg(sizemode):
            if sizemode == afs.mm:
                return afs.reg_mm_base + 2
            if sizemode == afs.xmm:
                return afs.reg_xmm_base + 2
            return 2
        alts = []
        if adm_ in (afs.u32, afs.u16, afs.mm, afs.xmm, afs.f64):
            alts.append(('reg,rm=reg', {afs.ad: False, rm_reg(adm_): 1}))
            alts.append(('reg,rm=mem', {afs.ad: True, 5: 1, afs.imm: ModVal(32, self.cval(32))}))
            if modifs.get(mmx) and self.rich:
                # base + index*4 + disp: the scale becomes a constant of the address arithmetic
                alts.append(('reg,rm=sib', {afs.ad: True, 5: 1, 1: 4, afs.imm: ModVal(32, self.cval(32))}))
                if opm_ == adm_ and adm_ in (afs.mm, afs.xmm):
                    # one register named twice (pxor xmm1, xmm1): the dispatch of get_instr_expr_args and the semantic function may tell it apart
                    alts.append(('reg,rm=same', {afs.ad: False, (1 + reg_cat): 1}))
        for tag, modr in alts:
            # the ModRM byte as _dis pre-processes it (mod forced to 3 for cr/dr rows, non-existent segment registers rejected)
            c0 = (0xC0 if not modr[afs.ad] else 0x80) | (1 << 3) | ((1 if tag == 'reg,rm=same' else 2) if not modr[afs.ad] else 5)
            c1 = X.dis_rmr_pre(modifs, c0)
            if c1 == 'rejected' or (modr[afs.ad] and (c1 >> 6) == 3):
                continue
            if not modr[afs.ad] and X.dis_rmr_reg_rejected(modifs, row.name):
                continue                # memory-only instruction: _dis returns None for a register r/m
            mafs = {afs.ad: False, (1 + reg_cat): 1}
            # operand sizes: the size statements of the reg,r/m branch of _dis, evaluated for this form
            view = getattr(self, '_cur_view', None)
            szs = X.dis_operand_sizes(row.name, modifs, dibs, view.opc if view is not None else row.opc, row.afs, bool(modr[afs.ad]), opm_, adm_,
                                      list(prefix) if modifs.get(mmx) else ())
            if szs in ('never', 'rejected'):
                continue              # NEVER site (C10) / no instruction
            mafs[afs.size], modr[afs.size] = szs
            yield tag, mafs, modr

    def _special(self, name, modifs, opmode, ops):
        """special_opcodes(): renames and implicit operands -- the method body is evaluated (stringops.special); the cwde/cdq twin rows are
        switched by _dis itself."""
        from . import stringops as SO
        X, afs = self.X, self.X.afs
        u16 = opmode == 'u16'
        if u16 and name == 'cwde':
            name = 'cbw'       # _dis switches to the 0x66-prefixed twin row
        if u16 and name == 'cdq':
            name = 'cwd'
        name, ops, _ = SO.special(X, name, afs.u16 if u16 else afs.u32, [0x66] if u16 else [], modifs, ops)
        ops = [dict(a) for a in ops]
        for a in ops:
            if a.get(afs.ad) is True:
                a[afs.ad] = a[afs.size]
        return name, ops

    # ------------------------------------------------------------ running
    def function_for(self, name):
        if name in self.mnemo_func:
            return self.mnemo_func[name], 'mnemo_func'
        if '#' in name:
            return self.I.g.get('MMXnoflags'), 'MMXnoflags'
        return None, None

    def lift(self, inst):
        """Evaluate dict_to_Expr on every operand and the semantic function; fills inst.results / inst.unknown."""
        f, how = self.function_for(inst.name)
        inst.func, inst.how = f, how
        if f is None:
            return inst
        I = self.I
        d2e = I.g.get('dict_to_Expr')
        if not isinstance(d2e, FuncVal):
            raise AnalysisError('ia32_sem.dict_to_Expr not found')
        # the address-size attribute get_instr_expr passes on: u32 here, except that _dis leaves the register file (mm / xmm) in it for MMX/SSE rows
        adm = 'u32'
        mmx_ = self.X.env['mmx']
        if inst.modifs.get(mmx_):
            r_ = self.X.dis_mmx_modes(inst.row.name, list(inst.prefix), bool(inst.modifs.get(self.X.env['sw'])), digit=isinstance(inst.row.afs, int),
                                      row=getattr(inst, 'view', None) or inst.row)
            if isinstance(r_, tuple):
                adm = r_[1]
        info = InfoObj(inst.opmode, adm)
        try:
            args = []
            for k, od in enumerate(inst.operands):
                r = I.run(d2e, [od, inst.modifs, inst.opmode, adm, set()])
                if len(r) != 1:
                    raise LiftUnknown('dict_to_Expr forks on an operand value')
                dec, val = r[0]
                if isinstance(val, LiftError):
                    inst.results = [([], LiftError(val.exc, 'dict_to_Expr(operand %d %s): %s' % (k, _dshow(od), val.msg), val.node))]
                    return inst
                if isinstance(val, TInt) and (val.mod.val is None) and not self.concrete:
                    val = TInt(val.mod, leaf='imm%d' % k)
                args.append(val)
            inst.args = args
            my_eip = TInt(ModVal(32, 0x1000 if self.concrete else None), leaf='next_eip')
            if self.concrete:
                info.offset = 0
            name = inst.name
            same = inst.form.startswith('reg,rm=same') and len(args) == 2
            pat = self.call_pattern(name, args, same)
            callee = self._callee.get((name, bool(args and isinstance(args[0], TInt)), bool(same)))
            if callee not in (None, 'mnemo_func', how):
                # the dispatch chose another semantic function of ia32_sem for this form
                f2 = I.g.get(callee)
                if not isinstance(f2, FuncVal):
                    raise AnalysisError('get_instr_expr_args lifts %s (%s) with %s, which is not a function of ia32_sem' % (name, inst.form, callee))
                f, inst.func, inst.how = f2, f2, callee
            if 'args[0]' in pat and not args:
                inst.results = [([], LiftError('IndexError', 'get_instr_expr_args: args[0] on an instruction without operand', None))]
                return inst
            call_args = [info]
            for p_ in pat[1:]:
                if p_ == 'my_eip':
                    call_args.append(my_eip)
                elif p_ == 'args[0]':
                    call_args.append(args[0])
                else:
                    call_args += args
            inst.results = I.run(f, call_args)
        except LiftUnknown as e:
            inst.unknown = str(e)
        return inst

    def lift_all(self):
        for inst in self.instances:
            self.lift(inst)
        return self.instances


class NativeFunc(object):
    def __init__(self, fn):
        self.fn = fn


def _dshow(d):
    return '{%s}' % ', '.join('%s:%s' % (k, v) for k, v in d.items())


# make the interpreter call NativeFunc values
from . import lifter as _lifter
_orig_call = _lifter.Frame.call


def _call(self, f, args, kwargs, n):
    if isinstance(f, NativeFunc):
        return f.fn(*args)
    return _orig_call(self, f, args, kwargs, n)


_lifter.Frame.call = _call
