"""Syntax-directed extraction of the *shapes* small methods return.

`return_paths(fn)` enumerates the syntactic paths through a tiny function body
made of If / Return / simple assignments and yields, per path, the list of
branch tests taken (test node, polarity) and the returned expression with local
single-assignment names substituted by their defining expression.  Nothing is
evaluated; the results are compared with templates by the property rules.
Any statement kind outside this subset raises AnalysisError (fail closed).
"""
import ast
import copy

from .core import AnalysisError


class _Subst(ast.NodeTransformer):
    def __init__(self, env):
        self.env = env

    def visit_Name(self, n):
        if isinstance(n.ctx, ast.Load) and n.id in self.env:
            return copy.deepcopy(self.env[n.id])
        return n


def subst(expr, env):
    if not env:
        return expr
    return _Subst(env).visit(copy.deepcopy(expr))


class Path(object):
    def __init__(self):
        self.conds = []     # (test expr (substituted), polarity)
        self.env = {}       # local name -> expr
        self.stores = []    # (target expr, value expr) for attribute stores
        self.ret = None     # returned expr or None (falls off)
        self.raised = False

    def clone(self):
        p = Path()
        p.conds = list(self.conds)
        p.env = dict(self.env)
        p.stores = list(self.stores)
        return p


_BINOPS = {ast.Add: ast.Add, ast.Sub: ast.Sub}


def return_paths(fn, max_paths=64):
    done = []

    def run(stmts, path):
        """Returns list of live paths after the statements."""
        live = [path]
        for st in stmts:
            nxt = []
            for p in live:
                nxt += step(st, p)
            live = nxt
            if len(live) + len(done) > max_paths:
                raise AnalysisError('too many paths in %s' % fn.name)
        return live

    def step(st, p):
        if isinstance(st, ast.Return):
            p.ret = subst(st.value, p.env) if st.value is not None else ast.Constant(None)
            done.append(p)
            return []
        if isinstance(st, ast.Raise):
            p.raised = True
            done.append(p)
            return []
        if isinstance(st, (ast.Pass, ast.Assert)):
            return [p]
        if isinstance(st, ast.Expr):
            if isinstance(st.value, ast.Constant):
                return [p]
            p.stores.append((None, subst(st.value, p.env)))
            return [p]
        if isinstance(st, ast.Assign) and len(st.targets) == 1:
            t = st.targets[0]
            v = subst(st.value, p.env)
            if isinstance(t, ast.Name):
                p.env[t.id] = v
                return [p]
            if isinstance(t, ast.Attribute):
                p.stores.append((t, v))
                return [p]
            if isinstance(t, ast.Tuple) and isinstance(st.value, ast.Tuple) and len(t.elts) == len(st.value.elts):
                vals = [subst(e, p.env) for e in st.value.elts]
                for tt, vv in zip(t.elts, vals):
                    if isinstance(tt, ast.Name):
                        p.env[tt.id] = vv
                    elif isinstance(tt, ast.Attribute):
                        p.stores.append((tt, vv))
                    else:
                        raise AnalysisError('unmodelled assignment target in %s' % fn.name)
                return [p]
            raise AnalysisError('unmodelled assignment target in %s: %s' % (fn.name, ast.unparse(st)))
        if isinstance(st, ast.AugAssign) and isinstance(st.target, ast.Name):
            cur = p.env.get(st.target.id, ast.Name(st.target.id, ast.Load()))
            p.env[st.target.id] = ast.BinOp(copy.deepcopy(cur), st.op, subst(st.value, p.env))
            return [p]
        if isinstance(st, ast.If):
            test = subst(st.test, p.env)
            a, b = p, p.clone()
            a.conds.append((test, True))
            b.conds.append((test, False))
            return run(st.body, a) + run(st.orelse, b)
        raise AnalysisError('statement kind %s outside the modelled subset in %s'
                            % (type(st).__name__, fn.name))

    rest = run(fn.body, Path())
    for p in rest:
        p.ret = ast.Constant(None)
        done.append(p)
    return done


def u(node):
    return ast.unparse(node) if node is not None else 'None'
