"""E7: static model of the x86 opcode table (`addop` rows of x86allmncs.__init__).

Rows are read from the AST (all arguments are constant-evaluable); the
expansion follows the documented meaning of modif_desc = {modifier: (byte, bit)}
and reproduces the decode trie cell by cell.  The constants the model depends
on (modifier key list, masks, afs kinds) are read from `addop`'s own source and
the statements the model mirrors are located there; if they vanish the model is
stale and the analysis fails closed.
"""
import ast

from .core import AnalysisError
from .consteval import Evaluator, NotConst, Obj, build_instance, module_env
from .shapes import u


class Row(object):
    def __init__(self, idx, node, name, opc, afs, rm, modif_desc, prop, sem):
        self.idx, self.node = idx, node
        self.name, self.opc, self.afs, self.rm = name, opc, afs, rm
        self.modif_desc, self.prop, self.sem = modif_desc, prop, sem

    @property
    def lineno(self):
        return self.node.lineno

    def key(self):
        return 'addop(%s,%s,%s)' % (self.name, '[%s]' % ','.join('0x%02X' % b for b in self.opc), self.afs_name())

    def afs_name(self):
        if isinstance(self.afs, int):
            return '/%d' % (self.afs >> 3)
        return str(self.afs)

    def __repr__(self):
        return self.key()


class RowView(object):
    """What guards of _dis read from the row object `m` of a decoded variant: its opcode bytes and afs."""

    def __init__(self, opc, afs):
        self.opc, self.afs = list(opc), afs


class Cell(object):
    """One leaf of the decode trie."""

    def __init__(self, path, name, modifs, row, opc):
        self.path, self.name, self.modifs, self.row, self.opc = path, name, modifs, row, opc

    @property
    def afs(self):
        return self.row.afs

    @property
    def rm(self):
        return self.row.rm


def int_class_objs(ctx):
    mod = ctx.mod('modint')
    out = {}
    for cname in mod.classes:
        ca = mod.class_assigns(cname)
        if 'size' in ca and isinstance(ca['size'], ast.Constant):
            o = Obj(cname)
            o.size = ca['size'].value
            o.limit = 1 << ca['size'].value
            out[cname] = o
    return out


class X86Model(object):
    def __init__(self, ctx):
        self.ctx = ctx
        self.arch = ctx.mod('ia32_arch')
        self.reg = ctx.mod('ia32_reg')
        self.afs = build_instance(self.reg, 'afs_desc', 'x86_afs')
        base = {'x86_afs': self.afs}
        base.update(int_class_objs(ctx))
        self.env, self.skipped = module_env(self.arch, base)
        for need in ('w8', 'se', 'sw', 'sd', 'wd', 'mmx', 'bkf', 'spf', 'dtf', 'cond_list', 'mask_d', 'mask_reg',
                     'mask_cond', 'noafs', 'reg', 'cond', 'rmr', 'unsanity_mnemo', 'mmx_suffixes', 'att_mnemo_table',
                     'segm_regs', 'r_cl', 'r_dx', 'r_eax', 'prefix_dic', 'float_arith', 'rep_mov_cmp'):
            if need not in self.env:
                raise AnalysisError('ia32_arch.%s is not statically evaluable' % need)
        self._addop_facts()
        self._rows()
        self._expand()
        self._validate_mirror()
        self._mmx_names()

    # -- names that depend on the built table (mnemo_mmx_hash loop at module level), recomputed statically
    def mmx_set_suffix(self, name, p):
        for key, vals in self.env['mmx_suffixes'].items():
            if key in name:
                i = name.rfind(key)          # re.match('(\\S*)' + key + '(\\S*)') is greedy on the left
                return name[:i] + vals[p] + name[i + len(key):]
        return name

    def _mmx_names(self):
        E = self.env
        h = {}
        for m in self.lookup:
            if '#' in m:
                for p in range(4):
                    n = self.mmx_set_suffix(m, p)
                    if 'INVALID' in n:
                        continue
                    h[n] = m
            if m == 'cmp#ps#':
                for p in E['mnemo_sse_cmp']:
                    h[p] = m
        E['mnemo_mmx_hash'] = h
        # re-evaluate the module-level assignments that depend on it
        ev = Evaluator(E)
        for name in ('mnemo_mmx', 'mnemo_float_optional_suffix', 'att_mnemo_table'):
            try:
                E[name] = ev.ev(self.arch.assign_value(name))
            except NotConst as e:
                raise AnalysisError('ia32_arch.%s not evaluable after table expansion: %s' % (name, e))

    # -- facts read from addop itself
    def _addop_facts(self):
        fn = self.arch.method('x86allmncs', 'addop')
        params = [a.arg for a in fn.args.args]
        if params != ['self', 'name', 'opc', 'afs', 'rm', 'modif_desc', 'prop_dict', 'sem']:
            raise AnalysisError('addop signature changed: %s' % params)
        ev = Evaluator(self.env)
        self.base_keys = None
        # the modifier keys every row starts with: the value `base_modif` is first bound to, evaluated (a dict with every key mapped to None)
        for n in ast.walk(fn):
            if isinstance(n, ast.Assign) and u(n.targets[0]) == 'base_modif' and self.base_keys is None:
                try:
                    v = ev.ev(n.value)
                except NotConst:
                    v = None
                if isinstance(v, dict) and v and all(x is None for x in v.values()):
                    self.base_keys = list(v.keys())
                else:
                    for c in ast.walk(n.value):
                        if isinstance(c, ast.ListComp) and isinstance(c.generators[0].iter, ast.List):
                            self.base_keys = ev.ev(c.generators[0].iter)
        if not self.base_keys:
            raise AnalysisError('addop: modifier key list (base_modif) not found')
        # (that the expansion below mirrors addop is checked by _validate_mirror: addop itself is interpreted on probe rows and must fill the same cells)
        # afs kind -> mask, from the if/elif chain
        self.afs_mask = {}
        for n in ast.walk(fn):
            if isinstance(n, ast.If) and isinstance(n.test, ast.Compare) and u(n.test.left) == 'afs':
                for s in n.body:
                    if isinstance(s, ast.Assign) and u(s.targets[0]) == 'mask':
                        try:
                            kinds = ev.ev(n.test.comparators[0])
                            m = ev.ev(s.value)
                        except NotConst as e:
                            raise AnalysisError('addop afs chain not evaluable: %s' % e)
                        if not isinstance(kinds, list):
                            kinds = [kinds]
                        for k in kinds:
                            self.afs_mask[k] = m
        if len(self.afs_mask) < 11:
            raise AnalysisError('addop afs->mask chain incomplete: %s' % self.afs_mask)
        self.digits = [k for k in self.afs_mask if isinstance(k, int)]

    # -- rows
    def _rows(self):
        init = self.arch.method('x86allmncs', '__init__')
        alias = None
        for st in init.body:
            if isinstance(st, ast.Assign) and u(st.value) == 'self.addop':
                alias = u(st.targets[0])
        self.rows = []
        ev = Evaluator(self.env)
        nonlit = []
        # the signature of addop: positional parameters, defaults (evaluated once, like python does: a default dictionary is one object for every call that
        # omits the argument) and the `P.update(Q)` statements of its body over two parameters (the only way it changes what it was given)
        addop = self.arch.method('x86allmncs', 'addop')
        params = [a.arg for a in addop.args.args][1:]
        if params[:4] != ['name', 'opc', 'afs', 'rm'] or len(params) != 7 or addop.args.vararg or addop.args.kwarg or addop.args.kwonlyargs:
            raise AnalysisError('x86allmncs.addop has an unexpected signature: %s' % params)
        defaults = {}
        for pn, dn in zip(params[len(params) - len(addop.args.defaults):], addop.args.defaults):
            try:
                defaults[pn] = ev.ev(dn)
            except NotConst as e:
                raise AnalysisError('default of addop parameter %s not evaluable: %s' % (pn, e))
        updates = [(st.value.func.value.id, st.value.args[0].id) for st in addop.body
                   if isinstance(st, ast.Expr) and isinstance(st.value, ast.Call) and isinstance(st.value.func, ast.Attribute) and st.value.func.attr == 'update'
                   and isinstance(st.value.func.value, ast.Name) and st.value.func.value.id in params and len(st.value.args) == 1 and isinstance(st.value.args[0], ast.Name)
                   and st.value.args[0].id in params]
        calls = [n for n in ast.walk(init) if isinstance(n, ast.Call) and (u(n.func) == 'self.addop' or (alias and u(n.func) == alias))]
        calls.sort(key=lambda n: (n.lineno, n.col_offset))      # __init__ is straight-line code: source order is execution order
        for n in calls:
            if len(n.args) > 7 or any(k.arg is None or k.arg not in params for k in n.keywords) or any(isinstance(a, ast.Starred) for a in n.args):
                raise AnalysisError('addop call with unexpected arity at line %d' % n.lineno)
            bound, fresh = {}, set()
            try:
                for pn, a in zip(params, n.args):
                    bound[pn] = ev.ev(a)
                    fresh.add(pn)
                for k in n.keywords:
                    if k.arg in bound:
                        raise AnalysisError('addop call gives %s twice at line %d' % (k.arg, n.lineno))
                    bound[k.arg] = ev.ev(k.value)
                    fresh.add(k.arg)
            except NotConst as e:
                nonlit.append((n.lineno, str(e)))
                continue
            for pn in params:
                if pn not in bound:
                    if pn not in defaults:
                        raise AnalysisError('addop call with unexpected arity at line %d' % n.lineno)
                    bound[pn] = defaults[pn]          # the shared object
            # what addop does to its arguments: a dictionary built for this call is handled by the expansion below; a default dictionary keeps
            # what it receives for every later call that omits the argument
            for dst_, src_ in updates:
                if dst_ not in fresh and isinstance(bound[dst_], dict) and isinstance(bound[src_], dict):
                    bound[dst_].update(bound[src_])
            vals = [dict(bound[pn]) if isinstance(bound[pn], dict) and pn not in fresh else bound[pn] for pn in params]
            self.rows.append((n.lineno, n, vals))
        if nonlit:
            raise AnalysisError('addop rows with non-constant arguments: %s' % nonlit[:3])
        self.rows.sort(key=lambda r: (r[0], r[1].col_offset))
        self.rows = [Row(i, n, *vals) for i, (ln, n, vals) in enumerate(self.rows)]

    # -- expansion (mirrors addop)
    def _expand(self):
        E = self.env
        se, w8 = E['se'], E['w8']
        self.cells = {}        # path tuple -> Cell
        self.internal = set()
        self.lookup = {}       # mnemonic name -> list of (opc, modifs, row)
        self.clashes = []      # (path, old cell, new row)
        self.variants = []     # every (row, opc list, modifs) variant
        for row in self.rows:
            for kind_, payload in self._row_entries(row):
                if kind_ == 'finit':
                    opc, nm = payload
                    self.lookup['finit'] = [(opc, nm, row)]
                elif kind_ == 'variant':
                    opc, nm = payload
                    self.variants.append((row, opc, nm))
                elif kind_ == 'lookup':
                    name, opc, nm = payload
                    self.lookup.setdefault(name, []).append((opc, nm, row))
                else:
                    path, name, nm, opc, check = payload
                    self._insert(path, name, nm, row, opc, check=check)

    def _row_entries(self, row):
        """What addop does with one row, as events: ('finit', (opc, modifs)) | ('variant', (opc, modifs)) | ('cell', (path, name, modifs, opc, check)) | ('lookup', (name, opc, modifs))."""
        E = self.env
        se, w8 = E['se'], E['w8']
        if True:
            prop = dict(row.prop)
            prop.update(row.sem)
            modifs = dict((k, True) for k in row.modif_desc)
            base = dict((k, None) for k in self.base_keys)
            base.update(modifs)
            base.update(prop)
            variants = [(list(row.opc), base)]
            if se in row.modif_desc:
                b, bit = row.modif_desc[se]
                variants[0][0][b] ^= 1 << bit
            for modif in modifs:
                add = []
                for opc, nm in variants:
                    nm2 = dict(nm)
                    nm2[modif] = not nm2[modif]
                    opc2 = opc[:]
                    b, bit = row.modif_desc[modif]
                    opc2[b] ^= 1 << bit
                    add.append((opc2, nm2))
                variants += add
            for opc, nm in variants:
                if nm.get(se) and nm.get(w8):
                    continue
                if row.afs not in self.afs_mask:
                    raise AnalysisError('row %r has an afs kind unknown to addop' % row)
                mask = self.afs_mask[row.afs]
                if isinstance(row.afs, int):
                    opc = opc + [row.afs]
                if row.name == 'finit':
                    yield 'finit', (opc, nm)
                    break
                yield 'variant', (opc, nm)
                prefix = tuple(opc[:-1])
                keys = [i for i in range(0x100) if (i & mask) == opc[-1]]
                if row.afs == E['cond']:
                    for k in keys:
                        i_k = k & (E['mask_cond'] ^ 0xFF)
                        opc_t = opc[:]
                        opc_t[-1] |= i_k
                        for suf in E['cond_list'][i_k]:
                            nm_name = row.name + suf
                            yield 'cell', (prefix + (k,), nm_name, nm, opc_t, False)
                            yield 'lookup', (nm_name, opc_t, nm)
                else:
                    for k in keys:
                        yield 'cell', (prefix + (k,), row.name, nm, opc, True)
                    yield 'lookup', (row.name, opc, nm)

    def _insert(self, path, name, modifs, row, opc, check):
        # a leaf below an existing leaf / a leaf over a subtable
        old = self.cells.get(path)
        if check and old is not None and name not in self.env['unsanity_mnemo']:
            self.clashes.append((path, old, row))
        for plen in range(1, len(path)):
            if path[:plen] in self.cells:
                self.clashes.append((path, self.cells[path[:plen]], row))
        if path in self.internal:
            sub = [p for p in self.cells if len(p) > len(path) and p[:len(path)] == path]
            if sub and name not in self.env['unsanity_mnemo']:
                self.clashes.append((path, self.cells[sub[0]], row))
            for p in sub:
                del self.cells[p]
        for plen in range(1, len(path)):
            self.internal.add(path[:plen])
        self.cells[path] = Cell(path, name, modifs, row, opc)

    def addop_cells(self, row):
        """x86allmncs.addop interpreted from its source on one row with an empty table: {path: (name, {modifier: value}, opcode bytes)}."""
        from .consteval import class_obj, Native, PyRaise
        import copy as _copy
        log = Obj('log')
        for k_ in ('debug', 'error', 'info', 'warning', 'warn'):
            setattr(log, k_, Native(lambda *a: None))

        def mk_mnemonic(name, opc, afs, rm, modifs, modifs_orig, sem):
            o = Obj('mnemonic')
            o.name, o.opc, o.afs, o.rm, o.modifs, o.modifs_orig, o.sem = name, list(opc), afs, rm, dict(modifs), modifs_orig, sem
            return o
        scope = dict(self.env)
        for fname_, fnode_ in self.arch.funcs.items():
            scope.setdefault(fname_, fnode_)
        scope.update({'log': log, 'mnemonic': Native(mk_mnemonic), 'x86_afs': self.afs})
        me = class_obj(self.arch, 'x86allmncs', 'self')
        me.db_mnemo = [None for _ in range(0x100)]
        me.mnemo_lookup = {}
        addop = self.arch.method('x86allmncs', 'addop')
        try:
            Evaluator(scope).call_user(addop, [me, row.name, list(row.opc), row.afs, list(row.rm), _copy.deepcopy(row.modif_desc), dict(row.prop), dict(row.sem)])
        except PyRaise as e:
            raise AnalysisError('addop, interpreted on the row %s alone, raises %s' % (row.key(), e.exc_name))
        except NotConst as e:
            raise AnalysisError('x86allmncs.addop is outside the statically evaluable subset (row %s): %s' % (row.key(), e))
        got = {}

        def walk(tab, path):
            for i, x in enumerate(tab):
                if x is None:
                    continue
                if isinstance(x, list):
                    walk(x, path + (i,))
                else:
                    got[path + (i,)] = (x.name, dict(x.modifs), tuple(x.opc))
        walk(me.db_mnemo, ())
        return got

    # -- the mirror above against addop itself
    def _validate_mirror(self):
        """x86allmncs.addop is interpreted from its source on probe rows (one per combination of afs kind, modifier set and opcode length that the table uses) with an empty table;
        the cells it fills (path -> name, modifiers, opcode bytes) and the names it registers must be those the mirror computes for that row alone."""
        from .consteval import class_obj, Native, PyRaise
        import copy as _copy
        E = self.env
        addop = self.arch.method('x86allmncs', 'addop')
        log = Obj('log')
        for k_ in ('debug', 'error', 'info', 'warning', 'warn'):
            setattr(log, k_, Native(lambda *a: None))

        def mk_mnemonic(name, opc, afs, rm, modifs, modifs_orig, sem):
            o = Obj('mnemonic')
            o.name, o.opc, o.afs, o.rm, o.modifs, o.modifs_orig, o.sem = name, list(opc), afs, rm, dict(modifs), modifs_orig, sem
            return o
        scope = dict(self.env)
        for fname_, fnode_ in self.arch.funcs.items():
            scope.setdefault(fname_, fnode_)
        scope.update({'log': log, 'mnemonic': Native(mk_mnemonic), 'x86_afs': self.afs})
        probes, seen = [], set()
        for row in self.rows:
            kind = 'digit' if isinstance(row.afs, int) else row.afs
            k = (kind, tuple(sorted(str(x) for x in row.modif_desc)), len(row.opc), row.name == 'finit', tuple(sorted(str(x) for x in row.prop)), tuple(sorted(str(x) for x in row.sem)))
            if k not in seen:
                seen.add(k)
                probes.append(row)
        n_cells = 0
        for row in probes:
            me = class_obj(self.arch, 'x86allmncs', 'self')
            me.db_mnemo = [None for _ in range(0x100)]
            me.mnemo_lookup = {}
            try:
                Evaluator(scope).call_user(addop, [me, row.name, list(row.opc), row.afs, list(row.rm), _copy.deepcopy(row.modif_desc), dict(row.prop), dict(row.sem)])
            except PyRaise as e:
                raise AnalysisError('addop, interpreted on the row %s alone, raises %s' % (row.key(), e.exc_name))
            except NotConst as e:
                raise AnalysisError('x86allmncs.addop is outside the statically evaluable subset (row %s): %s' % (row.key(), e))
            got = {}

            def walk(tab, path):
                for i, x in enumerate(tab):
                    if x is None:
                        continue
                    if isinstance(x, list):
                        walk(x, path + (i,))
                    else:
                        got[path + (i,)] = (x.name, tuple(sorted((str(a), str(b)) for a, b in x.modifs.items() if b is not None)), tuple(x.opc))
            walk(me.db_mnemo, ())
            want, names = {}, set()
            for kind_, payload in self._row_entries(row):
                if kind_ == 'finit':
                    names.add('finit')
                elif kind_ == 'cell':
                    path, name, nm, opc, check = payload
                    want[path] = (name, tuple(sorted((str(a), str(b)) for a, b in nm.items() if b is not None)), tuple(opc))
                    names.add(name)
            flow_names = set(str(E[k_]) for k_ in ('bkf', 'spf', 'dtf') if k_ in E)

            def noflow(d_):
                return dict((p_, (v_[0], tuple(x_ for x_ in v_[1] if x_[0] not in flow_names), v_[2])) for p_, v_ in d_.items())
            if got != want and noflow(got) == noflow(want) and set(me.mnemo_lookup.keys()) == names:
                # addop and the model differ only in the control-flow attributes of some cell: not a reason to stop - C17.D9 interprets addop itself on every row that declares
                # such an attribute and reports the cell
                self.__dict__.setdefault('mirror_flow_mismatch', []).append(row.key())
                n_cells += len(got)
                continue
            if got != want or set(me.mnemo_lookup.keys()) != names:
                diff = sorted(set(got.items()) ^ set(want.items()))[:2]
                raise AnalysisError('the table model no longer mirrors x86allmncs.addop: for the row %s alone addop fills %d cells and registers %s, the model computes %d cells and %s; e.g. %s '
                                    '(addop was changed in a way the row expansion of sa/x86table.py does not follow: re-read addop and extend the model)'
                                    % (row.key(), len(got), sorted(me.mnemo_lookup.keys())[:4], len(want), sorted(names)[:4], diff))
            n_cells += len(got)
        self.mirror_validated = (len(probes), n_cells)

    # -- ModRM / SIB tables built by init_pre_modrm, evaluated statically
    def modrm_tables(self):
        if getattr(self, '_modrm', None) is None:
            o = Obj('x86mndb')
            o.__dict__['_methods'] = dict((k, self.arch.method('x86allmncs', k)) for k in ('modrm', 'sib', 'modrm_key'))
            ev = Evaluator({'x86_afs': self.afs})
            try:
                ev.call_user(self.arch.method('x86allmncs', 'init_pre_modrm'), [o])
            except NotConst as e:
                raise AnalysisError('x86allmncs.init_pre_modrm is outside the statically evaluable subset: %s' % e)
            self._modrm = o.__dict__['_attrs']
            for need in ('db_afs', 'db_afs_16', 'db_afs_mm', 'db_afs_xmm', 'fd_afs', 'sib_rez_u32', 'sib_rez_u08_ebp', 'sib_rez_u32_ebp'):
                if need not in self._modrm:
                    raise AnalysisError('init_pre_modrm no longer builds self.%s' % need)
        return self._modrm

    # -- MMX/SSE operand modes chosen inside x86_mn._dis, derived from its source
    def _dis_mmx_nodes(self):
        if getattr(self, '_mmxnodes', None) is None:
            from .srcmodel import walk_no_nested
            dis = self.arch.method('x86_mn', '_dis')
            chain = digit_chain = memsize = None
            for n in walk_no_nested(dis):
                if isinstance(n, ast.If) and u(n.test) == 'm.modifs[mmx]':
                    if any(isinstance(x, ast.Assign) and u(x.targets[0]) == 'reg_cat' for st in n.body for x in ast.walk(st)):
                        chain = n
                    elif all(isinstance(x, ast.If) for x in n.body) and 'self.admode' in u(n) and 'reg_cat' not in u(n) and 'modr[' not in u(n) \
                            and 'mafs[' not in u(n) and digit_chain is None:
                        digit_chain = n
                if isinstance(n, ast.If) and u(n.test) == 'modr[x86_afs.ad]' and "m.name == 'mov#d#'" in u(n):
                    memsize = n
            if chain is None or digit_chain is None or memsize is None:
                raise AnalysisError('_dis: the MMX/SSE register-file selection / memory-size table was not found')
            self._mmxnodes = (chain, digit_chain, memsize)
        return self._mmxnodes

    def _mmx_scope(self, name, prefix, admode=None, row=None):
        from .consteval import Native
        afs = self.afs
        me = Obj('self')
        # mode at the entry of the selection: the 0x66 prefix has already toggled the operand size
        me.opmode, me.admode = (afs.u16 if 0x66 in prefix else afs.u32), (admode or afs.u32)
        m_ = Obj('m')
        m_.name = name
        m_.modifs = {self.env['mmx']: True}
        # the row the form comes from (opcode bytes / digit): guards keyed by opcode need it; without a row no opcode-keyed guard matches
        # (the real row object of a /digit row carries the shifted digit as last element of opc)
        m_.opc = (list(row.opc) + ([row.afs] if isinstance(row.afs, int) and (not row.opc or row.opc[-1] != row.afs or len(row.opc) < 3) else [])) if row is not None else []
        m_.afs = row.afs if row is not None else self.env.get('noafs')
        lg = Obj('log')
        lg.debug = Native(lambda *a: None)
        scope = dict((k, v) for k, v in self.env.items() if isinstance(v, (str, int, bool, list, tuple, dict)) or v is None)
        scope.update({'self': me, 'm': m_, 'read_prefix': list(prefix), 'mm': afs.mm, 'xmm': afs.xmm, 'u32': afs.u32, 'u16': afs.u16, 'x86_afs': afs, 'log': lg, 'reg_cat': 0,
                 'mmx_prefixes': self.env.get('mmx_prefixes')})
        for fname_, fnode_ in self.arch.funcs.items():
            scope.setdefault(fname_, fnode_)
        # local names that _dis derives from the prefix list before the selection (e.g. the filtered mandatory prefixes)
        from .srcmodel import walk_no_nested
        if getattr(self, '_prefix_locals', None) is None:
            dis = self.arch.method('x86_mn', '_dis')
            self._prefix_locals = [n for n in walk_no_nested(dis) if isinstance(n, ast.Assign) and len(n.targets) == 1 and isinstance(n.targets[0], ast.Name)
                                   and n.targets[0].id != 'read_prefix' and any(isinstance(x, ast.Name) and x.id == 'read_prefix' for x in ast.walk(n.value))
                                   and isinstance(n.value, (ast.ListComp, ast.Name))]
        ev = Evaluator(scope)
        for a in self._prefix_locals:
            try:
                scope[a.targets[0].id] = ev.ev(a.value, dict(scope))
            except NotConst:
                pass
        return me, scope

    def dis_mmx_modes(self, name, prefix, swap, digit=False, row=None):
        """(opmode, admode, swap_args) that _dis selects for an MMX/SSE row, 'rejected' when it returns None,
        'never' when it reaches a NEVER/raise site."""
        from .consteval import _Return
        chain, digit_chain, _ = self._dis_mmx_nodes()
        early = self.dis_mmx_rejected_early(name, prefix, row=row)
        if early == 'raises':
            return 'raises'
        if early:
            return 'rejected'
        me, scope = self._mmx_scope(name, prefix, row=row)
        scope['swap_args'] = swap
        ev = Evaluator({})
        ev.env = scope
        try:
            ev.exec_stmts((digit_chain if digit else chain).body, scope)
        except _Return:
            return 'rejected'
        except NotConst as e:
            if 'NEVER' in str(e) or 'statement Raise' in str(e) or str(e).startswith('raise '):
                return 'never'
            raise AnalysisError('_dis MMX/SSE mode selection for %s is outside the evaluable subset: %s' % (name, e))
        return me.opmode, me.admode, scope['swap_args']

    def dis_mmx_rejected_early(self, name, prefix, admode=None, row=None):
        """Does _dis return None for this MMX/SSE row and prefix list before looking at operands
        (top-level `if m.modifs[mmx]: ... return None` guards, e.g. the INVALID entries of mmx_suffixes)?"""
        from .srcmodel import walk_no_nested, parent
        from .consteval import _Return, Native
        if getattr(self, '_mmx_early', None) is None:
            dis = self.arch.method('x86_mn', '_dis')
            chain, digit_chain, memsize = self._dis_mmx_nodes()
            inner = set(id(x) for n in (chain, digit_chain, memsize) for x in ast.walk(n))
            self._mmx_early = [n for n in walk_no_nested(dis) if isinstance(n, ast.If) and u(n.test) == 'm.modifs[mmx]' and id(n) not in inner
                               and any(isinstance(x, ast.Return) for x in ast.walk(n)) and not any(isinstance(x, ast.Call) and 'get_afs' in u(x.func) for x in ast.walk(n))]
        if not self._mmx_early:
            return False
        me, scope = self._mmx_scope(name, prefix, admode, row=row)
        scope['mmx_set_suffix'] = Native(self.mmx_set_suffix)
        ev = Evaluator({})
        ev.env = scope
        try:
            ev.exec_stmts(self._mmx_early, scope)
        except _Return:
            return True
        except NotConst as e:
            if 'failed' in str(e):
                return 'raises'        # the guard itself raises (e.g. list.index of a non-mandatory prefix)
            raise AnalysisError('_dis: early MMX/SSE rejection guard is outside the evaluable subset: %s' % e)
        return False

    def dis_mmx_memsize(self, name, prefix, size):
        """size of a memory r/m operand after the per-mnemonic adjustment table of _dis ('never' at a NEVER site)"""
        _, _, memsize = self._dis_mmx_nodes()
        me, scope = self._mmx_scope(name, prefix)
        modr = {self.afs.ad: True, self.afs.size: size}
        scope['modr'] = modr
        ev = Evaluator({})
        ev.env = scope
        from .consteval import _Return
        try:
            ev.exec_stmts(memsize.body, scope)
        except _Return:
            return 'never'            # _dis returns None: no instruction
        except NotConst as e:
            if 'NEVER' in str(e):
                return 'never'
            raise AnalysisError('_dis MMX/SSE memory-size table for %s is outside the evaluable subset: %s' % (name, e))
        return modr[self.afs.size]

    def dis_rmr_pre(self, modifs, c):
        """ModRM byte as the reg,r/m branch of _dis hands it to get_afs (statements between `c = ord(bin.readbs())`
        and the get_afs call, evaluated), or 'rejected' when they return None."""
        from .srcmodel import walk_no_nested, parent
        from .consteval import _Return
        if getattr(self, '_rmr_pre', None) is None:
            dis = self.arch.method('x86_mn', '_dis')
            chain = self._dis_mmx_nodes()[0]
            blk = parent(chain).body
            i0 = None
            for i, st in enumerate(blk):
                if isinstance(st, ast.Assign) and u(st.targets[0]) == 'c' and 'bin.readbs' in u(st.value) and i > blk.index(chain):
                    i0 = i
            if i0 is None:
                raise AnalysisError('_dis: ModRM byte read of the reg,r/m branch not found')
            pre = []
            for st in blk[i0 + 1:]:
                if isinstance(st, ast.Assign) and 'get_afs' in u(st.value):
                    break
                pre.append(st)
            else:
                raise AnalysisError('_dis: get_afs call of the reg,r/m branch not found')
            self._rmr_pre = pre
        m_ = Obj('m')
        m_.modifs = dict(modifs)
        scope = dict((k, v) for k, v in self.env.items() if isinstance(v, (str, int, bool, list, tuple, dict)) or v is None)
        scope.update({'m': m_, 'c': c, 'x86_afs': self.afs})
        ev = Evaluator({})
        ev.env = scope
        try:
            ev.exec_stmts(self._rmr_pre, scope)
        except _Return:
            return 'rejected'
        except NotConst as e:
            raise AnalysisError('_dis: ModRM pre-processing is outside the evaluable subset: %s' % e)
        return scope['c']

    def dis_rmr_reg_rejected(self, modifs, name):
        """Does the reg,r/m branch of _dis return None when r/m is a register (guards right after the get_afs call)?"""
        from .srcmodel import parent
        self.dis_rmr_pre(modifs, 0xC0)          # locates the statements
        if getattr(self, '_rmr_post', None) is None:
            chain = self._dis_mmx_nodes()[0]
            blk = parent(chain).body
            post = []
            seen = False
            for st in blk:
                if isinstance(st, ast.Assign) and 'get_afs(' in u(st.value) and 'get_afs_re' not in u(st.value):
                    seen = True
                    continue
                if seen:
                    if isinstance(st, ast.If) and st.body and isinstance(st.body[-1], ast.Return):
                        post.append(st)
                    else:
                        break
            self._rmr_post = post
        m_ = Obj('m')
        m_.modifs = dict(modifs)
        m_.name = name
        scope = dict((k, v) for k, v in self.env.items() if isinstance(v, (str, int, bool, list, tuple, dict)) or v is None)
        scope.update({'m': m_, 'modr': {self.afs.ad: False}, 'x86_afs': self.afs})
        ev = Evaluator(scope)
        for g in self._rmr_post:
            try:
                if ev.ev(g.test):
                    return True
            except NotConst as e:
                raise AnalysisError('_dis: rejection guard `%s` is outside the evaluable subset: %s' % (u(g.test)[:60], e))
        return False

    def is_digit_test(self, test):
        """Is `test` the selection of the /digit rows: true for afs = d0..d7, false for the other addressing kinds?  Decided by evaluating it (the
        spelling `afs in [d0, .., d7]`, `afs in digit_afs`, `type(afs) is int` ... does not matter)."""
        names = set(x.id for x in ast.walk(test) if isinstance(x, ast.Name))
        if 'afs' not in names:
            return False
        E = self.env
        digits = [E[k] for k in ('d0', 'd1', 'd2', 'd3', 'd4', 'd5', 'd6', 'd7') if k in E]
        others = [E[k] for k in ('noafs', 'reg', 'cond') if k in E]
        if len(digits) != 8 or not others:
            return False
        scope = dict((k, v) for k, v in E.items() if isinstance(v, (str, int, bool, list, tuple, dict)) or v is None)
        try:
            return all(bool(Evaluator(dict(scope, afs=d)).ev(test)) for d in digits) and not any(bool(Evaluator(dict(scope, afs=o)).ev(test)) for o in others)
        except NotConst:
            return False

    def digit_branch(self, fn):
        from .srcmodel import walk_no_nested
        found = [n for n in walk_no_nested(fn) if isinstance(n, ast.If) and self.is_digit_test(n.test)]
        return found[-1] if found else None

    def dis_digit_reg_rejected(self, modifs, dibs, name='', opc=(0,)):
        """Does the /digit branch of _dis return None for a register (mod == 3) r/m operand of this row variant?
        The guards `if <cond>: return None` of that branch are evaluated with modr = {ad: False}."""
        from .srcmodel import walk_no_nested
        if getattr(self, '_digit_guards', None) is None:
            dis = self.arch.method('x86_mn', '_dis')
            branch = self.digit_branch(dis)
            if branch is None:
                raise AnalysisError('_dis: the /digit branch was not found')
            self._digit_guards = [st for st in branch.body if isinstance(st, ast.If) and len(st.body) >= 1 and isinstance(st.body[-1], ast.Return)
                                  and (st.body[-1].value is None or u(st.body[-1].value) == 'None')]
        afs = self.afs
        m_ = Obj('m')
        m_.modifs = dict(modifs)
        m_.rm = list(dibs)
        m_.name = name
        m_.opc = list(opc)
        scope = dict(self.env)
        scope.update({'m': m_, 'dibs': list(dibs), 'modr': {afs.ad: False}, 'x86_afs': afs})
        ev = Evaluator(scope)
        for g in self._digit_guards:
            try:
                if ev.ev(g.test):
                    return True
            except NotConst as e:
                raise AnalysisError('_dis: /digit rejection guard `%s` is outside the evaluable subset: %s' % (u(g.test)[:60], e))
        return False

    def _size_nodes(self):
        from .srcmodel import walk_no_nested, parent
        if getattr(self, '_size_stmts', None) is None:
            dis = self.arch.method('x86_mn', '_dis')
            digit = self.digit_branch(dis)
            if digit is None:
                raise AnalysisError('_dis: the /digit branch was not found')
            dst = None
            for i, st in enumerate(digit.body):
                if isinstance(st, ast.Expr) and u(st.value) == 'mnemo_args.append(modr)':
                    dst = digit.body[i + 1:]
            if dst is None:
                raise AnalysisError('_dis: /digit branch no longer appends modr as the operand')
            chain = self._dis_mmx_nodes()[0]
            blk = parent(chain).body
            i0 = i1 = None
            for i, st in enumerate(blk):
                if isinstance(st, ast.Assign) and u(st.targets[0]) == 'mafs' and 'get_afs_re' in u(st.value):
                    i0 = i
                if isinstance(st, ast.Expr) and u(st.value) == 'mnemo_args.append(mafs)':
                    i1 = i
            if i0 is None or i1 is None or i1 < i0:
                raise AnalysisError('_dis: operand construction of the reg,r/m branch was not found')
            self._size_stmts = (dst, blk[i0 + 1:i1])
        return self._size_stmts

    def dis_operand_sizes(self, name, modifs, dibs, opc, afs_, is_mem, opmode=None, admode=None, sse_prefix=()):
        """(size of the ModRM reg operand or None for /digit rows, size of the r/m operand) as the size statements of _dis compute
        them for a row variant (the statements after the operand dicts are built, evaluated with modr[ad] = is_mem; opmode/admode are
        the modes at that point, i.e. after the MMX/SSE register-file selection).  'rejected' when _dis returns None, 'never' at a NEVER site."""
        from .consteval import _Return, Native, class_obj
        afs = self.afs
        dst, rst = self._size_nodes()
        me = class_obj(self.arch, 'x86_mn', 'self')         # helper methods the size statements call are followed
        me.opmode, me.admode = (opmode or afs.u32), (admode or afs.u32)
        m_ = Obj('m')
        m_.modifs = dict(modifs)
        m_.name, m_.rm, m_.opc, m_.afs = name, list(dibs), list(opc), afs_
        lg = Obj('log')
        lg.debug = Native(lambda *a: None)
        lg.info = Native(lambda *a: None)
        modr = {afs.ad: bool(is_mem), afs.size: None}
        if not is_mem:
            modr[0] = 1
        mafs = {afs.ad: False, 0: 1, afs.size: None}
        scope = dict((k, v) for k, v in self.env.items() if isinstance(v, (str, int, bool, list, tuple, dict)) or v is None)
        scope.update({'self': me, 'm': m_, 'modr': modr, 'mafs': mafs, 'mnemo_args': [modr], 'dibs': list(dibs), 'x86_afs': afs, 'log': lg,
                      'sse_prefix': list(sse_prefix), 'read_prefix': list(sse_prefix), 'swap_args': bool(modifs.get(self.env['sw'])), 'afs': afs_})
        for fname_, fnode_ in self.arch.funcs.items():
            scope.setdefault(fname_, fnode_)
        ev = Evaluator({})
        ev.env = scope
        digit = isinstance(afs_, int)
        try:
            ev.exec_stmts(dst if digit else rst, scope)
        except _Return:
            return 'rejected'
        except NotConst as e:
            if 'NEVER' in str(e):
                return 'never'
            raise AnalysisError('_dis: operand-size statements for %s %s are outside the evaluable subset: %s' % (name, list(opc), e))
        return (None if digit else mafs[afs.size]), modr[afs.size]

    def get_afs_eval(self, tok, mode_name, sib=False):
        """x86allmncs.get_afs evaluated from its source on a ModRM table whose entry holds a displacement of kind `tok` (a token of x86_afs):
        ('ok', bytes consumed after the ModRM/SIB byte, value) | ('raises', exception name)."""
        import struct as _struct
        from .consteval import Native, PyRaise, class_obj
        from . import simpeval as SE
        afs, arch = self.afs, self.arch
        ga = arch.method('x86allmncs', 'get_afs')
        data = (b'\x24' if sib else b'') + b'\xF0\xDE\xBC\x9A\x78'
        pos = [0]

        def readbs(k=1):
            r = data[pos[0]:pos[0] + k]
            pos[0] += k
            return r
        b_ = Obj('bin')
        b_.readbs = Native(readbs)
        entry = {afs.imm: tok, 0: 1, afs.ad: True}
        table = [([dict(entry) for _ in range(256)] if sib else dict(entry)) for _ in range(256)]
        me = class_obj(arch, 'x86allmncs', 'self')
        me.db_afs = me.db_afs_16 = me.db_afs_mm = me.db_afs_xmm = table
        st = Obj('struct')
        st.unpack = Native(_struct.unpack)
        scope = dict((k, v) for k, v in self.env.items() if isinstance(v, (str, int, bool, list, tuple, dict)) or v is None)
        scope.update(SE.INT_CLASSES)
        scope.update({'x86_afs': afs, 'struct': st})
        try:
            out = Evaluator(scope).call_user(ga, [me, b_, 0x04 if sib else 0x05, getattr(afs, mode_name)])
        except PyRaise as e:
            return ('raises', e.exc_name)
        except NotConst as e:
            raise AnalysisError('x86allmncs.get_afs is outside the evaluable subset: %s' % e)
        a_ = out[1] if isinstance(out, tuple) and len(out) == 2 else None
        val = a_.get(afs.imm) if isinstance(a_, dict) else None
        return ('ok', pos[0] - (1 if sib else 0), val)

    def get_afs_on_tables(self, mode_name):
        """get_afs evaluated from its source on the ModRM tables init_pre_modrm builds (evaluated statically), for every ModRM byte under one addressing mode and two
        SIB bytes: yields (m, sib byte or None, bytes consumed, returned operand dict or 'raises:<Exc>', table entry)."""
        import struct as _struct
        from .consteval import Native, PyRaise, class_obj
        from . import simpeval as SE
        afs, arch = self.afs, self.arch
        T = self.modrm_tables()
        tname = {'u32': 'db_afs', 'u16': 'db_afs_16', 'mm': 'db_afs_mm', 'xmm': 'db_afs_xmm'}[mode_name]
        table = T[tname]
        ga = arch.method('x86allmncs', 'get_afs')
        st = Obj('struct')
        st.unpack = Native(_struct.unpack)
        scope = dict((k, v) for k, v in self.env.items() if isinstance(v, (str, int, bool, list, tuple, dict)) or v is None)
        scope.update(SE.INT_CLASSES)
        scope.update({'x86_afs': afs, 'struct': st})
        me = class_obj(arch, 'x86allmncs', 'self')
        for k_ in ('db_afs', 'db_afs_16', 'db_afs_mm', 'db_afs_xmm'):
            setattr(me, k_, T[k_])
        for m in range(256):
            entry = table[m]
            for sib in ((0x24, 0xA5) if isinstance(entry, list) else (None,)):
                data = bytes([0x24 if sib is None else sib, 0xF0, 0xDE, 0xBC, 0x9A, 0x78])
                if sib is None:
                    data = data[1:]
                pos = [0]

                def readbs(k=1, _d=data, _p=pos):
                    if _p[0] + k > len(_d):
                        raise PyRaise('read past the test buffer', 'IOError')
                    r = _d[_p[0]:_p[0] + k]
                    _p[0] += k
                    return r
                b_ = Obj('bin')
                b_.readbs = Native(readbs)
                try:
                    out = Evaluator(scope).call_user(ga, [me, b_, m, getattr(afs, mode_name)])
                    got = out[1] if isinstance(out, tuple) and len(out) == 2 else out
                except PyRaise as e:
                    got = 'raises:%s' % e.exc_name
                except NotConst as e:
                    raise AnalysisError('x86allmncs.get_afs is outside the evaluable subset (ModRM %02X, %s): %s' % (m, mode_name, e))
                except (KeyError, TypeError, IndexError) as e:
                    got = 'raises:%s' % type(e).__name__
                yield m, sib, pos[0], got, (entry[sib] if sib is not None else entry)

    def im_fmt_table(self):
        """get_im_fmt evaluated from its source on se x w8 x mode x {imm, ims}: {(se, w8, mode, kind): (size, fmt, type) | 'raises:<Exc>'}."""
        if getattr(self, '_im_fmt', None) is None:
            import struct as _struct
            from .consteval import Native, PyRaise, class_obj
            fn = self.arch.method('x86allmncs', 'get_im_fmt')
            E, afs = self.env, self.afs
            st = Obj('struct')
            st.calcsize = Native(_struct.calcsize)
            out = {}
            for se_ in (False, True):
                for w8_ in (False, True):
                    for mode in (afs.u16, afs.u32):
                        for kind in ('imm', 'ims'):
                            modifs = dict((E[k], None) for k in ('w8', 'se', 'sw', 'sd', 'wd', 'mmx') if k in E)
                            modifs[E['se']], modifs[E['w8']] = se_, w8_
                            scope = dict((k, v) for k, v in E.items() if isinstance(v, (str, int, bool, list, tuple, dict)) or v is None)
                            scope.update({'x86_afs': afs, 'struct': st})
                            for fname_, fnode_ in self.arch.funcs.items():
                                scope.setdefault(fname_, fnode_)
                            try:
                                r = Evaluator(scope).call_user(fn, [class_obj(self.arch, 'x86allmncs'), modifs, mode, E[kind]])
                                out[(se_, w8_, mode, kind)] = tuple(r)
                            except PyRaise as e:
                                out[(se_, w8_, mode, kind)] = 'raises:%s' % e.exc_name
                            except NotConst as e:
                                raise AnalysisError('x86allmncs.get_im_fmt is outside the evaluable subset: %s' % e)
            self._im_fmt = out
            # the same questions asked of ONE instance, in two orders: an answer that depends on what was asked before is hidden state
            hist = []
            keys = sorted(out, key=str)
            for order in (keys, list(reversed(keys))):
                shared = class_obj(self.arch, 'x86allmncs')
                for (se_, w8_, mode, kind) in order:
                    modifs = dict((E[k], None) for k in ('w8', 'se', 'sw', 'sd', 'wd', 'mmx') if k in E)
                    modifs[E['se']], modifs[E['w8']] = se_, w8_
                    scope = dict((k, v) for k, v in E.items() if isinstance(v, (str, int, bool, list, tuple, dict)) or v is None)
                    scope.update({'x86_afs': afs, 'struct': st})
                    for fname_, fnode_ in self.arch.funcs.items():
                        scope.setdefault(fname_, fnode_)
                    try:
                        r = tuple(Evaluator(scope).call_user(fn, [shared, modifs, mode, E[kind]]))
                    except PyRaise as e:
                        r = 'raises:%s' % e.exc_name
                    except NotConst as e:
                        raise AnalysisError('x86allmncs.get_im_fmt is outside the evaluable subset: %s' % e)
                    if r != out[(se_, w8_, mode, kind)]:
                        hist.append(((se_, w8_, mode, kind), out[(se_, w8_, mode, kind)], r))
            self._im_fmt_history = hist
        return self._im_fmt

    def dis_rm_size(self, c, is_mem, opmode=None):
        """Size _dis gives the ModRM r/m operand of a non-MMX row variant (cell `c`); 'rejected' when the branch returns None for that form."""
        r = self.dis_operand_sizes(c.name, c.modifs, c.row.rm, c.opc, c.row.afs, is_mem, opmode)
        return r if isinstance(r, str) else r[1]

    # -- vocabulary
    def decoder_names(self):
        """Mnemonic names the decoder can put in an instruction (cells + special_opcodes renames)."""
        return set(c.name for c in self.cells.values())

    def units(self):
        """Group cells back into architectural units: (opcode bytes, ext) -> cell, where ext is
        '/d' (digit), '+r', '+cc' or '' ."""
        out = {}
        for path, c in self.cells.items():
            row = c.row
            if isinstance(row.afs, int):
                key = (tuple(c.opc[:-1]), '/%d' % (c.opc[-1] >> 3))
            elif row.afs == self.env['reg']:
                key = (tuple(c.opc[:-1]) + (c.opc[-1] & 0xF8,), '+r')
            elif row.afs == self.env['cond']:
                key = (tuple(c.opc[:-1]) + (path[-1] & 0xF0,), '+cc%X' % (path[-1] & 0xF))
            else:
                key = (tuple(c.opc), '')
            out.setdefault(key, []).append(c)
        return out


_CACHE = {}


def model(ctx):
    k = id(ctx)
    if k not in _CACHE:
        _CACHE[k] = X86Model(ctx)
    return _CACHE[k]
