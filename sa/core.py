"""Core of the static checker: rule/finding bookkeeping, fail-closed exit codes,
evidence writer, known-findings matcher.

Exit codes: 0 = every rule instance OK or KNOWN; 1 = at least one VIOLATION not
listed in known_findings.json; 2 = ANALYSIS-ERROR (anchor missing, construct
outside the modelled subset, floor not reached, internal error).
"""
import ast
import hashlib
import json
import os
import sys
import time
import traceback

VERIF = os.path.dirname(os.path.dirname(os.path.abspath(__file__)))
DEFAULT_ROOT = '/repo'


class AnalysisError(Exception):
    """The analysis cannot decide (anchor vanished, unmodelled construct)."""


def norm(node_or_text):
    """Normalised text of an AST node (line-number free finding key part)."""
    if isinstance(node_or_text, ast.AST):
        return ast.unparse(node_or_text)
    return ' '.join(str(node_or_text).split())


class Finding(object):
    def __init__(self, prop, rule, key, what, where='', witness=None):
        self.prop, self.rule, self.key = prop, rule, key
        self.what, self.where, self.witness = what, where, witness
        self.known = None

    def ident(self):
        return (self.prop, self.rule, self.key)

    def as_dict(self):
        d = {'property': self.prop, 'rule': self.rule, 'key': self.key,
             'what': self.what, 'where': self.where}
        if self.witness:
            d['witness'] = self.witness
        return d


class Rule(object):
    """One rule of one property.  Counts instances (anti-vacuity) and collects
    findings.  `floor` = minimum number of instances that must be examined."""

    def __init__(self, report, rid, desc, floor=1):
        self.report, self.id, self.desc, self.floor = report, rid, desc, floor
        self.instances = 0
        self.nontrivial = set()
        self.findings = []
        self.samples = []
        self.notes = []
        self.analysed = []

    def ok(self, inst, sample=None, nontrivial=True):
        """Record one examined rule instance that satisfied the rule."""
        self.instances += 1
        if nontrivial:
            self.nontrivial.add(str(inst))
        if sample is not None and len(self.samples) < 6:
            self.samples.append(sample)
        elif sample is None and len(self.samples) < 3:
            self.samples.append(str(inst))

    def violation(self, inst, key, what, where='', witness=None, count=True):
        """Record an instance that breaks the rule.  `key` identifies the
        construct (no line numbers)."""
        if count:
            self.instances += 1
            self.nontrivial.add(str(inst))
        f = Finding(self.report.prop, self.id, key, what, where, witness)
        for g in self.findings:
            if g.ident() == f.ident():
                return g
        self.findings.append(f)
        return f

    def note(self, msg):
        if msg not in self.notes:
            self.notes.append(msg)


class Report(object):
    def __init__(self, prop, tier, root):
        self.prop, self.tier, self.root = prop, tier, root
        self.rules = []
        self.explanation = ''
        self.not_decided = ''
        self.assumptions = []
        self.analysed = {}
        self.level = 'other'
        self.trusted_base = []
        self.selftest = None

    def rule(self, rid, desc, floor=1):
        r = Rule(self, rid, desc, floor)
        self.rules.append(r)
        return r


def where(mod, node):
    return '%s:%s' % (mod.relpath, getattr(node, 'lineno', '?'))


def load_known():
    p = os.path.join(VERIF, 'known_findings.json')
    if not os.path.exists(p):
        return []
    with open(p) as f:
        return json.load(f)['findings']


def finish(report, t0, seed=0, write_evidence=True, quiet=False):
    """Match findings against known_findings.json, print the verdict lines,
    write evidence, return the exit code."""
    out = []
    known = [k for k in load_known() if k['property'] == report.prop]
    kn_index = {}
    for k in known:
        if k.get('status', 'known') == 'known':
            kn_index[(k['property'], k['rule'], k['key'])] = k
    violations, knowns = [], []
    floor_errors = []
    for r in report.rules:
        if r.instances < r.floor:
            floor_errors.append('%s examined %d instances, floor is %d'
                                % (r.id, r.instances, r.floor))
        for f in r.findings:
            if f.ident() in kn_index:
                f.known = kn_index[f.ident()]
                knowns.append(f)
            else:
                violations.append(f)
    seen_known = set(f.ident() for f in knowns)
    stale = [k for ident, k in kn_index.items() if ident not in seen_known]

    n_inst = sum(r.instances for r in report.rules)
    n_nt = sum(len(r.nontrivial) for r in report.rules)
    for r in report.rules:
        out.append('RULE %s: %d instances (%d distinct non-trivial), %d findings -- %s'
                   % (r.id, r.instances, len(r.nontrivial), len(r.findings), r.desc))
        for n in r.notes:
            out.append('  NOTE %s: %s' % (r.id, n))
    for f in knowns:
        out.append('KNOWN-FINDING: property=%s rule=%s %s -- %s'
                   % (f.prop, f.rule, f.key, f.what))
    for k in stale:
        out.append('NOTE stale known finding (no longer reported by the rule): %s %s'
                   % (k['rule'], k['key']))
    code = 0
    replay_dir = os.path.join(VERIF, 'replays', report.prop)
    for f in violations:
        h = hashlib.sha1(repr(f.ident()).encode()).hexdigest()[:12]
        path = os.path.join(replay_dir, '%s.json' % h)
        try:
            os.makedirs(replay_dir, exist_ok=True)
            with open(path, 'w') as fh:
                json.dump(dict(f.as_dict(), root=report.root, tier=report.tier), fh, indent=1)
        except OSError:
            pass
        out.append('FINDING %s %s at %s: %s' % (f.rule, f.key, f.where, f.what))
        out.append('VIOLATION property=%s replay=%s' % (report.prop, path))
        code = 1
    if floor_errors and code == 0:
        for e in floor_errors:
            out.append('ANALYSIS-ERROR property=%s floor: %s' % (report.prop, e))
        code = 2
    if report.selftest is not None and code == 0:
        st = report.selftest
        out.append('SELFTEST %s: %d mutants, %d detected, %d skipped (anchor absent), %d missed'
                   % (report.prop, st['total'], st['detected'], st['skipped'], len(st['missed'])))
        for m in st['missed']:
            out.append('ANALYSIS-ERROR property=%s selftest: mutant %r not detected' % (report.prop, m))
            code = 2
    wall = time.time() - t0
    out.append('RESULT property=%s tier=%s exit=%d instances=%d violations=%d known=%d wall=%.2fs'
               % (report.prop, report.tier, code, n_inst, len(violations), len(knowns), wall))
    if not quiet:
        print('\n'.join(out))
    if write_evidence:
        write_ev(report, seed, wall, violations, knowns, n_inst, n_nt)
    return code, violations, knowns


def write_ev(report, seed, wall, violations, knowns, n_inst, n_nt):
    samples = []
    for r in report.rules:
        for s in r.samples[:4]:
            samples.append({'rule': r.id, 'instance': s})
    if not samples:
        samples = ['(no instance)']
    obligations = n_inst
    discharged = n_inst - len(violations) - len(knowns)
    cov = {
        'evaluations': n_inst,
        'distinct_nontrivial': n_nt,
        'rule': 'each evaluation is one rule instance (table row, class, method, call site, '
                'lifter template, dispatch entry) examined statically in the source tree; an instance '
                'is non-trivial when the rule had a real obligation on it (distinct instance identifiers counted)',
        'samples': samples,
        'obligations': obligations,
        'discharged': discharged,
        'explanation': report.explanation + (' NOT DECIDED: ' + report.not_decided if report.not_decided else ''),
        'exhaustive': True,
        'rules': [{'id': r.id, 'desc': r.desc, 'instances': r.instances,
                   'distinct_nontrivial': len(r.nontrivial), 'floor': r.floor,
                   'findings': len(r.findings), 'notes': r.notes[:40]} for r in report.rules],
        'analysed': report.analysed,
        'known_findings_matched': [f.as_dict() for f in knowns],
        'violations': [f.as_dict() for f in violations],
        'checker_cmd': './check %s --tier %s' % (report.prop, report.tier),
        'trusted_base': report.trusted_base or ['CPython ast module', 'the rule definitions in /verif/sa/props',
                                                 'reference tables under /verif/ref'],
    }
    if report.selftest is not None:
        cov['selftest'] = report.selftest
    ev = {
        'property_id': report.prop,
        'tier': report.tier,
        'seed': int(seed),
        'level': report.level,
        'coverage': cov,
        'assumptions': report.assumptions + ['python: ' + sys.version.split()[0]],
        'wall_s': round(wall, 3),
        'violations': len(violations),
    }
    d = os.path.join(VERIF, 'evidence')
    os.makedirs(d, exist_ok=True)
    tmp = os.path.join(d, '.%s.%d.tmp' % (report.prop, os.getpid()))
    with open(tmp, 'w') as f:
        json.dump(ev, f, indent=1, sort_keys=True, default=str)
    os.replace(tmp, os.path.join(d, '%s.json' % report.prop))


def analysis_error(prop, msg):
    print('ANALYSIS-ERROR property=%s %s' % (prop, msg))
    return 2


def run_property(prop, tier, root, seed=0, write_evidence=True, quiet=False, selftest=None):
    """Run one property's rules; returns (exit code, violations, knowns)."""
    import importlib
    t0 = time.time()
    try:
        from . import srcmodel
        mod = importlib.import_module('sa.props.%s' % prop.lower())
        ctx = srcmodel.Ctx(root, tier)
        report = Report(prop, tier, root)
        mod.run(ctx, report)
        report.analysed.setdefault('files', sorted(ctx.loaded()))
        if selftest is not None:
            report.selftest = selftest
        return finish(report, t0, seed, write_evidence, quiet)
    except AnalysisError as e:
        if not quiet:
            analysis_error(prop, str(e))
        return 2, [], []
    except Exception as e:  # fail closed, never look like a violation
        if not quiet:
            analysis_error(prop, 'internal error: %r' % (e,))
            traceback.print_exc(file=sys.stdout)
        return 2, [], []
