"""Generic PowerPC decode -> render -> assemble -> encode trip, evaluated statically (consteval) per instruction class on
boundary field vectors: the field parsers (bm.parse), getname/args2str, the text tokeniser, class selection (check_mnemo of
every class of tab_mn), parse_name_cond/parse_opts/str2name/parse_args and the field encoders (bm.bin) are run from their
source; the raw field values that come back are compared with those that went in."""
import ast
import shlex as _shlex

from .core import AnalysisError
from .consteval import Evaluator, NotConst, Obj, Opaque, Native, PyRaise
from .ppctable import c3
from .ppcbranch import BranchTrip, Raised
from .shapes import u


class Trip(BranchTrip):
    def __init__(self, ctx, P):
        BranchTrip.__init__(self, ctx, P)
        pm = self.mod
        sh = Obj('shlex')
        sh.shlex = Native(lambda s: list(_shlex.shlex(s)))
        self.env['shlex'] = sh
        # operand kind classes (reg, imm, crb, ...): classes whose methods are classmethods str/cls
        for cname, cd in pm.classes.items():
            meths = pm.methods(cname)
            if set(meths) >= {'str', 'cls'} and cname not in self.env:
                o = Obj(cname)
                o.__dict__['_methods'] = dict(meths)
                self.env[cname] = o
        # per-class dictionaries as the metaclass leaves them: own methods + args2str/parse_args generated from do_args
        self.cdict = {}
        for cname, c in P.classes.items():
            d = dict(c.methods)
            if 'do_args' in c.own:
                a2s = pa = None
                for b in P.bases_of.get(cname, []):
                    bm_ = pm.methods(b) if b in pm.classes else {}
                    if 'gen_args2str' in bm_:
                        a2s = bm_['gen_args2str']
                    if 'gen_parse_args' in bm_:
                        pa = bm_['gen_parse_args']
                d['args2str'], d['parse_args'] = a2s, pa
            self.cdict[cname] = d
        self.cdict['ppc_mn'] = dict(pm.methods('ppc_mn'))

    def resolved(self, cname):
        """(methods, data attributes) seen from an instance of cname."""
        meths, attrs = {}, {}
        for k in reversed(self.P.classes[cname].mro):
            if k in self.cdict:
                meths.update(self.cdict[k])
            if k in self.P.classes:
                own = self.P.classes[k].own
                for a, v in own.items():
                    if a == 'mask' or isinstance(v, Opaque):
                        continue
                    attrs[a] = v
                if 'do_args' in own:
                    attrs['args_list'] = own['do_args']
        return meths, attrs

    def new_instance(self, cname, values):
        meths, attrs = self.resolved(cname)
        o = Obj(cname + '()')
        o.__dict__['_methods'] = dict((k, v) for k, v in meths.items() if v is not None)
        o.__dict__['_none_methods'] = set(k for k, v in meths.items() if v is None)
        o.__dict__['_closed'] = True
        for a, v in attrs.items():
            setattr(o, a, self._materialise(v))
        for k, v in values.items():
            setattr(o, k, v)
        return o

    def _materialise(self, v):
        # do_args = [('rt', reg), ...]: the kind names were evaluated as opaque names; bind them to the kind objects
        if isinstance(v, list):
            return [self._materialise(x) for x in v]
        if isinstance(v, tuple):
            return tuple(self._materialise(x) for x in v)
        if isinstance(v, Opaque) and v.what in self.env:
            return self.env[v.what]
        return v

    def call(self, obj, mname, *args):
        if mname in obj.__dict__.get('_none_methods', ()):
            raise Raised('TypeError', "%s.%s is None ('NoneType' object is not callable)" % (obj.__dict__['_name'], mname))
        return BranchTrip.call(self, obj, mname, *args)

    # -- fields
    def bm_object(self, fcls, l, props):
        pm = self.mod
        o = Obj(fcls)
        meths = {}
        chain = [fcls] if fcls in pm.classes else []
        if fcls in pm.classes:
            chain = [k for k in c3(fcls, self.P.bases_of) if k in pm.classes]
        else:
            chain = ['bm']
        for k in reversed(chain):
            meths.update(pm.methods(k))
        o.__dict__['_methods'] = meths
        o.l, o.off, o.p_property = l, 0, list(props)
        return o

    def parse_field(self, f, raw):
        b = self.bm_object(f.cname, f.l, f.props)
        try:
            Evaluator(self.env).call_user(b.__dict__['_methods']['parse'], [b, raw])
        except PyRaise as e:
            raise Raised(e.exc_name, '%s.parse: %s' % (f.cname, e))
        except NotConst as e:
            raise AnalysisError('%s.parse is outside the statically evaluable subset: %s' % (f.cname, e))
        return dict((k, v) for k, v in b.__dict__['_attrs'].items() if k not in ('l', 'off', 'p_property'))

    def encode_field(self, f, inst):
        b = self.bm_object(f.cname, f.l, f.props)
        for k, v in inst.__dict__['_attrs'].items():
            if k in f.props:
                setattr(b, k, v)
        try:
            return Evaluator(self.env).call_user(b.__dict__['_methods']['bin'], [b])
        except PyRaise as e:
            raise Raised(e.exc_name, '%s.bin: %s' % (f.cname, e))
        except NotConst as e:
            raise AnalysisError('%s.bin is outside the statically evaluable subset: %s' % (f.cname, e))

    def trip(self, cname, fields, raw):
        """raw: dict field index -> raw value.  Returns (text, dict index -> raw value after the trip)."""
        values = {}
        for i, f in enumerate(fields):
            if f.fbits is None:
                values.update(self.parse_field(f, raw[i]))
        o = self.new_instance(cname, values)
        text = self.call(o, '__str__')
        # tokenise as ppc_mn.pre_parse_mnemo does
        ppm = self.mod.methods('ppc_mnemo_metaclass')['pre_parse_mnemo']
        try:
            toks = Evaluator(self.env).call_user(ppm, [Obj('cls'), text])
        except NotConst as e:
            raise AnalysisError('pre_parse_mnemo not evaluable on %r: %s' % (text, e))
        toks = list(toks)
        mnemo = toks.pop()
        acc = []
        for k in self.P.tab_mn:
            c = self.cls_objs[k]
            ns = c.__dict__['_attrs'].get('namestr')
            if not ns or not any(mnemo.startswith(n) for n in ns):
                continue
            try:
                if self.call(c, 'check_mnemo', mnemo):
                    acc.append(k)
            except Raised:
                acc.append(k + '!')
        if acc != [cname]:
            return text, ('classes', acc)
        o2 = self.new_instance(cname, {})
        nm, rest = self.call(o2, 'parse_name_cond', mnemo)
        o2.name = nm
        self.call(o2, 'parse_opts', rest)
        self.call(o2, 'str2name', nm)
        full = self._symbol_filter(toks)
        self.call(o2, 'parse_args', full)
        out = {}
        for i, f in enumerate(fields):
            if f.fbits is None:
                out[i] = self.encode_field(f, o2)
        return text, ('fields', out)

    def _symbol_filter(self, full):
        return self.symbol_filter(full)
