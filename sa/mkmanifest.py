"""Regenerate /verif/MANIFEST.json from the table below (run: /venv/bin/python -m sa.mkmanifest)."""
import json
import os

VERIF = os.path.dirname(os.path.dirname(os.path.abspath(__file__)))

# id -> (category, technique, text, note)
CLAIMS = {
    'C01': ('other',
            'static analysis: exact static expansion of the opcode table into decode-trie units compared with an independently authored IA-32 opcode map (ref/ia32_opcodes.ref); def-use of the length/bytes/offset stores; mode-selector table for every operand fetch of _dis',
            'Decides, for all 700+ architectural units of the opcode table (opcode bytes x /digit | +r | +cc, the four mandatory-prefix variants of MMX/SSE rows), that mnemonic, operand '
            'signature (r/m vs reg order, byte/word/operand-size width, sign-extended imm8, fixed immediates, accumulator/CL/DX/segment/moffs operands, x87 memory width), store direction '
            'and imm8 presence are those of IA-32; that no two rows claim one cell; that self.l/self.b/self.offset are the consumed window; that ModRM/displacement/moffs are sized by the '
            'address size and immediates/relative targets/registers by the operand size; that get_afs reads each displacement token with its own format and byte count; that all 256 32-bit ModRM '
            'entries, 3 x 256 SIB entries, 256 16-bit ModRM entries and the mm/xmm register forms built by init_pre_modrm (evaluated statically) equal the architectural definition, and the register '
            'lists carry the IA-32 numbering; that for every MMX/SSE row and mandatory prefix the register files of the reg and r/m operands selected by _dis (its selection code evaluated '
            'statically) are those of the IA-32 operand signature (V/W/P/Q/G/E, ref ops clauses).',
            'Not decided: rendering by '
            '__str__/dict_to_ad. The ref is trusted (authored from the SDM; disagreements found while authoring were triaged against gdb/objdump knowledge: 2 typos fixed, 1 known finding).'),
    'C02': ('other',
            'static analysis: narrowing-site classification over the assembly closure (dominance of the range check whose size token equals the narrowing), interval extraction of check_imm_size, mode-variable consistency',
            'Decides the "never silently truncated" clause: every fixed-width cast / mask applied to an operand value in the Intel and AT&T assembly closure is a literal, the parsers\' '
            '32-bit normalisation, or dominated by check_imm_size for the same size token with rejection on None (or an explicit interval test on the narrowing type\'s limit); the byte '
            'emission packs with the struct format of the checked size; the intervals of check_imm_size, the returned cast, dict_size formats and tab_size2int agree with the width '
            'semantics of each size token; one mode variable drives the 0x66 prefix, the immediate width and the candidate tuple; grammar actions accumulate register coefficients; '
            'the reverse ModRM table (evaluated statically from init_pre_modrm) maps every operand shape only to ModRM/SIB bytes with an empty reg field that decode back to that shape, and is complete.',
            'Not decided: that asm_candidates/forge_opc pick the right row and operand order for a concrete line (16/32-bit mode detection from operand order, memory vs register forms), '
            'candidate completeness, values outside [-2^31, 2^32) which the parsers normalise modulo 2^32 (0xFFFFFFFF is the same parsed value as -1).'),
    'C03': ('other',
            'static analysis: constant evaluation of printer tables and parser lexicons (register names, size keywords), injectivity analysis of the SSE suffix scheme, inverse-table comparison of mirrored special cases, linear-use typestate over the operand renderer',
            'Decides necessary conditions of the round trip that are visible in tables: every register name and size keyword the printers can emit is in the corresponding '
            'parser\'s lexicon with the same size; exactly one suffix key per SSE row name, (row, prefix) -> printed mnemonic injective up to the collisions the assembler '
            'special-cases, mnemo_mmx_hash maps every printed name to a row that prints it; the fence/movhlps/implicit-operand special cases are inverse in both directions; a linear-use typestate over dict_to_ad shows that displacement, symbol and segment of an operand '
            'reach the rendered text exactly once on every path.',
            'Not decided: equality of bytes after a concrete trip, the txt operand-order memo, candidate-set membership. cr0-7/dr0-7 (printed but formerly parsed as symbols) were repaired in /repo.'),
    'C09': ('other',
            'static analysis: partial evaluation of the table-driven AT&T mnemonic functions (mnemo_to_att / mnemo_from_att) over every printed mnemonic x operand-size form derived from the opcode table',
            'Decides that every mnemonic/operand-size form the decoder can produce reaches a return of mnemo_to_att (exhaustiveness of the five AT&T tables and of the size '
            'suffix dictionaries, including partial gaps such as mov with segment sizes), that mnemo_from_att maps the produced AT&T mnemonic back to the same mnemonic '
            '(unique decodability under the dispatch order), that the suffix->size tables are injective, that irregular AT&T spellings agree with a GNU as reference list, and that the AT&T operand grammar keeps both '
            'coefficients when base and index are the same register.',
            'Not decided: operand order/memory layout for concrete operands, the fsub/fdiv reversal on parsed operands, acceptance by GNU as (no assembler in the sandbox). '
            'Known findings: 65 mnemonics/forms without AT&T mnemonic, fisttpw not parseable back.'),
    'C10': ('other',
            'static analysis: path-condition classification of every raise / assert-unreachable site in the decode, render and assemble closures, with deadness decided on the statically expanded opcode table; always-raising-construct lint; structural truncation and loop-progress rules',
            'Every raise and bare-name belief site is shown caught (IOError in the decoder), documented (ValueError in the assembler), dead by contradictory guards, or dead because '
            'no live row of the opcode table satisfies its table-evaluable guards (afs kinds, operand kinds, sd values, ModRM displacement kinds, SSE name patterns, x87 operand '
            'counts); otherwise it is reported. Also: mandatory-prefix validity guard, operand-list subscripts of __str__ vs decoded operand counts, register-table keys of '
            'dict_to_ad, every stream read inside the try, bounds check before each read, progress of every decoder loop.',
            'Not decided: implicit KeyError/IndexError from data-dependent subscripts outside the table-exhaustiveness cases; the LALR automaton. 9 known findings (NEVER sites on '
            'invalid prefix combinations, INVALID-prefix rows, fcom/fcomp DC forms, fstp DB /7 register form, movq NEVER and arg2txt TODO in the assembler).'),
    'C06': ('other',
            'static analysis: operator vocabulary of the lifter (from E4 templates, with arities) cross-checked against the evaluator dispatch table and each evaluator\'s operand subscripts; always-raising-construct lint with a small fixed-width-integer type inference; template of the cast/lookup code',
            'Every operator string the lifter builds either has a constant evaluator reading no more operands than the lifter passes, or is kept symbolic by the membership '
            'guard in eval_ExprOp; evaluators of the flattenable operators fold over all operands; no evaluation method contains a construct that raises on every '
            'execution; results are cast to the first operand\'s type and identifiers are looked up exactly in the pool; each evaluator applies the Python operator its operator names '
            '(fold token, comparison, shift direction, product half) and rotations reduce the count modulo the ring size with complementary shift amounts adding up to it.',
            'Not decided: numeric correctness of div/idiv/bsf/bsr/parity evaluators, Cond/Compose/Slice folding on concrete values. 34 known findings: integer operators without evaluator (mul/div '
            'families, rcr), bsf/bsr arity, true division on moduint, raise of strings, mpool.items/keys.'),
    'C08': ('other',
            'static analysis: read/write-set inference over the lifter\'s IR templates (E4) with get_r(mem_read) semantics, compared with an architecture effects table',
            'For every live decoder variant x operand form of the mnemonics in ref/ia32_effects.ref (integer core + x87/SSE instructions with implicit flag/register effects) the '
            'identifiers and memory cells the lifted assignments read contain every architectural input (explicit operands by position, implicit registers, condition-code flags, '
            'df, memory through esi/edi/esp) and the written set contains every architectural output; the generic MMX fallback is thereby shown insufficient exactly for the '
            'instructions listed as known findings.',
            'Not decided: dependencies absent from my reference table. Trusted: ref/ia32_effects.ref, ref/ia32_cc.ref, E4 form model. Read set counts the address of memory destinations '
            '(ExprAff.get_r alone does not report it by design). 47 genuine omissions are known findings (BCD stubs, cmpxchg flags, in/out, fcmovcc, ptest/pcmp?str?/blendv/maskmov).'),
    'C04': ('other',
            'static analysis: abstract interpretation of the lifter\'s IR templates (E4) in a boolean-function domain (condition codes) and a bit-slice domain (carry/overflow), plus flag write-set and term-identity rules against an architecture table',
            'Decides the flag/condition discipline of the integer core for every value of the operands: the truth table over cf/zf/sf/of/pf of every jcc/setcc/cmovcc '
            '(and loop/loope/loopne/jecxz over count,zf) equals the architectural predicate with the right polarity; update_flag_add/sub carry and overflow equal the '
            'architectural functions of the sign bits (8 combinations, valid for all widths/values because the formula is bitwise) and each call site passes (x, y, x op y); '
            'per mnemonic the written status flags are exactly defined-or-undefined ones (none kept), and zf/sf/pf are computed from the expression assigned to the destination.',
            'Not decided (need concrete evaluation): result values, shift/rotate flag formulas per count, mul/div, addressing, direct branch targets, cmps operand order. '
            'Trusted: ref/ia32_cc.ref, ref/ia32_effects.ref, the E4 form model. Known findings: aaa/aas/daa/das stub, cmpxchg flags.'),
    'C11': ('other',
            'static analysis: partial evaluation of the lifter (dict_to_Expr + semantic function) per decoder form into IR templates, then width/kind/single-assignment typing of each template',
            'For every live decoder variant x operand form x operand size (about 2200 instantiations, 11800 in thorough) the IR template the lifter emits is derived from the '
            'source without running it, and type-checked: no raise/unbound name/arity error on the path, list of assignments with register/memory destinations, determinate '
            'and agreeing widths (operands of + - * & | ^ ==, slices, concatenation tiling, destination vs source with the 0/1 flag exception), no location written twice.',
            'Not decided: aliasing of distinct symbolic addresses. Trusted: the form model of _dis operand dictionaries (validated at authoring time: 2949 templates identical to '
            'the real lifter). 189 genuine ill-typed/unliftable forms are listed in known_findings.json (mostly 16-bit-mode widths and x87 stack helpers).'),
    'C07': ('other',
            'static analysis: call-closure effect check of the evaluator read phase, def-use chain of the values written to the pool, expression-vs-integer comparison typing, early-return flag audit',
            'Decides that every source is evaluated in the pre-state (nothing reachable from get_instr_mod writes self.pool; eval_instr calls it once before its first '
            'pool store and stores only values derived from its result via expr_simp/ExprInt), that no ==/!= compares an IR expression with a Python integer (the rep '
            'termination tests in particular), and that eval_expr only short-cuts on flags never set on shared nodes.',
            'Not decided: the overlap arithmetic of memory writes (depends on the history of widths/offsets). The is_eval shortcut is a known finding (an existing '
            'test encodes its effect).'),
    'C12': ('other',
            'static analysis: ownership/effect classification of every store site (reaching-definition freshness, interprocedural parameter-mutation fixpoint), audit of the PLY table-cache guard',
            'Decides the existence of hidden state channels: memo flags is_eval/is_term only on nodes created in the same function; no mutable default argument that is '
            'mutated/read and omitted by a call site; no in-place store to a field of an IR node not created in the same function; every operand the decoder appends is '
            'a fresh dict (table rows never escape); ply.yacc returns cached tables only under read_signature == signature, call sites pass no optimize, the signature '
            'folds start/precedence/tokens/docstrings, lexers have no on-disk cache.',
            'Not decided: whether a leaked state changes a later result for a given history. One genuine channel (is_eval on shared singletons) is a known finding: '
            'repairing it breaks an existing test expectation that encodes the defect.'),
    'C18': ('other',
            'static analysis: class-declaration model of ppc_arch (field tiling, pairwise satisfiability of acceptance predicates over opcode bits, MRO-resolved rendering attributes) compared with an independent PowerPC opcode map',
            'From the declarations alone: every class tiles 32 bits; every pair of the 82 classes has disjoint acceptance predicates (fixed bits + extended-opcode sets, '
            'enumerated exactly over the opcode bit positions, never over words); re-encode identity of every field class; name tables total/injective and aligned with '
            'the opcode field; every attribute the renderer reads exists for each concrete class through its MRO; (primary, extended) -> mnemonic equals ref/ppc_opcodes.ref; '
            'assembler entry point free of always-raising constructs.',
            'Not decided: operand field rendering/parsing for concrete values. 30 genuine defects of the (untested, python-2 era) PowerPC module are listed in known_findings.json. '
            'Trusted: ref/ppc_opcodes.ref; opcodes unknown to the reference are not judged.'),
    'C05': ('other',
            'static analysis: abstract interpretation of list positions in the constant-folding loop (left/right operand identity), operator-set inclusion between the zero-drop and unwrap guards, linear arithmetic over slice bounds in merge_sliceto_slice',
            'Decides two necessary operand-discipline conditions of meaning preservation: every folding branch applies the Python operator its operator string '
            'names, with LEFT.arg OP RIGHT.arg for non-commutative operators, at the operands\' width; every operator whose trailing literal 0 is dropped has 0 as '
            'right-neutral element and is unwrapped when one operand remains; the unwrap list contains no unary operator; in merge_sliceto_slice constant pieces are masked to their width, pieces merge '
            'only when adjacent and the high constant is shifted by exactly the width of the lower piece (linear arithmetic over bit positions under the loop invariant); the recognised rewrites fire only under their '
            'algebraic side condition (strict mask < 2**shift, rotation by the operand size, c != 0, constant conditions) and slices are re-based exactly.',
            'Not decided (quantifies over values, no honest structural surrogate): soundness of each rewrite\'s side condition for all constants and widths, '
            'rewrites not in the recognised list, termination of the fixpoint loop.'),
    'C19': ('other',
            'static analysis: def-use audit of every PLY grammar action (token-class positions from the production docstrings) for case folding and number normalisation',
            'In both grammars every token of a class the lexer classifies case-insensitively (REGISTER, SEGMENT, ST, size keywords) is folded before it is used as '
            'dict key / list.index argument / concatenated key (symbol names exempt); every Intel production turning NUMBER into an immediate applies the same '
            '32-bit wrap; 0x/0X alike; t_NAME classifies on folded text and tokens declares every assigned type.',
            'Not decided: white space, term order, disp[reg] forms (LALR tables and term algebra at run time); AT&T width wrap is decided under C02. '
            'Mnemonic case (MOV vs mov) is outside the property\'s list.'),
    'C17': ('other',
            'static analysis: static expansion of the 539-row opcode table into trie cells compared with an independent control-transfer reference; def-use templates of the flow accessors',
            'Every cell of the decode trie (derived statically from the addop rows) carries exactly the breakflow/splitflow/dstflow attributes of its '
            'architectural class (ref/ia32_flow.ref; all unlisted opcodes must carry none); relative displacements are signed kinds sized by the operand size; '
            'getnextflow/getdstflow/breakflow/splitflow/dstflow and the decoder\'s offset/length stores match their def-use templates.',
            'Not decided: numeric extraction of a concrete displacement (struct.unpack at run time). Trusted: the table-expansion model (validated cell-for-cell '
            'against the real trie at authoring time: 6769 cells, 0 differences) and ref/ia32_flow.ref.'),
    'C13': ('other',
            'static analysis: field-coverage of the ordering key vs __eq__, statement-order rule in the simplifier, lint for set iteration / id() / hash() ordering',
            'Decides the structural preconditions of canonicity: key_expr has a distinctly tagged branch for every IR node class and reads every '
            'field __eq__ compares (so unequal operands never tie in the commutative sort), sorting precedes constant folding, and no function of the '
            'expression/simplifier/evaluator/emulation/lifter modules iterates a set-typed value, sorts by hash()/id() or defines an ordering method on id().',
            'Not decided: idempotence and confluence of the rewrite system (fixpoint behaviour on concrete trees). Trusted: the set-typing heuristic '
            '(values produced by get_r/get_w/get_expr_ids/set()/set operations).'),
    'C15': ('other',
            'static analysis: field/method matrix over the 8 IR node classes (sibling-interface agreement), control-dependence of sort sites on a commutative-operator guard',
            'For every IR node class: __hash__ fields are a subset of __eq__ fields, __eq__ compares every constructor field pairwise and tests the class, '
            'copy()/visit() rebuild from all fields, recurse into every sub-expression field, copy never returns self, every visit is wrapped by visit_chk, '
            'replace_expr/canonize go through visit, and every operand sort is guarded by membership in a commutative-operator list.',
            'Not decided: value preservation for concrete valuations. ExprId.is_term is declared metadata (not identity).'),
    'C16': ('other',
            'static analysis: field/method matrix (get_r/get_w recursion coverage and mem_read forwarding), per-class branch audit of MatchExpr against __eq__ fields',
            'get_r of every node class reaches every sub-expression field and forwards mem_read; memory/identifier leaves report themselves; ExprAff.get_w names dst; '
            'MatchExpr tests the pattern class and compares every scalar field, operand count and slot bound that __eq__ compares before recursing; test_set guards rebinding.',
            'Not decided: behaviour of bindings on concrete trees, completeness of matching. ExprAff.dst and ExprMem.segm are exempt from get_r (reasons printed as notes).'),
    'C14': ('proof',
            'static analysis: template-conformance proof over the AST of every modint operator method (path-shape extraction, no execution)',
            'Every constructor path, width class, maxcast and operator/comparison method of miasmx/tools/modint.py is matched '
            'against the modular-arithmetic template (cls(self.arg OP y.arg), reflected operand order, wider-class cast, '
            'truth tables of comparisons). Python ints are exact, so conformance is the property for all operand values and widths.',
            'Trusted: CPython int arithmetic and ast parser, the template family in sa/props/c14.py. __div__/__rdiv__/__long__/__hex__ '
            '(python-2 protocol) and __rpow__ (plain-int result) are outside the stated operator list.'),
}

# clauses added after the first build round (hunt rounds, DESIGN.md 12.9), appended to the claim text
ADDED = {
    'C01': ' Also (D6-D8): cr/dr moves ignore ModRM.mod and segment-register numbers 6/7 are rejected; memory-only operands reject mod=3; the [esi] operand of the string instructions '
           'takes the segment-override prefix and [edi] stays in es (special_opcodes evaluated on family x prefix). D1 also demands that a mandatory prefix under which the reference defines no '
           'instruction for an SSE opcode is rejected by the decoder (andss, movasd, SSE4 without 66); the r/m operand size of every integer unit is evaluated from the size statements of _dis for '
           'the memory and the register form separately (mov Sreg / sldt / lar: m16, r16/32). D10: operand-less instructions named by their operand size take the 16-bit name under 0x66 '
           '(special_opcodes evaluated).',
    'C02': ' Also (D5-D8): the reverse ModRM table has an empty reg field, decodes back and is complete; displacements outside the brackets are accumulated; multi-immediate rows are '
           'encoded in the order they are decoded; every predicate by which _dis rejects an (opcode, mandatory prefix) pair is applied to the assembler\'s candidates; a register the table fixes (dx of in/out) does not select '
           'the operand size (detection loop evaluated). '
           'D9: the 0x66 prefix of mnemonics shared by the mm and xmm forms is selected iff an operand is xmm (evaluated on 8 operand shapes per name).',
    'C03': ' Also (D5): for movs/cmps/lods a segment override is printed (operand elision of __str__ evaluated) and turned back into the prefix by normalize_args (evaluated). D7: every '
           'mnemonic list by which _dis rejects or sizes an operand form is consulted by the same branch of the assembler; D8: x87 st(i) rows pass check_size_modif (evaluated) with the size '
           'the parser gives st(i) and agree with the implicit-operand lists; D3: every renamed row copy the decoder uses is a name the assembler finds. '
           'D9: both assembler entry points type the immediates before candidates are selected (shared with C19.D6). '
           'D10: brackets around a sized operand keep its PTR size (grammar actions evaluated).',
    'C04': ' Also (D7): CF and OF of mul/imul are computed from the double-width product (the high half; for the signed forms compared with the sign extension of the low half), decided on '
           'the lifted templates of every operand form; (D8) aaa/aas/daa/das: the lifted assignments evaluated on every al x AF x CF x 5 values of ah equal the SDM pseudo-code. '
           'D9: push/pop through esp use the value of esp IA-32 prescribes (addresses of the lifted templates evaluated). D10-D13: the lifted assignments of the shifts and rotates are evaluated '
           '(masked count 0 changes nothing; result/CF/OF/ZF/SF/PF on boundary operands x counts equal a reference validated against the host CPU), xchg/xadd on two parts of one '
           'register, and the cell and bit the bt family addresses for signed register offsets and immediate offsets. '
           'D14: call/ret/retf/leave/enter under both operand sizes address the stack through the 32-bit esp and move it by the slot sizes IA-32 prescribes (lifted templates evaluated with a carry into the high half of esp). '
           'D15: the count of a repeated string instruction (shared with C08.D7).',
    'C05': ' Also (D4/D5): rewrites are selected by their action; constant folding demands equal widths of associative operands only; every tab_size_int[K] lookup of the simplifier is '
           'dominated by a membership test, by an isinstance(.., ExprInt) on the value or an operand of it, or ranges over the table keys (no KeyError on 4/24/31-bit slices). '
           'D7: the parity fold is the parity of the low byte at every width (both parity functions evaluated). '
           'D8: copy() of every node class is a deep copy (the simplifier edits copies).',
    'C06': ' Also: operators the lifter builds with operands of different widths and evaluable operands are exempt from the operand-type check (op_size_no_check names only real operators); '
           'width-indexed tables cover every constant width; no sign test on an unsigned operand; the through-carry rotations widen their operand before shifting; left shifts bound the count; '
           'eval_ExprCompose recognises constant slice pieces (widths the lifter composes that no ExprInt can carry); memory cells are stored under the simplified address they are looked up with (D7); the division / multiplication evaluators (div, rem, idiv, irem, umul/imul hi/lo of widths 8/16/32) '
           'are executed from their source on boundary vectors and agree with the integer definitions, divide-error conditions included (D5). '
           'D9: addresses are widened to 32 bits where they enter the memory model (16-bit effective addresses).',
    'C07': ' Also (D5/D7): every exit of the rep loop is count==0 or the zf test, a symbolic zf is rejected; a value (pool content, evaluation result, stored address) is never passed to '
           'eval_expr again (source-order taint with parameters propagated through the self-call graph). '
           'D9: eval_ExprCompose folds constant pieces around a conditional piece to their concatenation (evaluated on 7 layouts). '
           'D10: the same address-width clause (instructions under the 16-bit address size can be emulated).',
    'C08': ' Also (D4): lds/les/lss read the selector operand-size/8 bytes after the offset. '
           'D6: the cells push/pop through esp read and write (shared with C04.D9). '
           'D7: a rep-prefixed string instruction lifts with its count register, under the predicate the emulator repeats by; the reference lists 70 x87 lines (pop/push renaming), the far call and cmpxchg8b.',
    'C09': ' Also (D6): a string instruction whose Intel name is an SSE mnemonic (movsd/cmpsd) is not rendered under that name in AT&T syntax. D8: operand order (reversed except bound/enter) '
           'agrees between the AT&T branch of __str__ and mnemo_from_att, both evaluated; D9: memory forms rendered under a suffix-less AT&T mnemonic pass the size check of their row after '
           'mnemo_from_att, normalize_args and the operand completion of asm_candidates (all evaluated). '
           'D10: arg_set_numpy_imm types an immediate with the operand size (evaluated). '
           'D11: rendering does not change the instruction object (shared with C12.D11).',
    'C10': ' Also (D4/D5): a decode that finds no instruction restores the stream offset; mnemo_from_att, evaluated on every mnemonic-like name (Intel names, AT&T table entries, +/- suffix '
           'letters) x operand shape, returns or raises ValueError; constant operand indices of __str__ are reachable only with enough operands (string-instruction operand counts and '
           'row-dependent guards evaluated); dictionary displays subscripted in the assembler have table-derived keys that are always present, or a membership test. '
           'D6: every operand fetch reads the number of bytes its mode prescribes (shared with C01.D3). '
           'D7: arg_set_numpy_imm is evaluated on every pair of operand-size tokens (no TypeError/KeyError); D8: dict_mul, evaluated on register x constant and on chains of factors, builds no value whose size grows with the constant. '
           'D9: decoder, undefined-form test and renderer select the same mandatory prefix from any prefix list.',
    'C11': ' Also (D6): a semantic function returns a list built in the call (shared with C12.D12).',
    'C12': ' Also (D2/D6): every method of the evaluator class counts as an entry point whose defaults callers omit (dict-dispatch callees resolved); sys.path / sys.modules replaced inside a '
           'function are restored in a finally. '
           'D7: no function in the API modules mutates in place a module-level table, or a local bound to one (a lifter reversing the shared register list). '
           'D8: process-wide loggers are configured once; D9: state a token rule keeps on a shared lexer is reset per parse. '
           'D7 also covers the tables of a module-level instance (x86mndb): run-time methods do not change them. D10: copy() is a deep copy. '
           'D11: __str__ and the flow-metadata methods are read-only; D12: semantic functions return lists built per call.',
    'C13': ' Also (D6): visit() of every expression class rebuilds the node when any child changed, segment selector of ExprMem included (shared with C15.D2). '
           'D7: constants have one (unsigned) representation wherever they stand. '
           'D1 demands that sub-expression fields enter the ordering key through key_expr and that the per-piece key of a concatenation is complete; D8: copy() is a deep copy.',
    'C14': ' The template family includes the bounded left shift (count >= width of the result class gives 0; a bound taken from a narrower class is a violation) and the modular power '
           'pow(self.arg, e, limit) with the wider-class cast; the exact power / unbounded shift are violations (the count 2^n-1 is in range). '
           'The right shift returns 0 for a count >= width only for the unsigned classes (an arithmetic shift of a negative value saturates at -1).',
    'C15': ' Also: what get_size() reads takes part in __eq__ (constants of different widths differ); evaluation-control flags the evaluator sets on freshly built nodes of a class survive '
           'that class\'s copy(). '
           'Every constructor call inside copy()/visit() passes each positional field from the field of the same name (no swapped flags). '
           'D3: replace_expr is a simultaneous substitution: no traversal puts the caller\'s values in place while it still looks the caller\'s keys up.',
    'C16': ' Also: test_set is evaluated over the full product of wildcard / non-wildcard pattern, previous binding present / equal / different; an equality short cut may not bypass the joker table.',
    'C17': ' Also (D4): every renamed row copy keeps the control-flow class of the row it copies (iretw of iret, not of the neighbouring into); rows led by 0x66 take the class of the opcode behind it.',
    'C16': ' test_set is evaluated on its five cases (success returns the bindings); the class dispatch of MatchExpr fails, never crashes, on classes without a branch.',
    'C18': ' Also (D7/D8): the render -> assemble half of the fixpoint is decided by evaluating the class methods themselves (getname/args2str/__str__, the tokeniser, check_mnemo of every '
           'class, parse_opts/str2name/parse_args, field parse/bin): exhaustively over BO x BI x AA x LK for bc/bclr/bcctr, and on boundary field vectors x every extended opcode for every '
           'other class; the text must be accepted by exactly its own class and every field must come back. '
           'D9: name tables read back with .index() hold no name twice.',
    'C19': ' Also (D4): both parsers give a shared register name the same operand size; every condition-code alias (cmovcc/setcc) is read back from AT&T syntax as itself with and without '
           'size suffix. '
           'D5: the operand-size detection gives the same mode for Intel- and AT&T-parsed operands. '
           'D6: every entry point that reaches asm_candidates has typed the immediates with the operand size (0xffff and -1 of a 16-bit operand get the same candidates); D7: the rendering memo txt of an operand never decides a candidate.',
}

# session 3: evaluation of the source on finite families derived from the code's own structure (simplifier, node classes, fixed-width integers, grammar actions)
ADDED3 = {
    'C02': ' D10: every spelling in cond_list is an IA-32 spelling of that condition code (ref/ia32_cc.ref). D11: the segment override written on the source operand of a string instruction '
           'reaches the encoding wherever that operand stands (shared string trip of C03.D5).',
    'C03': ' D11: assembling and disassembling do not edit the tables they look up, including lists a lookup method hands out (shared with C12.D7). D3 evaluates the `SIZE PTR seg:[..]` '
           'action also on base = index addresses ([ebp+ebp*2]).',
    'C04': ' D10 also takes the count as an immediate byte whose low five bits are 0 (0x20, 0x40, 0xE0). D11 also covers one register named twice (xchg r, r; xadd r, r doubles r).',
    'C05': ' D2-D5 and D10 are now decided by interpreting _expr_simp / _expr_simp_w / expr_simp / merge_sliceto_slice / parity and the ordering key from their source on model IR nodes '
           '(sa/simpeval.py): about 1 000 well-typed expressions generated from the shapes the rewrite rules distinguish (operator x arity x constant position x boundary constants around every '
           'power of two x byte-grid slice and concatenation boundaries x node kind); one rewriting step and the full simplification keep width and value on 48 valuations (every single bit, '
           'all ones, zero), return on every member (no KeyError on odd widths) and terminate. D11: visit() of every node class, interpreted from expression.py, reaches every sub-expression. '
           'The former clauses that matched the spelling of the rules are retired (they reported behaviour-preserving rewrites).',
    'C06': ' D11: every rewriting step of the simplifier the evaluator runs keeps width and value on the expression family (shared with C05).',
    'C07': ' D8 is decided on the concatenation family of the evaluated simplifier. D12: base + 0, 0 + base and base + c + (-c) simplify to the base itself for sums of one to three terms '
           '(cells are keyed by the simplified address). D10 follows the evaluated address through renamed locals.',
    'C08': ' D8: a shift or rotate whose count (cl or imm8) masked to five bits is 0 carries every old flag through (shared with C04.D10).',
    'C09': ' D9 also takes the operand shape of a segment override, derived by evaluating the grammar actions of ia32_att.py and the loop of parse_args. D12: the `SIZE PTR ds:[..]` rendering of '
           'an ss-relative address is read back with its override (shared with C03.D3).',
    'C10': ' D2 also sizes the memory form of every MMX/SSE row under each mandatory prefix (the size must be a key of dict_to_ad.ad_size). D10: the locals a parse-error callback reads through '
           'frame.f_back^k.f_locals[name] exist in every function that can stand k frames up (yacc -> parse -> parse_ad -> parse_mnemo). The deadness of the raise in get_afs is decided by '
           'evaluating get_afs on every displacement kind the ModRM tables hold; a raise site that is neither dead nor reached by a live row is an ANALYSIS-ERROR, not a violation.',
    'C11': ' D4 also probes one register named twice (xchg / xadd / cmpxchg r, r).',
    'C12': ' D7 also follows tables handed out by lookup methods of a module-level instance (find_mnemo returns the table\'s own list). D13: results of cached functions (lru_cache / memoize) '
           'are not edited by callers (directly, as elements of a list of results, through a loop variable).',
    'C13': ' D9: simplifying a copy of a simplified expression returns it unchanged, D10: spellings that differ only in order or nesting of the operands of + * ^ & | simplify to the identical '
           'expression -- both evaluated from the source on the expression family; D11: visit() reaches every sub-expression.',
    'C14': ' C14.eval: modint.py is interpreted from its source (sa/srcclasses.py) and constructors, + - * & | ^ << >> % **, unary - ~ abs, the comparisons, int() and hash of all 11 classes are '
           'evaluated on boundary values x class pairs x plain integers x shift counts around and far beyond each width (43 000 evaluations) against the mathematical definition. A template '
           'that does not match is reported only with an evaluated witness; then the run is decided by evaluation and its evidence level is `other`.',
    'C15': ' D5-D8: the node classes of expression.py are interpreted from their source (sa/exprobj.py); on the expression family (about 200 expressions incl. segment selectors of every node '
           'kind, assignments, signed/unsigned spellings of one constant): == is reflexive on identically built expressions, symmetric, != its negation, equal expressions have equal hashes, '
           'widths and values; copy() is equal, keeps the flags and shares no node object; visit(identity) is equal and a renaming callback renames every occurrence; replace_expr on identifier '
           'maps denotes simultaneous substitution on every valuation, compound keys of equal hash / rotations give the simultaneous result; canonize keeps width and value.',
    'C16': ' D5: get_r (mem_read False and True), evaluated from the source on the family, contains every identifier and memory cell with a WITNESSED influence on the value (two valuations '
           'that differ only there give different values), the address and selector of a store; get_w names the destination; get_size gives the width; get_expr_ids collects every identifier.',
    'C17': ' D2 evaluates get_im_fmt on se x w8 x mode x kind. D6: getdstflow, evaluated on immediates typed by intsize (both kinds) x operand size x offsets in both halves of the address '
           'range, gives offset + length + displacement reduced to the operand size as a non-negative address.',
    'C18': ' D10: the class matcher (metaclass check), evaluated on the fields of every class, accepts the canonical word and rejects every word that differs in one fixed field, fields whose '
           'pattern is 0 included. D11: ppc_mn.__init__ constructs the bit-field objects of each instruction in that call.',
    'C19': ' D8: an immediate beside an unsized memory operand is typed by the size of the register operand (arg_set_numpy_imm evaluated on the operand lists both parsers deliver).',
}
TECH3 = {
    'C05': '; abstract interpretation of the simplifier source on a finite expression family generated from the rule shapes (checker-side evaluator, no repository code imported)',
    'C06': '; the simplifier evaluated from its source on a finite expression family; abstract interpretation of the machine classes (mpool, eval_abs) from their source on a finite family of instruction histories against a concrete byte-level reference execution (checker-side evaluator, nothing of the repository imported)',
    'C07': '; the simplifier evaluated from its source on address spellings and concatenations; abstract interpretation of the machine classes (mpool, eval_abs) from their source on a finite family of instruction histories against a concrete byte-level reference execution (checker-side evaluator, nothing of the repository imported)',
    'C13': '; idempotence and order-insensitivity evaluated from the simplifier source on a finite expression family',
    'C14': '; interpretation of the class source on the boundary domain spanned by the class declarations',
    'C15': '; interpretation of the node-class source on a finite expression family (implications only)',
    'C16': '; interpretation of get_r / get_w on a finite expression family against witnessed dependencies',
    'C10': '; call-chain resolution for frame introspection in error callbacks',
    'C12': '; alias analysis of tables handed out by lookup methods and of cached results',
    'C17': '; finite evaluation of intsize / getdstflow / get_im_fmt and of the operand loop of _dis on immediate kind x operand size x boundary bytes',
    'C01': '; finite evaluation of the operand loop of _dis on immediate kind x operand size x address size x boundary bytes',
    'C09': '; finite evaluation of the AT&T grammar actions and of mnemo_from_att on branch operands',
    'C18': '; finite evaluation of the class matcher; freshness analysis of per-instance field objects',
}

# round 8 of the third session
ADDED4 = {'C01': ' D11: rendering and the flow-metadata methods change nothing reachable from the instruction (shared with C09.D11). D12: dict_to_ad, evaluated on every segment override x address shape, shows the override (es is segment number 0). D3 evaluates get_afs on the ModRM tables init_pre_modrm builds: every ModRM byte of every addressing mode consumes the SIB byte and the displacement its entry names.', 'C02': ' D12: AT&T `ljmp $seg, $off` / `lcall $seg, $off` reach the EA / 9A rows as offset, segment.', 'C04': ' D17: result, CF, OF, ZF, SF and PF of add / adc / sub / sbb / cmp / neg / inc / dec / xadd / cmpxchg, evaluated from the lifted assignments on boundary operands x carry-in at 8, 16 and 32 bits, equal the IA-32 definition (a call site of D2 whose operands cannot be traced through the locals is decided there).', 'C05': ' D12: the simplifier run on the node classes as written (expression.py and expression_helper.py interpreted together, their own == deciding the fixpoint) keeps width and value for every family member that holds a signed constant and every sixth member.', 'C06': ' D5 also evaluates the << / >> / a>> evaluators on counts below, at and above the width (the IR shifts are not masked).', 'C07': ' D13: substract_mems, evaluated on cell width x store width x byte offset (all overlapping placements), leaves exactly the uncovered bytes of the old cell, each at its address with its bits.', 'C09': ' D8 covers the far jump / call (offset, segment order). D13: dict_to_ad renders the override of every segment in both syntaxes.', 'C11': " D7: the lifter's tables hold no one-shot iterator (shared with C12.D15).", 'C12': ' D14: a rejected decode leaves the stream at its offset, offset 0 included (the entry point is always evaluated; shared with C10.D4). D15: no module- or class-level table read inside a function holds a one-shot iterator (map / filter / zip / reversed / generator).', 'C13': ' D12: order-insensitivity on the node classes as written, each spelling simplified in a fresh interpretation of both modules and again after other calls in one interpretation (module-level caches included), operands with coinciding hashes included.', 'C18': ' D10 also evaluates the dispatcher class_from_op on a valid word followed by a word that differs in one fixed field, against a fresh dispatcher (no answer remembered under a partial key). D3 evaluates the default field extract / insert pair on 9 layouts.', 'C19': " D9: AT&T test / xchg with the memory operand written first: mnemo_from_att hands the caller's list back with the memory operand first."}

ADDED5 = {
    'C01': ' D10 also: the byte forms of the string instructions keep their name and byte operands under the operand-size prefix.',
    'C02': ' D2 also: ad_to_generic on boundary displacements. D13: no parsing table hands out an object it keeps (result-cache verdict: sound when stored and returned objects are copies).',
    'C03': ' D6: ad_to_generic on boundary displacements. D11: parsing tables and result caches (shared with C02.D13).',
    'C06': ' D12: copy() of the memory pool carries every attribute the pool methods update and shares no container they change in place (shared with C12.D16).',
    'C07': ' D14: copy() of the memory pool (shared with C12.D16).',
    'C08': ' D9: operand expressions kept with an instruction or in a table are computed only from what selects their slot (owner, key, miss test): segm_to_do cannot feed a kept value (shared with C12.D17).',
    'C09': ' D14: ad_to_generic on boundary displacements (shared with C02.D2).',
    'C10': ' D11: the AT&T suffix tables (shared with C09.D1).',
    'C12': ' D7 result-cache verdict (a table only one function fills is sound when what it stores and what it returns are copies, a violation when the stored object escapes and a caller edits it). D16: copy() of a state class carries every updated attribute, no in-place container aliased. D17: memoised values are computed from what selects their slot only.',
    'C17': ' D7: every store of a segment override into a decoded operand: guards evaluated on the register / immediate / memory operand kinds; the key must not change what is_imm / is_reg / is_address answer, and some store must reach memory operands.',
    'C18': ' D7 findings are keyed by cause (hint / ignored BO bits; BI under a condition-ignoring BO) or by field, BO value and CR0 / CRn for every other word.',
    'C19': ' D10: parsing tables and result caches (shared with C02.D13).',
}

ADDED6 = {
    'C01': ' D13: x86_mn.__str__ interpreted as a whole (Intel and AT&T) on every decoder form with an immediate: immediates that differ in a low bit, in bits 3-7 or in the top bit give different texts.',
    'C02': ' D14: asm_candidates run from its first statement until it sets the operand-size mode, on 25 lines with 16 / 32-bit registers, 16-bit memory operands and segment registers: 0x66 exactly when the general register operand is 16 bits wide.',
    'C03': ' D12: rendering determines the immediate (shared with C01.D13). D3 also on the same address written with its registers in the other order.',
    'C04': ' D18: the effective address dict_to_Expr builds, evaluated on merged base / index coefficients (3, 5, 9), two registers, displacements, both address sizes.',
    'C05': ' The family also holds complement-of-sum shapes (!(!X + c)) alone and inside longer xors.',
    'C06': ' D13: eval_ExprCond interpreted on 28 kinds of evaluated condition: the returned node has the value of the selected arm under every valuation.',
    'C08': ' D10: an MMX/SSE destination register the architecture merges into is among the reads, whichever semantic function lifts the row (explicit merge / full-overwrite tables; other rows give a note). The form model has +r0 forms.',
    'C10': ' D12: no constant-index read of a list the decoder starts empty and fills in some branches only, unless a test of the list, an IndexError handler or an unconditional fill is on the way.',
    'C11': ' The form model has +r0 forms (register number 0 in opcode + register rows: both operands are then one register).',
    'C12': ' D18: no container created once in a class body is changed in place through self unless __init__ gives every instance its own.',
    'C13': ' Order groups for the complement-of-sum shapes.',
    'C17': ' The row model binds addop calls like python does (keywords; defaults evaluated once and shared by the calls that omit the argument).',
    'C18': ' D8 vectors include the sign-boundary values of every field of four bits or more.',
    'C19': ' D11: the Intel SIZE PTR seg:[formula] action on every segment x address shape, order twins included (shared with C03.D3).',
}

ADDED7 = {
    'C02': ' D1 also: the byte-emission loop of asm_all_candidate is evaluated from its source on 6 displacement kinds x 8 immediate lists x 2 operand-size modes: prefix + opcode + every value little-endian in the width and signedness of its checked size, back to back, symbol offsets at the values. D2: check_imm_size is evaluated on 6 size tokens x 20 boundary values (refused exactly outside the range, returned in the class of that width); D3: the 16/32-bit vote is decided by interpreting asm_candidates up to the decision (helper methods followed). D15: the direct-offset rows (A0-A3) accept an absolute address only (accepting branch evaluated on register coefficients 1, 2, 3, 4, 5, 8, 9).',
    'C03': ' D13: the segment override of a memory operand stands in front of the mandatory prefix of an MMX/SSE opcode in the prefixes asm_candidates collects (interpreted up to the operand-size decision on 36 lines). D2 / D3 follow the helpers asm_candidates calls; the segm handling and the movlps / movhlps renaming are evaluated, not matched.',
    'C04': ' D19: an assignment to a part of a register keeps the other bits and puts every bit of the value at its place, whatever the kind of the value (ExprAff.__init__ evaluated on slice destinations x value kinds - opaque value, slice, concatenations of 2 / 8 pieces, nested - and compared bit by bit; shared with C11.D5). D20: cbw / cwde / cwd / cdq lifted under their operand size and evaluated on boundary accumulators.',
    'C06': ' D14: every address looked up in the table of stored cells is simplified on every assignment that reaches the lookup (shared with C07.D15). D15: eval_ExprOp interpreted as a whole on constant operands (654 operations): a shift / rotate whose count or carry has another width than the value gives a constant of the value\'s width equal to the operator\'s evaluator; every interpreted operator on operands of one width gives that width.',
    'C07': ' D15: every address looked up in the table of stored cells (`X in pool_mem`, `pool_mem[X]`, X handed to a lookup method) is simplified on every reaching assignment, loop-carried ones included. D16: every binding of the list of overlapped cells a store subtracts from is get_mem_overlapping(store), or [] under an equality of the widths.',
    'C09': ' D15: both renderings determine the immediate (x86_mn.__str__ interpreted on every decoder form with an immediate; shared with C01.D13).',
    'C10': ' D1: a raise of get_afs is dead only if get_afs, evaluated on every (ModRM, SIB) pair of the four tables init_pre_modrm builds (evaluated statically), returns an operand.',
    'C11': ' D5 compares the rewritten source bit by bit (bit provenance) for opaque, sliced, concatenated and nested values: a re-implementation that splices pieces at the right offsets is accepted, one that drops the offset is reported.',
    'C12': ' D17 also recognises the try / except AttributeError attribute memo and a table memo kept on the instance (`if K in self.T: return self.T[K]`), and follows control dependence (a value assigned under a test or in a loop over a parameter is computed from that parameter) and tuple targets.',
    'C13': ' Order groups whose operands first differ in the value of a constant leaf (memory displacements incl. the top-bit boundary, masks, arms of a conditional, shift counts). sorted(key=functools.cmp_to_key(f)) is interpreted.',
    'C15': ' The family holds concatenations that are directly a piece of another concatenation (alone, under +, as address, sliced, as arm).',
    'C16': ' D6: a value memoised on a pattern / expression node is computed from that node only (shared with C12.D17). D7: MatchExpr interpreted with the node classes of expression.py on pattern objects matched before with other wildcard lists gives the answer of a fresh pattern (112 calls). D2 evaluates pairs its data-only nodes cannot follow with the interpreted classes, and a binding for a node that is not one of the wildcards is unsound.',
    'C17': ' D2 also: get_im_fmt asked the 16 questions of one table object in two orders answers like a fresh object (no answer depends on what was decoded before).',
    'C19': ' D12: subtraction groups to the left in both operand grammars (productions read from the p_ docstrings: an ambiguous E : E - E needs a left entry shared with +, a stratified grammar recurses on the left).',
}

ADDED8 = {
    'C01': ' D14: the operand loop of _dis evaluated on every immediate kind x (w8, se) combination of the live cells x both operand sizes x boundary byte patterns: bytes consumed, width and value (sign- / zero-extended) of the immediate operand are the architectural ones; D3 decides the byte counts under operand size x address size and the moffs operand by the same evaluation (the statement-fragment evaluations were retired).',
    'C02': ' D16: a segment override in SIZE PTR seg:[..] is dropped only when every encoding of the address has that segment as its default (p_ptrformula_2 evaluated on segment x address shape, ebp / esp as base, as scaled index, beside another unscaled register). D17: the fsub / fsubr, fdiv / fdivr exchange of AT&T syntax (att_bug_fsub_fdiv evaluated on 8 mnemonics x 7 operand lists): exchanged for the popping forms and for a destination %st(i), i != 0, only.',
    'C03': ' D15: the operand-size vote of asm_candidates on the renderings of canonical bytes (shared with C02.D14). D14: the size _dis gives the memory operand of every /digit row is accepted by check_size_modif for the modifiers of the same row (both evaluated; 185 row variants).',
    'C04': ' D12 also evaluates shld / shrd with one register named twice.',
    'C06': ' D16: mpool / eval_abs interpreted from their source (with the node classes and the simplifier) on 30 instruction histories - cells read at their own width, narrower, wider, from the middle, across cells, through constant and symbolic addresses, constants through every shift / rotate evaluator: registers and probed cells, valued on three initial states, equal the concrete byte-level execution of the history.',
    'C07': ' D17: the same machine interpretation (shared with C06.D16) on histories with stores that cover, split or abut earlier stores, reads between stores, one address at two widths, parallel assignments, an address register updated between store and read.',
    'C08': ' D10 also lifts every MMX/SSE reg, r/m row with one register named twice, following the dispatch of get_instr_expr_args per operand identity: the register must be read unless the opcode is a dependency-breaking idiom (pxor, pandn, psub*, pcmpgt*, pcmpeq*, xorps/pd, andnps/pd: table keyed by opcode).',
    'C09': ' D16: branch operands in AT&T syntax - the marks the grammar actions `argument : address` / `argument : TIMES address` leave (evaluated) and what mnemo_from_att makes of them for call / jmp / calll / jmpl / jcc / loop: a plain address is the destination, a starred address stays a 32-bit memory operand. D15 also: the AT&T text of a direct branch carries no `$`.',
    'C10': ' D13: the operand-matching loop of asm_candidates evaluated for every row with an immediate x 13 operand lists (none, too few, too many, wrong kinds): accepted or refused, no Python exception escapes.',
    'C13': ' Order groups with 9 and 17 operands (flat, nested to the left, to the right, cancelling pair kept together): the result does not depend on how many operands one node holds.',
    'C15': ' The law family holds null selectors (a segment selector that is the constant 0) and zero leaves in every node kind, and expressions next to their trivial wrappers (full-width slice, one-piece concatenation) compared in both orders.',
    'C17': ' D8: the displacement as the decoder reads it - the operand loop of _dis evaluated on every immediate kind x operand size x boundary bytes (shared with C01.D14); the text clauses of D2 about s32 narrowing and get_im_fmt were retired for it. D9: addop interpreted on every row that declares a control-flow attribute: every decode cell the row expands to (EB beside E9) carries it.',
}

PENDING = {}

ALL = ['C%02d' % i for i in range(1, 20)]


def main():
    checks = []
    for pid in ALL:
        if pid not in CLAIMS:
            continue
        cat, tech, text, note = CLAIMS[pid]
        checks.append({
            'property_id': pid,
            'quick_cmd': './check %s --tier quick' % pid,
            'thorough_cmd': './check %s --tier thorough' % pid,
            'evidence_file': '/verif/evidence/%s.json' % pid,
            'replay_cmd_template': './check %s --replay {path}' % pid,
            'engine': 'sa',
            'level_claimed': {'category': cat, 'text': text + ADDED.get(pid, '') + ADDED3.get(pid, '') + ADDED4.get(pid, '') + ADDED5.get(pid, '') + ADDED6.get(pid, '') + ADDED7.get(pid, '') + ADDED8.get(pid, ''), 'design_ref': 'DESIGN.md section 5 and 12, %s' % pid},
            'level_note': note,
            'technique': tech + TECH3.get(pid, ''),
        })
    na = []
    for pid in ALL:
        if pid not in CLAIMS:
            na.append({'property_id': pid,
                       'reason': PENDING.get(pid, 'no static check registered yet for this property (see DESIGN.md section 5 for the planned structural clauses)')})
    m = {
        'version': 1,
        'setup_cmd': 'true',
        'hooks': {
            'guard': 'MIASMX_VERIF',
            'enable': 'none: pure source analysis, nothing in /repo is instrumented; the guard variable is unused',
            'baseline_off_cmd': 'cd /repo && /venv/bin/python -m pytest -ra -q -p no:cacheprovider --timeout=900 --continue-on-collection-errors',
            'source_commits': [],
            'add_only': True,
        },
        'engines': [{'name': 'sa', 'path': '/verif/sa', 'serves_properties': sorted(CLAIMS),
                     'kind_free_text': 'repository-specific static analyses over Python ast: resolved source model, constant-table '
                                       'evaluation, path-shape extraction, field/effect matrices, lifter IR template derivation'}],
        'checks': checks,
        'not_applicable': na,
        'notes': 'All checks are static (ast-based) and read /repo\'s working tree on every run; exit 2 + ANALYSIS-ERROR means the '
                 'analysis could not decide (anchor vanished / unmodelled construct), never a silent pass. Known genuine defects are '
                 'listed in /verif/known_findings.json. Thorough tier additionally runs the per-property mutant battery on scratch copies.',
    }
    with open(os.path.join(VERIF, 'MANIFEST.json'), 'w') as f:
        json.dump(m, f, indent=1)
    print('MANIFEST.json: %d checks, %d not_applicable' % (len(checks), len(na)))


if __name__ == '__main__':
    main()
