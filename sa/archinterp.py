"""Partial evaluation of plain table-driven functions of ia32_arch.py (mnemo_to_att, mnemo_from_att, ...) with the
E4 interpreter: the module's functions become interpretable values; every table that the module builds at import
time is seeded from the static model (X86Model.env), never from an import."""
from .lifter import Interp, Ctor, ModVal
from .liftforms import NativeFunc
from .x86table import model as x86model


def arch_interp(ctx):
    X = x86model(ctx)
    E = X.env
    afs = X.afs
    seeds = {}
    for k, v in E.items():
        if isinstance(v, (str, int, list, tuple, dict, bool)) or v is None:
            seeds[k] = v
    seeds['x86_afs'] = afs
    seeds['is_reg'] = NativeFunc(lambda d: not (d.get(afs.ad)) and afs.imm not in d and afs.symb not in d)
    seeds['is_imm'] = NativeFunc(lambda d: not d.get(afs.ad) and (afs.imm in d or afs.symb in d)
                                 and all(k in (afs.imm, afs.size, afs.ad, afs.symb, 'txt') for k in d))
    seeds['is_address'] = NativeFunc(lambda d: bool(d.get(afs.ad)))
    seeds['tab_int_size'] = dict((('ctor', 'uint%d' % n), n) for n in (8, 16, 32, 64))
    seeds['tab_int_size'].update(dict((('ctor', 'int%d' % n), n) for n in (8, 16, 32, 64)))
    from .lifter import Namespace
    seeds['x86mndb'] = Namespace('x86mndb', {'mnemo_lookup': dict((k, True) for k in X.lookup)})
    I = Interp(X.arch, afs, {}, set(), seeds=seeds)
    return X, I
