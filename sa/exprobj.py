"""The node classes of expression.py interpreted from their source (shared by C15, C16, C05, C13).

`World(ctx)` turns every class of miasmx/expression/expression.py into a checker-side class whose methods are the FunctionDefs of the
source, executed by the consteval evaluator: constructors, __eq__ / __hash__ / __ne__ / __contains__ / __getitem__ and the arithmetic
operators (through trampolines, so that `a == b`, `hash(a)`, `a in d`, `-a`, `a[0:8]` inside evaluated code run the repository's
definitions), get_size, get_r / get_w, copy, visit (including the `visit = visit_chk(visit)` wrappers, which are closures), replace_expr,
canonize.  Nothing is imported from the repository; the fixed-width integers are the model of simpeval (C14 decides modint.py).

The laws of C15 / C16 are then decided on the expression family of simpeval (plus segment selectors of every node kind, assignments,
signed / unsigned spellings of one constant): implications only (equal => equal hash, value and width; copy equal and disjoint; identity
visit equal; substitution and renaming against an independent definition; read sets against *witnessed* dependencies), so that a correct
re-implementation of any method cannot be reported.
"""
import ast
import sys

from .core import AnalysisError
from .consteval import Evaluator, Obj, Native, NotConst, PyRaise, Closure, Opaque
from . import simpeval as SE

DUNDERS_1 = ('__neg__', '__invert__', '__hash__')
DUNDERS_2 = ('__eq__', '__ne__', '__lt__', '__contains__', '__getitem__', '__add__', '__sub__', '__mul__', '__xor__', '__and__', '__or__', '__lshift__', '__rshift__')
NODE_NAMES = ('ExprInt', 'ExprId', 'ExprMem', 'ExprOp', 'ExprSlice', 'ExprCond', 'ExprCompose', 'ExprAff')


from .srcclasses import SrcObj, ClassWorld


class World(ClassWorld):
    def __init__(self, ctx):
        self.ctx = ctx
        self.hlp = ctx.mod('expr_helper')
        env = dict(SE.INT_CLASSES)
        env['str'] = Native(lambda x='': repr(x) if isinstance(x, Obj) else str(x))
        ClassWorld.__init__(self, ctx.mod('expression'), env)
        for n in NODE_NAMES + ('Expr',):
            if n not in self.classes:
                raise AnalysisError('expression.%s: class not found or not evaluable' % n)

    # ------------------------------------------------------------------ conversion native model <-> interpreted instances
    def from_native(self, t):
        C = self.classes
        k = t.KIND
        if k == 'Int':
            return C['ExprInt'](t.f('arg'))
        if k == 'Id':
            return C['ExprId'](t.f('name'), t.f('size'), t.f('is_term'), t.f('is_reg'))
        if k == 'Mem':
            sg = t.f('segm')
            return C['ExprMem'](self.from_native(t.f('arg')), t.f('size'), self.from_native(sg) if isinstance(sg, SE.Node) else sg)
        if k == 'Op':
            return C['ExprOp'](t.f('op'), *[self.from_native(a) for a in t.f('args')])
        if k == 'Slice':
            return C['ExprSlice'](self.from_native(t.f('arg')), t.f('start'), t.f('stop'))
        if k == 'Cond':
            return C['ExprCond'](self.from_native(t.f('cond')), self.from_native(t.f('src1')), self.from_native(t.f('src2')))
        if k == 'Compose':
            return C['ExprCompose']([(self.from_native(p[0]), p[1], p[2]) for p in t.f('args')])
        if k == 'Aff':
            return C['ExprAff'](self.from_native(t.f('dst')), self.from_native(t.f('src')))
        raise AnalysisError('from_native: %s' % k)

    def to_native(self, o):
        if not isinstance(o, SrcObj):
            raise AnalysisError('to_native: %r is not an expression' % (o,))
        n = type(o)._cname
        A = o.__dict__['_attrs']

        def fld(k):
            if k not in A:
                raise PyRaise('%s has no field %s' % (n, k), 'AttributeError')
            return A[k]
        if n == 'ExprInt':
            return SE.ExprInt(fld('arg'))
        if n == 'ExprId':
            return SE.ExprId(fld('name'), fld('size'), getattr(o, 'is_term'), getattr(o, 'is_reg'))
        if n == 'ExprMem':
            sg = fld('segm')
            return SE.ExprMem(self.to_native(fld('arg')), fld('size'), self.to_native(sg) if isinstance(sg, SrcObj) else sg)
        if n == 'ExprOp':
            return SE.ExprOp(fld('op'), *[self.to_native(a) for a in fld('args')])
        if n == 'ExprSlice':
            return SE.ExprSlice(self.to_native(fld('arg')), fld('start'), fld('stop'))
        if n == 'ExprCond':
            return SE.ExprCond(self.to_native(fld('cond')), self.to_native(fld('src1')), self.to_native(fld('src2')))
        if n == 'ExprCompose':
            return SE.ExprCompose([(self.to_native(p[0]), p[1], p[2]) for p in fld('args')])
        if n == 'ExprAff':
            return SE.ExprAff(self.to_native(fld('dst')), self.to_native(fld('src')))
        raise AnalysisError('to_native: class %s' % n)

    def nodes(self, o, acc=None):
        """every node object reachable from o (identity list)"""
        acc = [] if acc is None else acc
        if not isinstance(o, SrcObj):
            return acc
        acc.append(o)
        for v in o.__dict__['_attrs'].values():
            if isinstance(v, SrcObj):
                self.nodes(v, acc)
            elif isinstance(v, (list, tuple)):
                for x in v:
                    if isinstance(x, SrcObj):
                        self.nodes(x, acc)
                    elif isinstance(x, (list, tuple)):
                        for y in x:
                            if isinstance(y, SrcObj):
                                self.nodes(y, acc)
        return acc


# ----------------------------------------------------------------------------------------------- the family of the laws
def law_family():
    """Native expressions: a slice of the simplifier family plus shapes aimed at the node methods."""
    A = SE.atoms()
    x, y, z, w, v, b, c, f, fs, gs = [A[n] for n, _ in SE.NAMES]
    C, SC, Sl, Op, Comp = SE.C, SE.SC, SE.Sl, SE.Op, SE.Comp
    Mem, Cond, Aff = SE.ExprMem, SE.ExprCond, SE.ExprAff
    fam = [e for i, (label, e) in enumerate(SE.family()) if i % 9 == 0]
    fam += [x, y, b, f, C(0), C(1), C(0xFFFFFFFF), SC(-1), C(0xFF, 8), SC(-1, 8), C(1, 1), SE.ExprId('x', 16), SE.ExprId('x', 32, is_reg=True), SE.ExprId('x', 32, is_term=True),
            Mem(x), Mem(x, 8), Mem(x, 32, fs), Mem(x, 32, gs), Mem(x, 32, C(0x33, 16)), Mem(x, 32, Sl(y, 0, 16)), Mem(x, 32, Op('+', fs, C(1, 16))), Mem(x, 32, Cond(f, fs, gs)), Mem(x, 32, Mem(y, 16)),
            Mem(Op('+', x, y)), Mem(Mem(x)), Mem(Op('+', Mem(x, 32, fs), C(4))), Mem(Sl(Comp((w, 0, 16), (v, 16, 32)), 0, 32), 8),
            Op('+', x, y), Op('+', y, x), Op('+', x, y, z), Op('+', x, y, y), Op('+', x), Op('-', x), Op('-', x, y), Op('*', x, y), Op('+', x, C(1)), Op('+', x, C(1, 32), C(2)), Op('+', Op('+', x, y), z),
            Op('parity', x), Op('==', x, y), Op('>>', x, C(3, 8)), Op('<<<', b, C(3, 8)), Op('+', Mem(x), Mem(y, 32, fs)), Op('^', Sl(x, 0, 8), b, C(1, 8)),
            Sl(x, 0, 8), Sl(x, 8, 16), Sl(x, 0, 16), Sl(y, 0, 8), Sl(Mem(x), 0, 8), Sl(Comp((b, 0, 8), (c, 8, 16)), 7, 8), Sl(Comp((b, 0, 8), (c, 8, 16)), 7, 16), Sl(Comp((b, 0, 8), (c, 8, 16)), 0, 8),
            Sl(Comp((f, 0, 1), (Sl(x, 0, 8), 1, 9)), 0, 4), Sl(Comp((Mem(x, 8), 0, 8), (c, 8, 16)), 7, 9), Sl(Comp((b, 0, 8), (Mem(y, 8, fs), 8, 16)), 4, 12), Sl(Op('+', x, y), 4, 12),
            Sl(Cond(f, x, y), 0, 8), Sl(Sl(x, 4, 28), 4, 8),
            Cond(x, y, z), Cond(x, y, y), Cond(x, x, y), Cond(f, Mem(x), Mem(y)), Cond(Mem(x, 8), b, c), Cond(Op('==', x, y), C(1), C(0)),
            Comp((b, 0, 8), (c, 8, 16)), Comp((c, 0, 8), (b, 8, 16)), Comp((b, 0, 8), (Sl(x, 8, 32), 8, 32)), Comp((Sl(x, 0, 8), 0, 8), (Sl(y, 0, 24), 8, 32)), Comp((Sl(x, 0, 16), 0, 16), (Sl(y, 0, 16), 16, 32)),
            Comp((Mem(x, 8), 0, 8), (Mem(y, 8, fs), 8, 16)), Comp((x, 0, 32)), Comp((f, 0, 1), (Sl(x, 1, 32), 1, 32)), Comp((C(1, 8), 0, 8), (b, 8, 16), (w, 16, 32)),
            # a concatenation that is directly a piece of another one (a traversal that flattens or drops a level changes the node)
            Comp((Comp((b, 0, 8), (c, 8, 16)), 0, 16), (w, 16, 32)), Comp((w, 0, 16), (Comp((b, 0, 8), (c, 8, 16)), 16, 32)), Comp((Comp((w, 0, 16), (v, 16, 32)), 0, 32)),
            Op('+', x, Comp((w, 0, 16), (Comp((b, 0, 8), (Sl(y, 8, 16), 8, 16)), 16, 32))), Mem(Comp((Comp((b, 0, 8), (c, 8, 16)), 0, 16), (Sl(x, 16, 32), 16, 32)), 8),
            Sl(Comp((Comp((b, 0, 8), (c, 8, 16)), 0, 16), (w, 16, 32)), 4, 20), Cond(f, Comp((w, 0, 16), (Comp((b, 0, 8), (c, 8, 16)), 16, 32)), x),
            Aff(x, Op('+', y, C(1))), Aff(x, x), Aff(Mem(x), y), Aff(Mem(x, 32, fs), Op('+', Mem(y), z)), Aff(Mem(Op('+', x, y), 8, gs), b), Aff(b, Sl(x, 0, 8)), Aff(f, Sl(x, 31, 32)),
            Aff(Mem(x, 32, Sl(z, 0, 16)), y), Aff(x, Mem(Mem(y))), Aff(Mem(Mem(x)), y), Aff(Mem(x), Op('+', Mem(x), y)), Aff(Mem(x, 32, fs), Mem(x, 32, fs)), Aff(Mem(x, 8), Sl(Mem(x, 8), 0, 8)),
            Aff(Mem(Op('+', x, C(4))), Op('^', Mem(Op('+', x, C(4))), Mem(x)))]
    # operands of one shape whose inner constants differ only in width (key_expr of a constant ignores the width): canonize must keep both
    for op in ('&', '|', '+'):
        s8, s32 = Op('<<', x, Op('+', C(0xF9, 8), C(0x0B, 8))), Op('<<', x, Op('+', C(0xF9), C(0x0B)))
        fam += [Op(op, s8, s32), Op(op, s32, s8), Op(op, Cond(Op('+', C(0xFF, 8), C(1, 8)), x, y), Cond(Op('+', C(0xFF), C(1)), x, y)), Op(op, x, x), Op(op, x, y, x)]
    # leaves that a truth test could take for "absent": a segment selector that is the constant 0 (the null selector), a zero displacement, a zero condition, an empty-looking slice
    z16 = C(0, 16)
    fam += [Mem(x, 32, z16), Mem(x, 8, z16), Mem(Op('+', x, y), 32, z16), Op('+', Mem(x, 32, z16), y), Sl(Mem(x, 32, z16), 0, 8), Cond(f, Mem(x, 32, z16), y), Comp((Mem(x, 8, z16), 0, 8), (c, 8, 16)),
            Aff(Mem(x, 32, z16), y), Aff(y, Mem(x, 32, z16)), Mem(Mem(x, 32, z16)), Mem(x, 32, SC(0, 16)), Mem(C(0)), Mem(C(0), 32, z16), Cond(C(0), x, y), Cond(x, C(0), y), Op('+', C(0), x),
            Comp((C(0, 8), 0, 8), (b, 8, 16)), Aff(x, C(0))]
    # an expression next to its trivial wrappers (the slice of its full width, the concatenation of one piece): neighbours in the list are compared in both orders, so an equality
    # that identifies a wrapper with its content on one side only (or without the same hash) is met
    fam += [z, Sl(z, 0, 32), Comp((z, 0, 32)), w, Sl(w, 0, 16), Comp((w, 0, 16)), c, Sl(c, 0, 8), Mem(z), Sl(Mem(z), 0, 32), Op('*', z, y), Sl(Op('*', z, y), 0, 32), Cond(f, z, y), Sl(Cond(f, z, y), 0, 32)]
    # no assignments to slices here (ExprAff rewrites them in its constructor: C11 decides that)
    out, seen = [], set()
    for e in fam:
        if e.key() not in seen:
            seen.add(e.key())
            out.append(e)
    return out


def value_over(t, env, memover):
    """value with memory cells forced: memover maps the key of an ExprMem node to its value (cells held fixed whatever their address evaluates to)"""
    if t.KIND == 'Mem' and t.key() in memover:
        return memover[t.key()] & ((1 << t.f('size')) - 1)
    if t.KIND in ('Int', 'Id'):
        return SE.value(t, env)
    if t.KIND == 'Aff':
        return value_over(t.f('src'), env, memover)
    # rebuild the node over evaluated children through constants
    k = t.KIND
    if k == 'Mem':
        return SE.value(SE.ExprMem(_const(value_over(t.f('arg'), env, memover), SE.size_of(t.f('arg'))), t.f('size'),
                                   _const(value_over(t.f('segm'), env, memover), SE.size_of(t.f('segm'))) if isinstance(t.f('segm'), SE.Node) else None), env)
    if k == 'Op':
        return SE.value(SE.ExprOp(t.f('op'), *[_const(value_over(a, env, memover), SE.size_of(a)) for a in t.f('args')]), env)
    if k == 'Slice':
        return (value_over(t.f('arg'), env, memover) >> t.f('start')) & ((1 << (t.f('stop') - t.f('start'))) - 1)
    if k == 'Cond':
        return value_over(t.f('src1'), env, memover) if value_over(t.f('cond'), env, memover) else value_over(t.f('src2'), env, memover)
    if k == 'Compose':
        v = 0
        lo = min(p[1] for p in t.f('args'))
        for p in t.f('args'):
            v |= (value_over(p[0], env, memover) & ((1 << (p[2] - p[1])) - 1)) << (p[1] - lo)
        return v
    raise AnalysisError('value_over: %s' % k)


class _Raw(SE.Node):
    """a constant of any width (only for evaluation)"""
    FIELDS = ('val', 'size')
    KIND = 'Int'

    def __init__(self, val, size):
        SE.Node.__init__(self, val=val, size=size)


def _const(v, size):
    if size in SE.U:
        return SE.ExprInt(SE.U[size](v))
    # odd widths: embed in a slice of a wider constant
    for s in (8, 16, 32, 64, 128):
        if s >= size:
            return SE.ExprSlice(SE.ExprInt(SE.U[s](v & ((1 << size) - 1))), 0, size)
    raise AnalysisError('constant of %d bits' % size)


def mem_nodes(t, acc=None):
    acc = [] if acc is None else acc
    if not isinstance(t, SE.Node):
        return acc
    if t.KIND == 'Mem' and not any(t == m for m in acc):
        acc.append(t)
    for k in t.FIELDS:
        v = t.f(k)
        if isinstance(v, SE.Node):
            mem_nodes(v, acc)
        elif isinstance(v, (list, tuple)):
            for x_ in v:
                if isinstance(x_, SE.Node):
                    mem_nodes(x_, acc)
                elif isinstance(x_, (list, tuple)):
                    for y_ in x_:
                        mem_nodes(y_, acc)
    return acc


_CACHE = {}


def world(ctx):
    if id(ctx) not in _CACHE:
        _CACHE[id(ctx)] = World(ctx)
    return _CACHE[id(ctx)]


# ----------------------------------------------------------------------------------------------- the laws
def _is_variant(t):
    """contains an identifier named like a family identifier but of another size / flag (eq-only shapes)"""
    sizes = dict(SE.NAMES)
    if t.KIND == 'Id':
        return t.f('name') in sizes and (t.f('size') != sizes[t.f('name')] or t.f('is_reg') or t.f('is_term'))
    for k in t.FIELDS:
        v = t.f(k)
        if isinstance(v, SE.Node) and _is_variant(v):
            return True
        if isinstance(v, (list, tuple)):
            for x_ in v:
                if isinstance(x_, SE.Node) and _is_variant(x_):
                    return True
                if isinstance(x_, (list, tuple)) and any(isinstance(y_, SE.Node) and _is_variant(y_) for y_ in x_):
                    return True
    return False


def _rename(t, frm, to):
    k = t.KIND
    if k == 'Id':
        return SE.ExprId(to, t.f('size'), t.f('is_term'), t.f('is_reg')) if t.f('name') == frm else t
    if k == 'Int':
        return t
    if k == 'Mem':
        sg = t.f('segm')
        return SE.ExprMem(_rename(t.f('arg'), frm, to), t.f('size'), _rename(sg, frm, to) if isinstance(sg, SE.Node) else sg)
    if k == 'Op':
        return SE.ExprOp(t.f('op'), *[_rename(a, frm, to) for a in t.f('args')])
    if k == 'Slice':
        return SE.ExprSlice(_rename(t.f('arg'), frm, to), t.f('start'), t.f('stop'))
    if k == 'Cond':
        return SE.ExprCond(_rename(t.f('cond'), frm, to), _rename(t.f('src1'), frm, to), _rename(t.f('src2'), frm, to))
    if k == 'Compose':
        return SE.ExprCompose([(_rename(p[0], frm, to), p[1], p[2]) for p in t.f('args')])
    return SE.ExprAff(_rename(t.f('dst'), frm, to), _rename(t.f('src'), frm, to))


def _val(t, env):
    if t.KIND == 'Aff':
        return (_val(t.f('dst'), env) if t.f('dst').KIND != 'Mem' else SE.value(t.f('dst').f('arg'), env), SE.value(t.f('src'), env))
    return SE.value(t, env)


def laws(ctx):
    """Evaluate the laws once per context: {law: [(instance label, ok, message)]} with counts."""
    key = ('laws', id(ctx))
    if key in _CACHE:
        return _CACHE[key]
    W = world(ctx)
    fam = law_family()
    objs = []
    for e in fam:
        try:
            objs.append(W.from_native(e))
        except PyRaise as ex:
            raise AnalysisError('expression.py: constructing %s raises %s' % (SE.show(e), ex.exc_name))
    vals = SE.valuations()[:24]
    out = dict((k, []) for k in ('eq', 'copy', 'visit-id', 'visit-rename', 'replace', 'canonize', 'get_size', 'get_r', 'get_w', 'get_expr_ids'))
    ident = Native(lambda n: n)

    def rec(law, label, ok, msg=''):
        out[law].append((label, ok, msg))

    def truth(st_r):
        st, r = st_r
        return (st == 'ok' and bool(r)), st, r
    # ---- equality, hash, value
    n = len(fam)
    for i, (e, o) in enumerate(zip(fam, objs)):
        st, h = W.call((o, '__hash__'))
        if st != 'ok':
            rec('eq', 'hash(%s)' % e.KIND, False, 'hash(%s) %s %s' % (SE.show(e), st, h))
            continue
        o2 = W.from_native(e)
        t, st, r = truth(W.call((o, '__eq__'), o2))
        if not t:
            rec('eq', 'reflexive:%s' % e.KIND, False, '%s is not equal to an identically built expression (%s %s)' % (SE.show(e), st, r))
        else:
            rec('eq', 'reflexive:%s' % e.KIND, True)
        partners = [j for j in range(n) if j != i and (fam[j].KIND == e.KIND or abs(j - i) <= 2)]
        for j in partners:
            e2, p2 = fam[j], objs[j]
            t1, st1, r1 = truth(W.call((o, '__eq__'), p2))
            t2, st2, r2 = truth(W.call((p2, '__eq__'), o))
            lab = 'pair:%s' % e.KIND
            if st1 != 'ok' or st2 != 'ok':
                rec('eq', lab, False, '%s == %s %s %s' % (SE.show(e), SE.show(e2), st1 if st1 != 'ok' else st2, r1 if st1 != 'ok' else r2))
                continue
            if t1 != t2:
                rec('eq', lab + ':symmetry', False, '(%s == %s) is %s but (%s == %s) is %s' % (SE.show(e), SE.show(e2), t1, SE.show(e2), SE.show(e), t2))
                continue
            tn, stn, rn = truth(W.call((o, '__ne__'), p2))
            if stn == 'ok' and tn == t1:
                rec('eq', lab + ':ne', False, '(%s == %s) and (%s != %s) are both %s' % (SE.show(e), SE.show(e2), SE.show(e), SE.show(e2), t1))
                continue
            if t1:
                st_h, h2 = W.call((p2, '__hash__'))
                if st_h != 'ok' or h2 != h:
                    rec('eq', lab + ':hash', False, '%s == %s but their hashes differ (%s, %s)' % (SE.show(e), SE.show(e2), h, h2))
                    continue
                try:
                    same = (e.KIND == 'Aff') == (e2.KIND == 'Aff') and (_is_variant(e) or _is_variant(e2) or all(_val(e, env) == _val(e2, env) for env in vals)) \
                        and (e.KIND == 'Aff' or SE.size_of(e) == SE.size_of(e2))
                except SE.IllTyped:
                    same = True
                if not same:
                    rec('eq', lab + ':value', False, '%s == %s although they differ in width or value' % (SE.show(e), SE.show(e2)))
                    continue
            elif e.key() == e2.key() and type(e) is type(e2) and _strict_key(e) == _strict_key(e2):
                rec('eq', lab + ':structural', False, '%s and an identically built %s compare unequal' % (SE.show(e), SE.show(e2)))
                continue
            rec('eq', lab, True)
    # ---- copy
    for e, o in zip(fam, objs):
        lab = 'copy:%s' % e.KIND
        st, c = W.call((o, 'copy'))
        if st != 'ok' or not isinstance(c, SrcObj):
            rec('copy', lab, False, '%s.copy() %s %s' % (SE.show(e), st, c))
            continue
        t, st, r = truth(W.call((c, '__eq__'), o))
        if not t:
            rec('copy', lab, False, 'the copy of %s is %s, not equal to the original' % (SE.show(e), SE.show(W.to_native(c))))
            continue
        mine = set(id(x_) for x_ in W.nodes(o))
        shared = [x_ for x_ in W.nodes(c) if id(x_) in mine]
        if shared:
            rec('copy', lab + ':shared', False, 'the copy of %s shares the node %s with its original' % (SE.show(e), SE.show(W.to_native(shared[0]))))
            continue
        flags_ok = all(getattr(a_, 'is_term') == getattr(b_, 'is_term') for a_, b_ in zip(W.nodes(o), W.nodes(c)) if type(a_)._cname in ('ExprMem', 'ExprId'))
        if not flags_ok:
            rec('copy', lab + ':flag', False, 'the copy of %s does not carry the is_term flag of a node' % SE.show(e))
            continue
        rec('copy', lab, True)
    # ---- identity visit and renaming visit
    for e, o in zip(fam, objs):
        st, r = W.call((o, 'visit'), ident)
        lab = 'visit:%s' % e.KIND
        if st != 'ok' or not isinstance(r, SrcObj) or not truth(W.call((r, '__eq__'), o))[0]:
            rec('visit-id', lab, False, '%s.visit(identity) %s %s' % (SE.show(e), st, SE.show(W.to_native(r)) if isinstance(r, SrcObj) else r))
        else:
            rec('visit-id', lab, True)
        if _is_variant(e):
            continue
        for frm in sorted(SE._ids(e)):

            def cb(node, frm=frm):
                if type(node)._cname == 'ExprId' and node.__dict__['_attrs'].get('name') == frm:
                    return W.classes['ExprId']('q_' + frm, node.__dict__['_attrs']['size'], getattr(node, 'is_term'), getattr(node, 'is_reg'))
                return node
            st, r = W.call((W.from_native(e), 'visit'), Native(cb))
            want = _rename(e, frm, 'q_' + frm)
            if e.KIND == 'Aff' and e.f('dst').KIND == 'Slice':
                continue
            if st != 'ok' or not isinstance(r, SrcObj):
                rec('visit-rename', lab, False, '%s.visit(rename %s) %s %s' % (SE.show(e), frm, st, r))
            else:
                got = W.to_native(r)
                if got != want:
                    rec('visit-rename', lab + ':' + _where_differs(got, want), False, 'visiting %s with a callback that renames %s gives %s; every occurrence renamed is %s'
                        % (SE.show(e), frm, SE.show(got), SE.show(want)))
                else:
                    rec('visit-rename', lab, True)
    # ---- replace_expr on identifier keys (simultaneous substitution)
    A = SE.atoms()
    maps = [({'x': SE.Op('+', A['y'], SE.C(1))}, 'x:=y+1'), ({'x': A['y'], 'y': A['x']}, 'swap x,y'), ({'b': A['c']}, 'b:=c'), ({'x': SE.ExprMem(A['y'])}, 'x:=@32[y]'),
            ({'fs': A['gs']}, 'fs:=gs'), ({'x': A['z'], 'z': SE.C(7)}, 'x:=z, z:=7')]
    for e, o in zip(fam, objs):
        if _is_variant(e) or e.KIND == 'Aff':
            continue
        for mp, mlabel in maps:
            if not (set(mp) & SE._ids(e)):
                continue
            d = {}
            for k_, v_ in mp.items():
                d[W.from_native(A[k_])] = W.from_native(v_)
            st, r = W.call((W.from_native(e), 'replace_expr'), d)
            lab = 'replace:%s' % e.KIND
            if st != 'ok' or not isinstance(r, SrcObj):
                rec('replace', lab, False, '%s.replace_expr({%s}) %s %s' % (SE.show(e), mlabel, st, r))
                continue
            got = W.to_native(r)
            bad = None
            try:
                for env in vals:
                    env2 = dict(env)
                    for k_, v_ in mp.items():
                        env2[k_] = SE.value(v_, env)
                    if SE.value(got, env) != SE.value(e, env2):
                        bad = env
                        break
            except SE.IllTyped as ex:
                bad = str(ex)
            if bad is not None:
                rec('replace', lab, False, '%s.replace_expr({%s}) = %s does not denote the substitution' % (SE.show(e), mlabel, SE.show(got)))
            else:
                rec('replace', lab, True)
    x_, y_, z_, b_, c_, fs_ = A['x'], A['y'], A['z'], A['b'], A['c'], A['fs']
    triples = [(SE.Op('*', SE.Op('+', x_, y_), SE.Op('+', y_, x_)), [(SE.Op('+', x_, y_), z_), (SE.Op('+', y_, x_), SE.C(7))], SE.Op('*', z_, SE.C(7))),
               (SE.Op('^', SE.ExprMem(x_), SE.ExprMem(x_, 32, fs_)), [(SE.ExprMem(x_), y_), (SE.ExprMem(x_, 32, fs_), z_)], SE.Op('^', y_, z_)),
               (SE.Op('+', SE.Sl(x_, 0, 8), SE.Sl(x_, 8, 16)), [(SE.Sl(x_, 0, 8), b_), (SE.Sl(x_, 8, 16), c_)], SE.Op('+', b_, c_)),
               (SE.ExprCond(x_, y_, z_), [(x_, y_), (y_, z_), (z_, x_)], SE.ExprCond(y_, z_, x_)),
               # (a key that contains another key is ambiguous -- the inner one is replaced first by the bottom-up traversal -- and is not demanded)
               (SE.Op('+', SE.Op('&', x_, y_), SE.Op('&', y_, x_)), [(SE.Op('&', x_, y_), SE.C(1)), (SE.Op('&', y_, x_), SE.C(2))], SE.Op('+', SE.C(1), SE.C(2))),
               (SE.ExprMem(SE.Op('+', x_, y_)), [(SE.Op('+', x_, y_), z_), (SE.ExprMem(z_), SE.C(9))], SE.ExprMem(z_))]
    for e, pairs, want in triples:
        d = {}
        for k_, v_ in pairs:
            d[W.from_native(k_)] = W.from_native(v_)
        st, r = W.call((W.from_native(e), 'replace_expr'), d)
        lab = 'replace-compound:%s' % e.KIND
        mlabel = ', '.join('%s: %s' % (SE.show(k_), SE.show(v_)) for k_, v_ in pairs)
        if st != 'ok' or not isinstance(r, SrcObj):
            rec('replace', lab, False, '%s.replace_expr({%s}) %s %s' % (SE.show(e), mlabel, st, r))
        elif W.to_native(r) != want:
            rec('replace', lab, False, '%s.replace_expr({%s}) = %s; simultaneous substitution gives %s' % (SE.show(e), mlabel, SE.show(W.to_native(r)), SE.show(want)))
        else:
            rec('replace', lab, True)
    # ---- canonize keeps width and value
    for e, o in zip(fam, objs):
        if _is_variant(e) or e.KIND == 'Aff':
            continue
        st, r = W.call((W.from_native(e), 'canonize'))
        lab = 'canonize:%s' % e.KIND
        if st != 'ok' or not isinstance(r, SrcObj):
            rec('canonize', lab, False, '%s.canonize() %s %s' % (SE.show(e), st, r))
            continue
        got = W.to_native(r)
        try:
            okv = SE.size_of(got) == SE.size_of(e) and all(SE.value(got, env) == SE.value(e, env) for env in vals)
        except SE.IllTyped:
            okv = False
        rec('canonize', lab, okv, '' if okv else '%s.canonize() = %s changes the width or the value' % (SE.show(e), SE.show(got)))
    # ---- get_size
    for e, o in zip(fam, objs):
        if e.KIND == 'Aff':
            continue
        st, r = W.call((o, 'get_size'))
        okv = st == 'ok' and r == SE.size_of(e)
        rec('get_size', 'get_size:%s' % e.KIND, okv, '' if okv else '%s.get_size() %s %s; the expression has %d bits' % (SE.show(e), st, r, SE.size_of(e)))
    # ---- read sets against witnessed dependencies, written sets
    for e, o in zip(fam, objs):
        if _is_variant(e):
            continue
        src = e.f('src') if e.KIND == 'Aff' else e
        for mr in (False, True):
            st, r = W.call((o, 'get_r'), mr)
            lab = 'get_r(%s):%s' % (mr, e.KIND)
            if st != 'ok' or not isinstance(r, (set, list, tuple)):
                rec('get_r', lab, False, '%s.get_r(%s) %s %s' % (SE.show(e), mr, st, r))
                continue
            try:
                got = [W.to_native(x_) for x_ in r]
            except (AnalysisError, PyRaise):
                rec('get_r', lab, False, '%s.get_r(%s) holds something that is no expression' % (SE.show(e), mr))
                continue
            need = required_reads(src, mr, vals)
            if e.KIND == 'Aff' and mr and e.f('dst').KIND == 'Mem':
                # the address (and selector) of a store is read
                need += [d_ for d_ in required_reads(e.f('dst').f('arg'), True, vals) if not any(d_ == x_ for x_ in need)]
                if isinstance(e.f('dst').f('segm'), SE.Node):
                    need += [d_ for d_ in required_reads(e.f('dst').f('segm'), True, vals) if not any(d_ == x_ for x_ in need)]
            missing = [d_ for d_ in need if not any(d_ == x_ for x_ in got)]
            if missing:
                rec('get_r', lab + ':' + missing[0].KIND, False, '%s.get_r(mem_read=%s) = {%s} omits %s, whose value changes the value of the expression'
                    % (SE.show(e), mr, ', '.join(sorted(SE.show(x_) for x_ in got)), SE.show(missing[0])))
            else:
                rec('get_r', lab, True)
        if e.KIND == 'Aff':
            st, r = W.call((o, 'get_w'))
            dst = e.f('dst')
            okw = st == 'ok' and isinstance(r, (set, list, tuple)) and any(W.to_native(x_) == dst for x_ in r if isinstance(x_, SrcObj))
            rec('get_w', 'get_w:%s' % dst.KIND, okw, '' if okw else '(%s).get_w() %s %s does not name the destination' % (SE.show(e), st, r))
    # ---- get_expr_ids: every identifier node, wherever it stands
    if 'get_expr_ids' in W.env:
        for e, o in zip(fam, objs):
            if _is_variant(e):
                continue
            st, r = W.call('get_expr_ids', W.from_native(e))
            lab = 'get_expr_ids:%s' % e.KIND
            if st != 'ok' or not isinstance(r, (set, list, tuple)):
                rec('get_expr_ids', lab, False, 'get_expr_ids(%s) %s %s' % (SE.show(e), st, r))
                continue
            got = set(x_.__dict__['_attrs'].get('name') for x_ in r if isinstance(x_, SrcObj) and type(x_)._cname == 'ExprId')
            want = SE._ids(e)
            okv = got == want and len(got) == len(list(r))
            rec('get_expr_ids', lab, okv, '' if okv else 'get_expr_ids(%s) = %s; the identifiers are %s' % (SE.show(e), sorted(got), sorted(want)))
    else:
        raise AnalysisError('expression.get_expr_ids not found')
    _CACHE[key] = out
    return out


def _strict_key(t):
    """structural identity including the integer class of constants"""
    if isinstance(t, SE.Node):
        if t.KIND == 'Int':
            return ('Int', type(t.f('arg')).__name__, int(t.f('arg')))
        return (t.KIND,) + tuple(_strict_key(t.f(k)) for k in t.FIELDS)
    if isinstance(t, (list, tuple)):
        return tuple(_strict_key(x_) for x_ in t)
    return t


def _where_differs(got, want):
    """name of the first field in which two native expressions differ (for finding keys)"""
    if type(got) is not type(want):
        return 'class'
    for k in got.FIELDS:
        a, b = got.f(k), want.f(k)
        if isinstance(a, SE.Node) and isinstance(b, SE.Node):
            if a != b:
                return '%s.%s' % (got.KIND, k)
        elif SE._k(a) != SE._k(b):
            return '%s.%s' % (got.KIND, k)
    return 'node'


ALTS = (0, 0xFFFFFFFF, 1, 0x80, 0x8000, 0x80000000, 0x55555555)


def required_reads(e, mem_read, vals):
    """Identifiers and memory cells with a WITNESSED influence on the value of e (two valuations that differ only there give different values).
    mem_read=False: cells are opaque units (forced values), so only identifiers outside addresses and the outermost cells can matter."""
    need = []
    mems = mem_nodes(e)
    ids = sorted(SE._ids(e))
    sizes = dict(SE.NAMES)
    vals = vals[:12]
    if not mem_read:
        fixed = dict((m.key(), (hash(SE.show(m)) & 0xFFFFFFFFFFFF) | 1) for m in mems)
        for n in ids:
            if any(value_over(e, env, fixed) != value_over(e, dict(env, **{n: a}), fixed) for env in vals for a in ALTS):
                need.append(SE.ExprId(n, sizes.get(n, 32)))
        for m in mems:
            if any(value_over(e, env, fixed) != value_over(e, env, _with(fixed, m.key(), fixed[m.key()] ^ a)) for env in vals[:6] for a in (1, 0x80, 0xFFFFFFFF, 0x8000, 0x80000000)):
                need.append(m)
        return need
    for n in ids:
        if any(SE.value(e, env) != SE.value(e, dict(env, **{n: a})) for env in vals for a in ALTS):
            need.append(SE.ExprId(n, sizes.get(n, 32)))
    for m in mems:
        base = {}
        if any(value_over(e, env, {m.key(): 0}) != value_over(e, env, {m.key(): a}) for env in vals[:6] for a in (1, 0x80, 0xFFFFFFFF, 0x8000, 0x80000000)):
            need.append(m)
    return need


def _with(d, k, v):
    d2 = dict(d)
    d2[k] = v
    return d2


def emit_law(R, ctx, law, mod=None, prefix=''):
    """Report one law under rule R: one instance per (label), first failing message per label as the finding."""
    from .core import where
    res = laws(ctx)[law]
    W = world(ctx)
    seen_bad, counts = {}, {}
    for label, ok, msg in res:
        counts[label] = counts.get(label, 0) + 1
        if not ok and label not in seen_bad:
            seen_bad[label] = msg
    for label in sorted(counts):
        if label in seen_bad:
            R.violation('%s[%s]' % (law, label), 'law:%s:%s' % (law, label), prefix + seen_bad[label], where(W.mod, W.mod.tree))
        else:
            R.ok('%s[%s]' % (law, label), sample='%s: %d instances evaluated from the source of expression.py' % (label, counts[label]))
            for i in range(min(counts[label] // 8, 10)):
                R.ok('%s[%s]#%d' % (law, label, i))
    return len(res)


# ----------------------------------------------------------------------------------------------- the simplifier on the interpreted classes
class SimpWorld(World):
    """expression.py and expression_helper.py interpreted together: equality, hashing, ordering keys, visit and the simplifier all run from the source
    (module-level state of both modules included: caches, memo tables)."""

    def __init__(self, ctx):
        World.__init__(self, ctx)
        for st in self.hlp.toplevel():
            if isinstance(st, ast.FunctionDef):
                self.env[st.name] = st
            elif isinstance(st, ast.Assign) and len(st.targets) == 1 and isinstance(st.targets[0], ast.Name) and st.targets[0].id not in self.env:
                try:
                    self.env[st.targets[0].id] = self.ev.ev(st.value)
                except NotConst as e:
                    self.unevaluated[st.targets[0].id] = str(e)
        if 'expr_simp' not in self.env:
            raise AnalysisError('expression_helper.expr_simp not found')


def swap_groups():
    """spellings that differ only in operand order, with operands whose hashes coincide in expression.py (hashes are XORs of the parts: a-b / b-a, c?(a,b) / c?(b,a))"""
    A = SE.atoms()
    x, y, z, f = A['x'], A['y'], A['z'], A['f']
    Op, C = SE.Op, SE.C
    d1, d2 = Op('+', x, Op('-', y)), Op('+', y, Op('-', x))
    c1, c2 = SE.ExprCond(f, x, y), SE.ExprCond(f, y, x)
    m1, m2 = SE.ExprMem(Op('+', x, y)), SE.ExprMem(Op('*', x, y))
    groups = []
    for op in ('&', '|', '^', '*', '+'):
        groups.append(('%s:swap-sub' % op, [Op(op, d1, d2), Op(op, d2, d1)]))
        groups.append(('%s:swap-cond' % op, [Op(op, c1, c2), Op(op, c2, c1)]))
        groups.append(('%s:swap-nested' % op, [Op(op, Op('*', d1, z), Op('*', d2, z)), Op(op, Op('*', d2, z), Op('*', d1, z))]))
        groups.append(('%s:xy-yx' % op, [Op(op, Op('>>', x, y), Op('>>', y, x)), Op(op, Op('>>', y, x), Op('>>', x, y))]))
        groups.append(('%s:three' % op, [Op(op, d1, z, d2), Op(op, d2, d1, z), Op(op, z, d2, d1)]))
    return groups


def order_on_source(ctx):
    """[(label, ok, message)]: every group simplified on the interpreted classes, each spelling in a fresh interpretation of both modules and again one after
    the other in one interpretation (module-level state shared): all results of a group must be the identical expression."""
    key = ('order-src', id(ctx))
    if key in _CACHE:
        return _CACHE[key]
    out = []
    order, _ = SE.spelling_groups()
    groups = swap_groups() + [g for i, g in enumerate(order) if i % 3 == 0]
    shared = SimpWorld(ctx)
    # warm the shared interpretation with a few unrelated simplifications first (what an earlier caller in the same process would have done)
    A = SE.atoms()
    for e in (SE.Op('|', SE.Op('^', A['x'], SE.Op('+', A['x'], SE.C(1))), SE.Op('^', A['b'], A['c'])) if False else SE.Op('^', A['x'], SE.Op('+', A['x'], SE.C(1))), SE.Op('+', A['z'], A['y'], A['x'])):
        shared.call('expr_simp', shared.from_native(e))
    for label, es in groups:
        res = []
        for e in es:
            fresh = SimpWorld(ctx)
            st, r = fresh.call('expr_simp', fresh.from_native(e))
            res.append(('fresh', e, st, fresh.to_native(r) if st == 'ok' and isinstance(r, SrcObj) else r))
        for e in es:
            st, r = shared.call('expr_simp', shared.from_native(e))
            res.append(('after other calls', e, st, shared.to_native(r) if st == 'ok' and isinstance(r, SrcObj) else r))
        bad = [t for t in res if t[2] != 'ok' or not isinstance(t[3], SE.Node)]
        if bad:
            out.append((label, False, 'expr_simp(%s) %s %s' % (SE.show(bad[0][1]), bad[0][2], bad[0][3])))
            continue
        first = res[0]
        diff = [t for t in res[1:] if SE._k(t[3].key()) != SE._k(first[3].key()) or _strict_key(t[3]) != _strict_key(first[3])]
        if diff:
            t = diff[0]
            out.append((label, False, 'expr_simp(%s) = %s (%s) but expr_simp(%s) = %s (%s)' % (SE.show(first[1]), SE.show(first[3]), first[0], SE.show(t[1]), SE.show(t[3]), t[0])))
        else:
            out.append((label, True, '%d spellings, fresh and after other calls: %s' % (len(es), SE.show(first[3]))))
    _CACHE[key] = out
    return out


def emit_order_on_source(R, ctx):
    from .core import where
    W = world(ctx)
    for label, ok, msg in order_on_source(ctx):
        inst = 'order-src[%s]' % label
        if ok:
            R.ok(inst, sample='%s: %s' % (label, msg))
        else:
            R.violation(inst, 'simp-order-src:%s' % label, msg, where(W.hlp, W.hlp.funcs['expr_simp']))


def simp_on_source(ctx):
    """[(label, ok, message)]: the full simplification of family members run on the interpreted classes (their own == decides the fixpoint, their own hash and
    ordering key the canonical order): every member that holds a signed constant, plus every sixth member of the family."""
    key = ('simp-src', id(ctx))
    if key in _CACHE:
        return _CACHE[key]
    W = SimpWorld(ctx)
    vals = SE.valuations()
    out = []
    A = SE.atoms()
    x = A['x']
    extra = [('signed-const', SE.Op('>>', SE.SC(-8), SE.C(1))), ('signed-const', SE.Op('>>', SE.Op('&', x, SE.SC(-16)), SE.C(4))), ('signed-const', SE.Op('a>>', SE.SC(-8), SE.C(1))),
             ('signed-const', SE.Op('+', x, SE.SC(-1))), ('signed-const', SE.Op('==', SE.SC(-1), SE.C(0xFFFFFFFF))), ('signed-const', SE.Op('&', x, SE.SC(-1, 32))),
             ('signed-const', SE.Op('>>', SE.Op('&', A['b'], SE.SC(-16, 8)), SE.C(4, 8))), ('signed-const', SE.ExprCond(SE.SC(-1), x, A['y'])), ('signed-const', SE.Sl(SE.SC(-2), 0, 16)),
             ('signed-const', SE.Comp((SE.SC(-1, 8), 0, 8), (SE.C(0, 8), 8, 16))), ('signed-const', SE.Op('parity', SE.SC(-1, 8))), ('signed-const', SE.Op('<<', SE.SC(-1, 8), SE.C(1, 8)))]
    fam = [(l, e) for i, (l, e) in enumerate(SE.family()) if (SE._has_signed(e) or i % 6 == 0) and l != 'rot-merge-mixed'] + extra
    for label, e in fam:
        st, r = W.call('expr_simp', W.from_native(e))
        lab = 'simp-src[%s]' % label
        if st != 'ok' or not isinstance(r, SrcObj):
            out.append((lab, False, 'expr_simp(%s) on the interpreted classes %s %s' % (SE.show(e), st, r)))
            continue
        try:
            got = W.to_native(r)
            SE.check_typed(got, lenient_const_pieces=True)
            if SE.size_of(got) != SE.size_of(e):
                out.append((lab, False, 'expr_simp(%s) = %s has %d bits, the input %d' % (SE.show(e), SE.show(got), SE.size_of(got), SE.size_of(e))))
                continue
            bad = None
            for env in vals:
                if SE.value(got, env) != SE.value(e, env):
                    bad = env
                    break
        except (SE.IllTyped, PyRaise, AnalysisError) as ex:
            out.append((lab, False, 'expr_simp(%s) gives an ill-formed expression (%s)' % (SE.show(e), ex)))
            continue
        if bad is not None:
            out.append((lab, False, 'expr_simp(%s) = %s: for %s the input is %#x, the result %#x' % (SE.show(e), SE.show(got), ', '.join('%s=%#x' % (n_, bad[n_]) for n_ in sorted(SE._ids(e))) or 'any valuation',
                                                                                                      SE.value(e, bad), SE.value(got, bad))))
        else:
            out.append((lab, True, ''))
    _CACHE[key] = out
    return out


def emit_simp_on_source(R, ctx):
    from .core import where
    W = world(ctx)
    seen_bad, counts = {}, {}
    for label, ok, msg in simp_on_source(ctx):
        counts[label] = counts.get(label, 0) + 1
        if not ok:
            seen_bad.setdefault(label, msg)
    for label in sorted(counts):
        if label in seen_bad:
            R.violation(label, 'simp-src:%s' % label[9:-1], seen_bad[label], where(W.hlp, W.hlp.funcs['expr_simp']))
        else:
            R.ok(label, sample='%s: %d members keep width and value when simplified on the interpreted classes' % (label, counts[label]))
            for i in range(min(counts[label] // 3, 8)):
                R.ok('%s#%d' % (label, i))
