"""E4: the lifter's IR templates, derived statically.

`ia32_sem.py` is a code generator: each semantic function builds a list of IR
assignments whose shape depends only on the *form* of the instruction (operand
kinds and widths, operand-size mode).  This module partially evaluates the AST of
those functions with respect to a form: Python scalars are computed, IR nodes are
built as terms whose leaves are the (symbolic) operands, helper functions are
inlined.  A branch on an operand *value* is refused (LiftUnknown), except a
literal membership/equality test on an immediate leaf, which is treated as a
finite split of the form.  Nothing of the repository is imported or executed.
"""
import ast
import math

from .core import AnalysisError
from .shapes import u


# ----------------------------------------------------------------- values

class Sym(object):
    """Unknown Python number (e.g. the value of an immediate, the instruction offset)."""

    def __init__(self, tag='?'):
        self.tag = tag

    def __repr__(self):
        return '<%s>' % self.tag


class ModVal(object):
    """Value of uintN(x): width known, value known or symbolic."""

    def __init__(self, size, val):
        self.size = size
        self.val = None if (val is None or isinstance(val, Sym)) else int(val) % (1 << size)

    def __repr__(self):
        return 'u%d(%s)' % (self.size, '?' if self.val is None else hex(self.val))

    def key(self):
        return ('mod', self.size, self.val)


class Term(object):
    kind = '?'

    def key(self):
        raise NotImplementedError

    def __eq__(self, o):
        return isinstance(o, Term) and self.key() == o.key()

    def __ne__(self, o):
        return not self.__eq__(o)

    def __hash__(self):
        return hash(self.key())

    def __repr__(self):
        return show(self)


class TInt(Term):
    kind = 'Int'

    def __init__(self, mod, leaf=None):
        self.mod, self.leaf = mod, leaf     # leaf: operand tag when it is an immediate operand

    def key(self):
        return ('Int', self.mod.size, self.mod.val, self.leaf)


class TId(Term):
    kind = 'Id'

    def __init__(self, name, size=32, is_term=False, is_reg=False):
        self.name, self.size, self.is_term, self.is_reg = name, size, is_term, is_reg

    def key(self):
        return ('Id', self.name, self.size, self.is_reg)


class TMem(Term):
    kind = 'Mem'

    def __init__(self, arg, size=32, segm=None):
        self.arg, self.size, self.segm = arg, size, segm

    def key(self):
        return ('Mem', self.arg.key() if isinstance(self.arg, Term) else repr(self.arg), self.size,
                self.segm.key() if isinstance(self.segm, Term) else None)


class TOp(Term):
    kind = 'Op'

    def __init__(self, op, args):
        self.op, self.args = op, tuple(args)

    def key(self):
        return ('Op', self.op if isinstance(self.op, str) else repr(self.op)) + tuple(a.key() if isinstance(a, Term) else repr(a) for a in self.args)


class TCond(Term):
    kind = 'Cond'

    def __init__(self, cond, src1, src2):
        self.cond, self.src1, self.src2 = cond, src1, src2

    def key(self):
        return ('Cond',) + tuple(x.key() if isinstance(x, Term) else repr(x) for x in (self.cond, self.src1, self.src2))


class TSlice(Term):
    kind = 'Slice'

    def __init__(self, arg, start, stop):
        self.arg, self.start, self.stop = arg, start, stop

    def key(self):
        return ('Slice', self.arg.key() if isinstance(self.arg, Term) else repr(self.arg), self.start, self.stop)


class TCompose(Term):
    kind = 'Compose'

    def __init__(self, args):
        self.args = [tuple(a) for a in args]

    def key(self):
        return ('Compose',) + tuple((a[0].key() if isinstance(a[0], Term) else repr(a[0]), a[1], a[2]) for a in self.args)


class TAff(Term):
    kind = 'Aff'

    def __init__(self, dst, src):
        self.dst, self.src = dst, src

    def key(self):
        return ('Aff', self.dst.key() if isinstance(self.dst, Term) else repr(self.dst),
                self.src.key() if isinstance(self.src, Term) else repr(self.src))


def _cache_keys():
    # terms are immutable: cache the structural key (hashing a deep term recomputed it at every set/dict operation)
    for cls in (TInt, TId, TMem, TOp, TCond, TSlice, TCompose, TAff):
        raw = cls.key

        def cached(self, _raw=raw):
            k = self.__dict__.get('_k')
            if k is None:
                k = _raw(self)
                self.__dict__['_k'] = k
            return k
        cls.key = cached


_cache_keys()


def show(t):
    if not isinstance(t, Term):
        return repr(t)
    k = t.kind
    if k == 'Int':
        return ('%s' % t.leaf if t.leaf and t.mod.val is None else ('0x%X' % t.mod.val if t.mod.val is not None else '?')) + ':%d' % t.mod.size
    if k == 'Id':
        return t.name
    if k == 'Mem':
        return '%s@%s[%s]' % ((show(t.segm) + ':') if t.segm is not None else '', t.size, show(t.arg))
    if k == 'Op':
        return '%s(%s)' % (t.op, ', '.join(show(a) for a in t.args))
    if k == 'Cond':
        return '(%s ? %s : %s)' % (show(t.cond), show(t.src1), show(t.src2))
    if k == 'Slice':
        return '%s[%s:%s]' % (show(t.arg), t.start, t.stop)
    if k == 'Compose':
        return '{%s}' % ', '.join('%s@%s:%s' % (show(a[0]), a[1], a[2]) for a in t.args)
    if k == 'Aff':
        return '%s = %s' % (show(t.dst), show(t.src))
    return '?'


class SizeError(Exception):
    pass


def get_size(t):
    """Width as expression.py defines get_size per node class; SizeError when undetermined."""
    k = t.kind
    if k == 'Int':
        return t.mod.size
    if k in ('Id', 'Mem'):
        return t.size
    if k == 'Aff':
        return get_size(t.dst)
    if k == 'Cond':
        return get_size(t.src1)
    if k == 'Op':
        if not t.args:
            raise SizeError('operator %r has no operand: no determinate width' % t.op)
        a = get_size(t.args[0])
        if len(t.args) > 1 and not a:
            a = get_size(t.args[1])
        return a
    if k == 'Slice':
        return t.stop - t.start
    if k == 'Compose':
        if not t.args:
            raise SizeError('empty compose')
        return max(x[2] for x in t.args) - min(x[1] for x in t.args)
    raise SizeError('unknown node')


# ------------------------------------------------------- interpreter

class LiftError(Exception):
    """The lifter code raises / would raise on this form (a finding candidate)."""

    def __init__(self, exc, msg, node=None):
        Exception.__init__(self, '%s: %s' % (exc, msg))
        self.exc, self.msg, self.node = exc, msg, node


class LiftUnknown(Exception):
    """Construct outside the modelled subset, or a branch on an operand value."""


class _Return(Exception):
    def __init__(self, v):
        self.v = v


class _Continue(Exception):
    pass


class _Break(Exception):
    pass


class FuncVal(object):
    def __init__(self, node, interp, closure=None):
        self.node, self.interp = node, interp
        self.name = node.name
        self.closure = closure      # scope of the enclosing function for a nested def (read when the body runs, like python cells)


class Ctor(object):
    """IR class / modint class / builtin known to the interpreter."""

    def __init__(self, name):
        self.name = name

    def __repr__(self):
        return '<ctor %s>' % self.name


class Namespace(object):
    def __init__(self, name, d=None):
        self._name = name
        self._d = d if d is not None else {}


class Unknown(object):
    """An undecidable boolean (depends on an operand value)."""

    def __init__(self, why):
        self.why = why


MODSIZES = {'uint1': 1, 'uint8': 8, 'uint16': 16, 'uint32': 32, 'uint64': 64, 'uint128': 128,
            'int8': 8, 'int16': 16, 'int32': 32, 'int64': 64, 'int128': 128}
EXPR_CTORS = ('ExprInt', 'ExprId', 'ExprMem', 'ExprOp', 'ExprCond', 'ExprSlice', 'ExprCompose', 'ExprAff',
              'ExprInt8', 'ExprInt16', 'ExprInt32', 'ExprInt64', 'ExprInt_from')
KIND_OF_CTOR = {'ExprInt': 'Int', 'ExprId': 'Id', 'ExprMem': 'Mem', 'ExprOp': 'Op', 'ExprCond': 'Cond',
                'ExprSlice': 'Slice', 'ExprCompose': 'Compose', 'ExprAff': 'Aff'}


class Interp(object):
    def __init__(self, mod, afs_obj, arch_env, expr_names, seeds=None):
        """mod: srcmodel Module of ia32_sem; afs_obj: consteval Obj for x86_afs; arch_env: names imported from ia32_arch;
        expr_names: names ia32_sem imports from expression (so that a missing import is an unbound name)."""
        self.mod = mod
        self.g = {}
        self.choices = []
        self.decisions = []
        self.depth = 0
        self.steps = 0
        self.expr_names = expr_names
        for n in expr_names:
            if n in EXPR_CTORS:
                self.g[n] = Ctor(n)
        for n, s in MODSIZES.items():
            pass
        self.afs_obj = afs_obj
        self.arch_env = arch_env
        self.seeds = seeds or {}
        self._load_module()
        self.g.update(self.seeds)

    # --- module level
    def _load_module(self):
        m = self.mod
        for st in m.tree.body:
            self._module_stmt(st)

    def _module_stmt(self, st):
        if isinstance(st, ast.ImportFrom):
            for a in st.names:
                nm = a.asname or a.name
                if st.module == 'miasmx.tools.modint' and a.name in MODSIZES:
                    self.g[nm] = Ctor(a.name)
                elif st.module == 'miasmx.expression.expression' and a.name in EXPR_CTORS:
                    self.g[nm] = Ctor(a.name)
                elif st.module == 'miasmx.arch.ia32_reg' and a.name == 'x86_afs':
                    self.g[nm] = self.afs_obj
                elif st.module == 'miasmx.arch.ia32_arch':
                    if a.name in self.arch_env:
                        self.g[nm] = self.arch_env[a.name]
                    else:
                        self.g[nm] = Ctor('arch.' + a.name)
            return
        if isinstance(st, ast.Import):
            for a in st.names:
                self.g[a.asname or a.name] = Ctor('module.' + a.name)
            return
        if isinstance(st, ast.FunctionDef):
            self.g[st.name] = FuncVal(st, self)
            return
        if isinstance(st, ast.ClassDef):
            ns = {}
            saved = self.g
            # class bodies see module globals; run statements into ns
            for s in st.body:
                try:
                    self._exec_in(s, ns)
                except (LiftUnknown, LiftError):
                    pass
            self.g[st.name] = Namespace(st.name, ns)
            return
        if isinstance(st, ast.Try):
            for s in st.body:
                try:
                    self._module_stmt(s)
                except (LiftUnknown, LiftError):
                    pass
            return
        if isinstance(st, (ast.Assign, ast.AugAssign, ast.For, ast.If, ast.Expr)):
            if isinstance(st, ast.If) and isinstance(st.test, ast.Compare) and u(st.test.left) == '__name__':
                return
            try:
                self._exec_in(st, self.g)
            except (LiftUnknown, LiftError):
                for n in ast.walk(st):
                    if isinstance(n, ast.Name) and isinstance(n.ctx, ast.Store):
                        self.g.pop(n.id, None)

    def _exec_in(self, st, scope):
        fr = Frame(self, scope, is_module=True)
        fr.exec_stmt(st)

    # --- calling a lifter function
    def call_function(self, f, args, kwargs=None):
        self.depth += 1
        if self.depth > 30:
            raise LiftUnknown('recursion too deep')
        try:
            fr = Frame(self, {}, func=f)
            fr.bind_args(args, kwargs or {})
            try:
                fr.exec_block(f.node.body)
            except _Return as r:
                return r.v
            return None
        finally:
            self.depth -= 1

    def run(self, fname_or_func, args):
        """Run with fork exploration on Unknown conditions; returns list of (decisions, result or LiftError)."""
        f = self.g[fname_or_func] if isinstance(fname_or_func, str) else fname_or_func
        results = []
        todo = [[]]
        while todo:
            ch = todo.pop()
            self.choices = list(ch)
            self.decisions = []
            self.steps = 0
            try:
                r = self.call_function(f, list(args))
                results.append((list(self.decisions), r))
            except LiftError as e:
                results.append((list(self.decisions), e))
            # schedule the untaken alternatives of new decisions
            for i in range(len(ch), len(self.decisions)):
                alt = [d for d in self.decisions[:i]] + [not self.decisions[i]]
                todo.append(alt)
            if len(results) > 16:
                raise LiftUnknown('too many form splits')
        return results

    def decide(self, unk, node):
        i = len(self.decisions)
        v = self.choices[i] if i < len(self.choices) else True
        self.decisions.append(v)
        return v


class Frame(object):
    def __init__(self, interp, scope, func=None, is_module=False):
        self.I = interp
        self.scope = scope
        self.func = func
        self.is_module = is_module

    # ---- argument binding
    def bind_args(self, args, kwargs):
        a = self.func.node.args
        params = [x.arg for x in a.args]
        defaults = a.defaults
        n_req = len(params) - len(defaults)
        if len(args) > len(params) and not a.vararg:
            raise LiftError('TypeError', '%s() takes %d positional arguments but %d were given' % (self.func.name, len(params), len(args)), self.func.node)
        for i, p in enumerate(params):
            if i < len(args):
                self.scope[p] = args[i]
            elif p in kwargs:
                self.scope[p] = kwargs[p]
            elif i >= n_req:
                self.scope[p] = Frame(self.I, {}, is_module=True).ev(defaults[i - n_req])
            else:
                raise LiftError('TypeError', '%s() missing required positional argument %r' % (self.func.name, p), self.func.node)
        if a.vararg:
            self.scope[a.vararg.arg] = tuple(args[len(params):])

    # ---- statements
    def exec_block(self, stmts):
        for st in stmts:
            self.exec_stmt(st)

    def exec_stmt(self, st):
        self.I.steps += 1
        if self.I.steps > 20000:
            raise LiftUnknown('step budget exhausted')
        m = getattr(self, 'st_' + type(st).__name__, None)
        if m is None:
            raise LiftUnknown('statement %s' % type(st).__name__)
        return m(st)

    def st_Expr(self, st):
        if isinstance(st.value, ast.Constant):
            return
        if isinstance(st.value, ast.Name):
            # bare name: the repository's "assert unreachable" idiom -> NameError when reached
            self.lookup(st.value)
            return
        self.ev(st.value)

    def st_Pass(self, st):
        pass

    def st_Return(self, st):
        raise _Return(self.ev(st.value) if st.value is not None else None)

    def st_Continue(self, st):
        raise _Continue()

    def st_Break(self, st):
        raise _Break()

    def st_Raise(self, st):
        exc = 'Exception'
        msg = ''
        if isinstance(st.exc, ast.Call):
            exc = u(st.exc.func)
            msg = u(st.exc)
        elif st.exc is not None:
            exc = 'TypeError' if isinstance(st.exc, (ast.Constant, ast.BinOp)) else u(st.exc)
            msg = u(st.exc)
        raise LiftError(exc, 'raise %s' % msg, st)

    def st_Assign(self, st):
        v = self.ev(st.value)
        for t in st.targets:
            self.assign(t, v)

    def st_AugAssign(self, st):
        t = st.target
        if isinstance(t, ast.Name):
            cur = self.lookup(t)
        elif isinstance(t, ast.Subscript):
            cur = self.ev_Subscript(t)
        elif isinstance(t, ast.Attribute):
            cur = self.ev_Attribute(t)
        else:
            raise LiftUnknown('augmented assignment target')
        rhs = self.ev(st.value)
        if isinstance(cur, list) and isinstance(st.op, ast.Add):
            if not isinstance(rhs, (list, tuple)):
                raise LiftError('TypeError', 'list += non-iterable', st)
            cur.extend(rhs)
            return
        v = self.binop(st.op, cur, rhs, st)
        self.assign(st.target, v)

    def assign(self, t, v):
        if isinstance(t, ast.Name):
            self.scope[t.id] = v
        elif isinstance(t, (ast.Tuple, ast.List)):
            if isinstance(v, Term):
                raise LiftUnknown('unpacking a term')
            vals = list(v)
            if len(vals) != len(t.elts):
                raise LiftError('ValueError', 'unpack mismatch', t)
            for tt, vv in zip(t.elts, vals):
                self.assign(tt, vv)
        elif isinstance(t, ast.Subscript):
            o = self.ev(t.value)
            k = self.ev(t.slice)
            if isinstance(o, dict):
                o[hkey(k)] = v
            elif isinstance(o, list):
                o[k] = v
            else:
                raise LiftUnknown('subscript store')
        elif isinstance(t, ast.Attribute):
            o = self.ev(t.value)
            if isinstance(o, Namespace):
                o._d[t.attr] = v
            else:
                raise LiftUnknown('attribute store on %r' % type(o).__name__)
        else:
            raise LiftUnknown('assign target')

    def st_If(self, st):
        c = self.truth(self.ev(st.test), st.test)
        self.exec_block(st.body if c else st.orelse)

    def st_For(self, st):
        it = self.ev(st.iter)
        if isinstance(it, (Term, Sym, Unknown)):
            raise LiftUnknown('loop over non-static iterable')
        for item in list(it):
            self.assign(st.target, item)
            try:
                self.exec_block(st.body)
            except _Continue:
                continue
            except _Break:
                break
        else:
            self.exec_block(st.orelse)

    def st_FunctionDef(self, st):
        self.scope[st.name] = FuncVal(st, self.I, closure=None if self.is_module else self.scope)

    def st_Global(self, st):
        pass

    # ---- truth
    def truth(self, v, node):
        if isinstance(v, Unknown):
            return self.I.decide(v, node)
        if isinstance(v, Term):
            return True      # Expr objects are truthy (no __bool__/__len__)
        if isinstance(v, Sym):
            raise LiftUnknown('branch on a symbolic scalar (%s)' % u(node))
        if isinstance(v, ModVal):
            if v.val is None:
                raise LiftUnknown('branch on an operand value (%s)' % u(node))
            return v.val != 0
        return bool(v)

    # ---- expressions
    def lookup(self, n):
        if n.id in self.scope:
            return self.scope[n.id]
        cl = getattr(self.func, 'closure', None) if self.func is not None else None
        if cl is not None and n.id in cl:
            return cl[n.id]
        if n.id in self.I.g:
            return self.I.g[n.id]
        if n.id in ('True', 'False', 'None'):
            return {'True': True, 'False': False, 'None': None}[n.id]
        if n.id in ('range', 'len', 'isinstance', 'print', 'type', 'int', 'list', 'dict', 'set', 'str', 'float', 'ValueError',
                    'enumerate', 'zip', 'sorted', 'min', 'max', 'abs', 'tuple', 'bool', 'hex', 'reversed', 'map', 'filter', 'sum', 'any', 'all'):
            return Ctor('builtin.' + n.id)
        import builtins as _b
        if hasattr(_b, n.id):
            # a python builtin this interpreter does not model: the analysis cannot go on (not a NameError of the analysed code)
            raise LiftUnknown('builtin %s' % n.id)
        raise LiftError('NameError', "name '%s' is not defined" % n.id, n)

    def ev(self, n):
        m = getattr(self, 'ev_' + type(n).__name__, None)
        if m is None:
            raise LiftUnknown('expression %s' % type(n).__name__)
        return m(n)

    def ev_Constant(self, n):
        return n.value

    def ev_Name(self, n):
        return self.lookup(n)

    def ev_List(self, n):
        return [self.ev(e) for e in n.elts]

    def ev_Tuple(self, n):
        return tuple(self.ev(e) for e in n.elts)

    def ev_Dict(self, n):
        return dict((hkey(self.ev(k)), self.ev(v)) for k, v in zip(n.keys, n.values))

    def ev_ListComp(self, n):
        if len(n.generators) != 1:
            raise LiftUnknown('comprehension')
        g = n.generators[0]
        out = []
        it = self.ev(g.iter)
        if isinstance(it, (Term, Sym, Unknown)):
            raise LiftUnknown('comprehension over non-static iterable')
        for item in list(it):
            self.assign(g.target, item)
            if all(self.truth(self.ev(c), c) for c in g.ifs):
                out.append(self.ev(n.elt))
        return out

    def ev_IfExp(self, n):
        return self.ev(n.body) if self.truth(self.ev(n.test), n.test) else self.ev(n.orelse)

    def ev_BoolOp(self, n):
        if isinstance(n.op, ast.And):
            v = True
            for e in n.values:
                v = self.ev(e)
                if not self.truth(v, e):
                    return v
            return v
        v = False
        for e in n.values:
            v = self.ev(e)
            if self.truth(v, e):
                return v
        return v

    def ev_UnaryOp(self, n):
        v = self.ev(n.operand)
        if isinstance(n.op, ast.Not):
            return not self.truth(v, n.operand)
        if isinstance(v, Term):
            if isinstance(n.op, ast.USub):
                return TOp('-', [v])
            if isinstance(n.op, ast.Invert):
                s = term_size(v, n)
                if s not in (8, 16, 32, 64):
                    raise LiftError('KeyError', 'size2type[%r] in Expr.__invert__' % s, n)
                return TOp('^', [v, TInt(ModVal(s, (1 << s) - 1))])
            raise LiftUnknown('unary on term')
        if isinstance(v, (Sym, ModVal)):
            if isinstance(v, ModVal) and v.val is not None:
                if isinstance(n.op, ast.USub):
                    return ModVal(v.size, -v.val)
                if isinstance(n.op, ast.Invert):
                    return ModVal(v.size, ~v.val)
            return Sym('expr') if isinstance(v, Sym) else ModVal(v.size, None)
        if isinstance(n.op, ast.USub):
            return -v
        if isinstance(n.op, ast.Invert):
            return ~v
        if isinstance(n.op, ast.UAdd):
            return +v
        raise LiftUnknown('unary')

    def ev_BinOp(self, n):
        return self.binop(n.op, self.ev(n.left), self.ev(n.right), n)

    def binop(self, op, a, b, node):
        if isinstance(a, str) and isinstance(op, ast.Mod):
            vals = b if isinstance(b, tuple) else (b,)
            vals = tuple(show(x) if isinstance(x, Term) else (0 if isinstance(x, (Sym, ModVal)) else x) for x in vals)
            try:
                return a % vals
            except Exception as e:
                raise LiftError(type(e).__name__, str(e), node)
        if isinstance(a, Term) or isinstance(b, Term):
            if not (isinstance(a, Term)):
                raise LiftError('TypeError', 'unsupported operand types for %s: %s and Expr' % (type(op).__name__, type(a).__name__), node)
            table = {ast.Add: '+', ast.Mult: '*', ast.LShift: '<<', ast.RShift: '>>', ast.BitXor: '^', ast.BitOr: '|', ast.BitAnd: '&'}
            if isinstance(op, ast.Sub):
                return TOp('+', [a, TOp('-', [b])])
            if type(op) in table:
                return TOp(table[type(op)], [a, b])
            if isinstance(op, ast.Div):
                raise LiftError('TypeError', 'Expr has no __truediv__', node)
            raise LiftUnknown('operator on terms')
        if isinstance(a, (Sym, ModVal)) or isinstance(b, (Sym, ModVal)):
            for x in (a, b):
                if not isinstance(x, (Sym, ModVal, int, float)):
                    raise LiftUnknown('symbolic arithmetic with %r' % type(x).__name__)
            if isinstance(a, ModVal) and isinstance(b, ModVal) and a.val is not None and b.val is not None:
                sz = max(a.size, b.size)
                return ModVal(sz, self.binop(op, a.val, b.val, node))
            if isinstance(a, ModVal):
                if a.val is not None and isinstance(b, (int, float)):
                    return ModVal(a.size, self.binop(op, a.val, b, node))
                return ModVal(max(a.size, b.size if isinstance(b, ModVal) else 0), None)
            if isinstance(b, ModVal):
                if b.val is not None and isinstance(a, (int, float)):
                    return ModVal(b.size, self.binop(op, a, b.val, node))
                return ModVal(b.size, None)
            return Sym('expr')
        try:
            if isinstance(op, ast.Add):
                return a + b
            if isinstance(op, ast.Sub):
                return a - b
            if isinstance(op, ast.Mult):
                return a * b
            if isinstance(op, ast.Div):
                return a / b
            if isinstance(op, ast.FloorDiv):
                return a // b
            if isinstance(op, ast.Mod):
                return a % b
            if isinstance(op, ast.LShift):
                return a << b
            if isinstance(op, ast.RShift):
                return a >> b
            if isinstance(op, ast.BitAnd):
                return a & b
            if isinstance(op, ast.BitOr):
                return a | b
            if isinstance(op, ast.BitXor):
                return a ^ b
            if isinstance(op, ast.Pow):
                return a ** b
        except TypeError as e:
            raise LiftError('TypeError', str(e), node)
        except Exception as e:
            raise LiftError(type(e).__name__, str(e), node)
        raise LiftUnknown('binop')

    def ev_Compare(self, n):
        left = self.ev(n.left)
        for op, c in zip(n.ops, n.comparators):
            right = self.ev(c)
            r = self.compare(op, left, right, n)
            if isinstance(r, Unknown):
                return r
            if not r:
                return False
            left = right
        return True

    def compare(self, op, a, b, node):
        if isinstance(op, (ast.Is, ast.IsNot)):
            r = (a is b) if not (isinstance(a, Term) and isinstance(b, Term)) else (a is b or a == b)
            return r if isinstance(op, ast.Is) else not r
        if isinstance(op, (ast.In, ast.NotIn)):
            if isinstance(b, (list, tuple, set, dict)):
                if isinstance(a, ModVal) and a.val is None:
                    if all(isinstance(x, int) for x in b):
                        return Unknown('immediate value in %s' % (list(b),))
                    raise LiftUnknown('membership of a symbolic value')
                if isinstance(a, ModVal):
                    r = any((isinstance(x, int) and x == a.val) or (isinstance(x, ModVal) and x.val == a.val) for x in b)
                elif isinstance(b, dict):
                    r = hkey(a) in b
                else:
                    r = any(eq(a, x) for x in b)
                return r if isinstance(op, ast.In) else not r
            if isinstance(b, str) and isinstance(a, str):
                return (a in b) if isinstance(op, ast.In) else (a not in b)
            raise LiftUnknown('membership in %r' % type(b).__name__)
        if isinstance(op, (ast.Eq, ast.NotEq)):
            if (isinstance(a, ModVal) and a.val is None) or (isinstance(b, ModVal) and b.val is None) or isinstance(a, Sym) or isinstance(b, Sym):
                if isinstance(a, ModVal) and isinstance(b, int) or isinstance(b, ModVal) and isinstance(a, int):
                    return Unknown('immediate value == literal')
                raise LiftUnknown('comparison of a symbolic value')
            r = eq(a, b)
            return r if isinstance(op, ast.Eq) else not r
        if isinstance(a, (Term,)) or isinstance(b, (Term,)):
            raise LiftError('TypeError', 'ordering comparison on Expr', node)
        for x in (a, b):
            if isinstance(x, (Sym,)) or (isinstance(x, ModVal) and x.val is None):
                raise LiftUnknown('ordering of a symbolic value')
        a2 = a.val if isinstance(a, ModVal) else a
        b2 = b.val if isinstance(b, ModVal) else b
        try:
            if isinstance(op, ast.Lt):
                return a2 < b2
            if isinstance(op, ast.LtE):
                return a2 <= b2
            if isinstance(op, ast.Gt):
                return a2 > b2
            if isinstance(op, ast.GtE):
                return a2 >= b2
        except TypeError as e:
            raise LiftError('TypeError', str(e), node)
        raise LiftUnknown('compare')

    def ev_Attribute(self, n):
        v = self.ev(n.value)
        a = n.attr
        if isinstance(v, Term):
            fields = {'Int': ('arg',), 'Id': ('name', 'size', 'is_term', 'is_reg'), 'Mem': ('arg', 'size', 'segm'),
                      'Op': ('op', 'args'), 'Cond': ('cond', 'src1', 'src2'), 'Slice': ('arg', 'start', 'stop'),
                      'Compose': ('args',), 'Aff': ('dst', 'src')}[v.kind]
            if a in fields:
                if v.kind == 'Int':
                    return v.mod
                return getattr(v, a)
            if a in ('get_size', 'replace_expr', 'copy', 'get_r', 'get_w', 'visit', 'canonize'):
                return BoundMethod(v, a)
            if a in ('is_term', 'is_simp', 'is_eval'):
                return False
            raise LiftError('AttributeError', "'%s' object has no attribute '%s'" % ('Expr' + v.kind, a), n)
        if isinstance(v, ModVal):
            if a == 'size':
                return v.size
            if a == 'arg':
                return v.val if v.val is not None else Sym('imm')
            raise LiftError('AttributeError', "moduint has no attribute '%s'" % a, n)
        if isinstance(v, Namespace):
            if a in v._d:
                return v._d[a]
            raise LiftError('AttributeError', "%s has no attribute '%s'" % (v._name, a), n)
        if isinstance(v, InfoObj):
            if a in ('opmode', 'admode', 'offset'):
                return getattr(v, a)
            raise LiftError('AttributeError', "instruction info has no attribute '%s'" % a, n)
        if isinstance(v, (list, dict, str, tuple)):
            return BoundMethod(v, a)
        if isinstance(v, int) and not isinstance(v, bool) and a in ('bit_length', 'bit_count'):
            return BoundMethod(v, a)
        if isinstance(v, Ctor):
            return Ctor(v.name + '.' + a)
        if hasattr(v, '_attrs') or type(v).__name__ == 'Obj':
            try:
                return getattr(v, a)
            except Exception:
                raise LiftError('AttributeError', "x86_afs has no attribute '%s'" % a, n)
        raise LiftUnknown('attribute %s of %r' % (a, type(v).__name__))

    def ev_Subscript(self, n):
        v = self.ev(n.value)
        if isinstance(v, Sym):
            return Sym(v.tag)
        if isinstance(v, Term):
            if not isinstance(n.slice, ast.Slice):
                raise LiftError('ValueError', 'bad slice (Expr.__getitem__ with a non-slice)', n)
            s = term_size(v, n)
            lo = self.ev(n.slice.lower) if n.slice.lower else None
            hi = self.ev(n.slice.upper) if n.slice.upper else None
            for x in (lo, hi):
                if x is not None and not isinstance(x, int):
                    if isinstance(x, float):
                        raise LiftError('TypeError', 'slice indices must be integers', n)
                    raise LiftUnknown('symbolic slice bound')
            start, stop, _ = slice(lo, hi).indices(s)
            return TSlice(v, start, stop)
        if isinstance(n.slice, ast.Slice):
            lo = self.ev(n.slice.lower) if n.slice.lower else None
            hi = self.ev(n.slice.upper) if n.slice.upper else None
            return v[lo:hi]
        k = self.ev(n.slice)
        if isinstance(v, dict):
            kk = hkey(k)
            if kk not in v:
                raise LiftError('KeyError', repr(k), n)
            return v[kk]
        if isinstance(v, (list, tuple, str)):
            if isinstance(k, bool):
                k = int(k)
            if not isinstance(k, int):
                raise LiftUnknown('index %r' % (k,))
            try:
                return v[k]
            except IndexError:
                raise LiftError('IndexError', 'index out of range', n)
        raise LiftUnknown('subscript of %r' % type(v).__name__)

    def ev_Call(self, n):
        f = self.ev(n.func)
        args = []
        for a in n.args:
            if isinstance(a, ast.Starred):
                args.extend(list(self.ev(a.value)))
            else:
                args.append(self.ev(a))
        kwargs = dict((k.arg, self.ev(k.value)) for k in n.keywords if k.arg)
        return self.call(f, args, kwargs, n)

    def call(self, f, args, kwargs, n):
        if isinstance(f, FuncVal):
            return self.I.call_function(f, args, kwargs)
        if isinstance(f, BoundMethod):
            return f.call(self, args, kwargs, n)
        if isinstance(f, Ctor):
            return self.ctor(f.name, args, kwargs, n)
        raise LiftError('TypeError', '%r object is not callable' % type(f).__name__, n)

    def ctor(self, name, args, kwargs, n):
        if name in MODSIZES:
            if len(args) != 1:
                raise LiftError('TypeError', '%s() takes one argument' % name, n)
            v = args[0]
            if isinstance(v, ModVal):
                return ModVal(MODSIZES[name], v.val)
            if isinstance(v, Sym):
                return ModVal(MODSIZES[name], None)
            if isinstance(v, (int, float)) and not isinstance(v, bool) or isinstance(v, bool):
                return ModVal(MODSIZES[name], int(v))
            if isinstance(v, Term):
                raise LiftError('TypeError', 'int() argument must be a number, not Expr', n)
            raise LiftError('TypeError', 'int() argument must be a number, not %s' % type(v).__name__, n)
        if name == 'ExprInt':
            if len(args) != 1 or not isinstance(args[0], ModVal):
                raise LiftError('ValueError', 'arg %r should be a modint' % (args[0] if args else None,), n)
            return TInt(args[0])
        if name in ('ExprInt8', 'ExprInt16', 'ExprInt32', 'ExprInt64'):
            return TInt(self.ctor('uint' + name[7:], args, {}, n))
        if name == 'ExprInt_from':
            e, i = args
            s = term_size(e, n)
            if s not in (1, 8, 16, 32, 64):
                raise LiftError('KeyError', 'tab_uintsize[%r] in ExprInt_from' % s, n)
            return TInt(self.ctor({1: 'uint1', 8: 'uint8', 16: 'uint16', 32: 'uint32', 64: 'uint64'}[s], [i], {}, n))
        if name == 'ExprId':
            params = ['name', 'size', 'is_term', 'is_reg']
            d = {'size': 32, 'is_term': False, 'is_reg': False}
            for p, a in zip(params, args):
                d[p] = a
            d.update(kwargs)
            return TId(d['name'], d['size'], d['is_term'], d['is_reg'])
        if name == 'ExprMem':
            params = ['arg', 'size', 'segm']
            d = {'size': 32, 'segm': None}
            for p, a in zip(params, args):
                d[p] = a
            d.update(kwargs)
            if not isinstance(d.get('arg'), Term):
                raise LiftError('ValueError', 'arg must be expr', n)
            return TMem(d['arg'], d['size'], d['segm'])
        if name == 'ExprOp':
            if not args:
                raise LiftError('TypeError', 'ExprOp() missing op', n)
            return TOp(args[0], args[1:])
        if name == 'ExprCond':
            if len(args) != 3:
                raise LiftError('TypeError', 'ExprCond() takes 3 arguments', n)
            return TCond(*args)
        if name == 'ExprSlice':
            if len(args) != 3:
                raise LiftError('TypeError', 'ExprSlice() takes 3 arguments', n)
            return TSlice(*args)
        if name == 'ExprCompose':
            if len(args) != 1:
                raise LiftError('TypeError', 'ExprCompose() takes 1 argument', n)
            return TCompose(list(args[0]))
        if name == 'ExprAff':
            if len(args) != 2:
                raise LiftError('TypeError', 'ExprAff() takes 2 arguments', n)
            return TAff(args[0], args[1])
        if name == 'builtin.range':
            for a in args:
                if not isinstance(a, int):
                    raise LiftUnknown('range of non-int')
            return list(range(*args))
        if name == 'builtin.reversed':
            return list(reversed(list(args[0])))
        if name == 'builtin.sum':
            vals = list(args[0])
            if all(isinstance(v, int) for v in vals):
                return sum(vals)
            raise LiftUnknown('sum over symbolic values')
        if name == 'builtin.enumerate':
            start = args[1] if len(args) > 1 else kwargs.get('start', 0)
            return [(i + start, v) for i, v in enumerate(list(args[0]))]
        if name == 'builtin.zip':
            return [tuple(t) for t in zip(*[list(a) for a in args])]
        if name == 'builtin.len':
            if isinstance(args[0], Term):
                raise LiftError('TypeError', 'object of type Expr has no len()', n)
            return len(args[0])
        if name == 'builtin.isinstance':
            v, c = args
            classes = c if isinstance(c, tuple) else (c,)
            for cl in classes:
                if isinstance(cl, Ctor) and cl.name in KIND_OF_CTOR:
                    if isinstance(v, Term) and v.kind == KIND_OF_CTOR[cl.name]:
                        return True
                elif isinstance(cl, Ctor) and cl.name == 'builtin.int':
                    if isinstance(v, int):
                        return True
                else:
                    raise LiftUnknown('isinstance against %r' % (cl,))
            return False
        if name == 'builtin.print':
            return None
        if name == 'builtin.int':
            v = args[0]
            if isinstance(v, (Sym, ModVal)):
                return Sym('int') if (isinstance(v, Sym) or v.val is None) else v.val
            return int(v)
        if name == 'builtin.sorted':
            try:
                return sorted(args[0])
            except TypeError:
                raise LiftUnknown('sorted of unorderable values')
        if name in ('builtin.min', 'builtin.max'):
            vals = list(args[0]) if len(args) == 1 else list(args)
            try:
                return (min if name == 'builtin.min' else max)(vals)
            except TypeError:
                raise LiftUnknown('%s of unorderable values' % name)
        if name in ('builtin.any', 'builtin.all'):
            vals = list(args[0])
            if any(isinstance(v, (Sym, Unknown)) for v in vals):
                raise LiftUnknown('%s over symbolic values' % name)
            return (any if name == 'builtin.any' else all)(vals)
        if name in ('builtin.list', 'builtin.tuple'):
            return list(args[0]) if args else []
        if name == 'builtin.dict':
            return dict(*args, **kwargs)
        if name == 'builtin.type':
            v = args[0]
            if isinstance(v, ModVal):
                return Ctor('uint%d' % v.size)
            if isinstance(v, bool):
                return Ctor('builtin.bool')
            if isinstance(v, int):
                return Ctor('builtin.int')
            if isinstance(v, str):
                return Ctor('builtin.str')
            return Ctor('builtin.type.' + type(v).__name__)
        if name == 'builtin.set':
            return set(hkey(x) for x in args[0]) if args else set()
        if name.startswith('module.struct') or name.startswith('module.math'):
            return Sym(name)
        if name.startswith('builtin.ValueError'):
            return Sym('exc')
        raise LiftUnknown('call of %s' % name)


class BoundMethod(object):
    def __init__(self, obj, name):
        self.obj, self.name = obj, name

    def call(self, fr, args, kwargs, n):
        o, m = self.obj, self.name
        if isinstance(o, Term):
            if m == 'get_size':
                return term_size(o, n)
            if m == 'copy':
                return o
            if m == 'replace_expr':
                d = args[0] if args else {}
                return subst(o, dict((k, v) for k, v in d.items()))
            raise LiftUnknown('method %s on term' % m)
        if isinstance(o, list):
            if m == 'append':
                o.append(args[0])
                return None
            if m == 'extend':
                o.extend(list(args[0]))
                return None
            if m == 'reverse':
                o.reverse()
                return None
            if m == 'insert':
                o.insert(args[0], args[1])
                return None
            if m == 'index':
                for i, x in enumerate(o):
                    if eq(x, args[0]):
                        return i
                raise LiftError('ValueError', 'value is not in list', n)
            if m == 'pop':
                return o.pop(*args)
            if m == 'sort':
                raise LiftUnknown('sort')
        if isinstance(o, dict):
            if m == 'keys':
                return list(o.keys())
            if m == 'values':
                return list(o.values())
            if m == 'items':
                return list(o.items())
            if m == 'get':
                return o.get(hkey(args[0]), args[1] if len(args) > 1 else None)
        if isinstance(o, str):
            if m in ('startswith', 'endswith', 'lower', 'upper', 'join', 'format'):
                return getattr(o, m)(*args)
        if isinstance(o, int) and m in ('bit_length', 'bit_count') and not args:
            return getattr(o, m)()
        raise LiftUnknown('method %s on %r' % (m, type(o).__name__))


class InfoObj(object):
    def __init__(self, opmode, admode='u32'):
        self.opmode, self.admode = opmode, admode
        self.offset = Sym('offset')


def hkey(k):
    if isinstance(k, Ctor):
        return ('ctor', k.name)
    if isinstance(k, Term):
        return ('term', k.key())
    if isinstance(k, ModVal):
        return k.key()
    if isinstance(k, list):
        return tuple(k)
    return k


def eq(a, b):
    if isinstance(a, Ctor) or isinstance(b, Ctor):
        return isinstance(a, Ctor) and isinstance(b, Ctor) and a.name == b.name
    if isinstance(a, Term) or isinstance(b, Term):
        return isinstance(a, Term) and isinstance(b, Term) and a.key() == b.key()
    if isinstance(a, ModVal) and isinstance(b, ModVal):
        return a.val == b.val
    if isinstance(a, ModVal):
        return a.val == b
    if isinstance(b, ModVal):
        return b.val == a
    return a == b


def term_size(t, node):
    if not isinstance(t, Term):
        raise LiftError('AttributeError', '%r object has no attribute get_size' % type(t).__name__, node)
    try:
        return get_size(t)
    except SizeError as e:
        raise LiftError('IndexError', str(e), node)
    except AttributeError as e:
        raise LiftError('AttributeError', str(e), node)


def subst(t, d):
    """replace_expr: visit-based substitution on terms (dict keyed by hkey(term))."""
    k = hkey(t)
    def rec(x):
        if not isinstance(x, Term):
            return x
        kind = x.kind
        if kind == 'Int' or kind == 'Id':
            new = x
        elif kind == 'Mem':
            new = TMem(rec(x.arg), x.size, rec(x.segm) if isinstance(x.segm, Term) else x.segm)
        elif kind == 'Op':
            new = TOp(x.op, [rec(a) for a in x.args])
        elif kind == 'Cond':
            new = TCond(rec(x.cond), rec(x.src1), rec(x.src2))
        elif kind == 'Slice':
            new = TSlice(rec(x.arg), x.start, x.stop)
        elif kind == 'Compose':
            new = TCompose([(rec(a[0]), a[1], a[2]) for a in x.args])
        elif kind == 'Aff':
            new = TAff(rec(x.dst), rec(x.src))
        else:
            new = x
        hk = hkey(new)
        if hk in d:
            return d[hk]
        return new
    return rec(t)


def _load(t):
    import copy
    t2 = copy.deepcopy(t)
    for n in ast.walk(t2):
        if hasattr(n, 'ctx'):
            n.ctx = ast.Load()
    return t2


def walk_terms(t):
    """Pre-order walk over a term tree."""
    if not isinstance(t, Term):
        return
    yield t
    k = t.kind
    if k == 'Mem':
        for x in walk_terms(t.arg):
            yield x
        if isinstance(t.segm, Term):
            for x in walk_terms(t.segm):
                yield x
    elif k == 'Op':
        for a in t.args:
            for x in walk_terms(a):
                yield x
    elif k == 'Cond':
        for a in (t.cond, t.src1, t.src2):
            for x in walk_terms(a):
                yield x
    elif k == 'Slice':
        for x in walk_terms(t.arg):
            yield x
    elif k == 'Compose':
        for a in t.args:
            for x in walk_terms(a[0]):
                yield x
    elif k == 'Aff':
        for a in (t.dst, t.src):
            for x in walk_terms(a):
                yield x
