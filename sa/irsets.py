"""Read/write sets and small abstract domains over E4 templates (terms of sa.lifter)."""
import itertools
import os

from .core import AnalysisError, VERIF
from .lifter import Term, walk_terms, get_size, SizeError, show

FLAGS = ('of', 'nf', 'zf', 'af', 'pf', 'cf', 'df')


GETR_SPEC = None     # set by load_getr_spec(): {kind: [(field, forwards mem_read)]} derived from expression.py


def load_getr_spec(ctx):
    """Which fields each node class's get_r descends into, and whether it forwards its mem_read parameter -- read from
    expression.py through the field matrix (E6), so that a get_r that skips a child or drops the flag shows up in every
    read set computed here."""
    global GETR_SPEC
    from .fieldmatrix import Matrix, NODE_CLASSES
    import ast as _ast
    mod = ctx.mod('expression')
    M = Matrix(mod)
    spec = {}
    for c in NODE_CLASSES:
        mi = M.methods[c].get('get_r')
        kind = c[4:]
        ent = []
        if mi is not None:
            params = [a.arg for a in mi.fn.args.args]
            mr = params[1] if len(params) > 1 else None
            for f, meth, call in mi.calls:
                if meth == 'get_r':
                    passed = [_ast.unparse(a) for a in call.args] + [_ast.unparse(k.value) for k in call.keywords]
                    ent.append((f, mr in passed))
        spec[kind] = ent
    GETR_SPEC = spec
    return spec


def reads_of(t, mem_read=True):
    """get_r(mem_read) as expression.py defines it (per-class recursion taken from GETR_SPEC when loaded), on terms:
    identifiers (by name) and memory cells (terms)."""
    ids, mems = set(), set()
    spec = GETR_SPEC

    def fields(x):
        k = x.kind
        if spec is not None:
            return spec.get(k, [])
        return {'Mem': [('arg', True)], 'Op': [('args', True)], 'Cond': [('cond', True), ('src1', True), ('src2', True)],
                'Slice': [('arg', True)], 'Compose': [('args', True)], 'Aff': [('src', True)]}.get(k, [])

    def rec(x, mr):
        k = x.kind
        if k == 'Id':
            ids.add(x.name)
            return
        if k == 'Mem':
            mems.add(x)
            if not mr:
                return
        for f, fw in fields(x):
            v = getattr(x, f, None)
            sub_mr = mr if fw else False
            if isinstance(v, Term):
                rec(v, sub_mr)
            elif isinstance(v, (list, tuple)):
                for a in v:
                    if isinstance(a, Term):
                        rec(a, sub_mr)
                    elif isinstance(a, tuple) and a and isinstance(a[0], Term):
                        rec(a[0], sub_mr)
    if isinstance(t, Term):
        rec(t, mem_read)
    return ids, mems


def rw_sets(template):
    """(read ids, read mems, written ids, written mems) of a list of assignments.  The address of a memory destination is
    counted as read (clients compute dst.arg.get_r())."""
    rid, rmem, wid, wmem = set(), set(), set(), set()
    for aff in template:
        if not (isinstance(aff, Term) and aff.kind == 'Aff'):
            continue
        a, b = reads_of(aff.src)
        rid |= a
        rmem |= b
        d = aff.dst
        if d.kind == 'Slice':
            d = d.arg
        if d.kind == 'Id':
            wid.add(d.name)
        elif d.kind == 'Mem':
            wmem.add(d)
            a, b = reads_of(d.arg)
            rid |= a
            rmem |= b
    return rid, rmem, wid, wmem


def mem_mentions(mems, regname):
    for m in mems:
        ids, _ = reads_of(m.arg)
        if regname in ids:
            return True
    return False


# ---------------------------------------------------------------- boolean / small-integer domain

class Refuse(Exception):
    pass


def eval_small(t, val, atoms=None):
    """Exact value (mod 2^width) of a term whose leaves are flags (valuation `val`), constants and *atoms* (non-flag
    sub-terms used only through their truthiness, given 0/1 values in `atoms` keyed by show()).  Refuses anything else."""
    k = t.kind
    if k == 'Int':
        if t.mod.val is None:
            raise Refuse('symbolic constant')
        return t.mod.val, t.mod.size
    if k == 'Id':
        if t.name in val:
            return val[t.name], t.size
        if atoms is not None and show(t) in atoms:
            return atoms[show(t)], t.size
        raise Refuse('identifier %s' % t.name)
    if atoms is not None and show(t) in atoms:
        try:
            w = get_size(t)
        except SizeError:
            w = 32
        return atoms[show(t)], w
    if k == 'Cond':
        c, _ = eval_small(t.cond, val, atoms)
        return eval_small(t.src1 if c != 0 else t.src2, val, atoms)
    if k == 'Op':
        vs = [eval_small(a, val, atoms) for a in t.args]
        w = vs[0][1] if vs else 1
        m = (1 << w) - 1
        if t.op == '-' and len(vs) == 1:
            return (-vs[0][0]) & m, w
        if t.op == '+':
            return sum(v for v, _ in vs) & m, w
        if t.op == '-' and len(vs) == 2:
            return (vs[0][0] - vs[1][0]) & m, w
        if t.op == '^':
            r = 0
            for v, _ in vs:
                r ^= v
            return r & m, w
        if t.op == '&':
            r = m
            for v, _ in vs:
                r &= v
            return r & m, w
        if t.op == '|':
            r = 0
            for v, _ in vs:
                r |= v
            return r & m, w
        if t.op == '==':
            return int(vs[0][0] == vs[1][0]), w
        if t.op in ('<<', '>>', 'a>>', '<<<', '>>>') and len(vs) == 2:
            v, n_ = vs[0][0] & m, vs[1][0]
            if t.op == '<<':
                return ((v << n_) & m) if n_ < w else 0, w
            if t.op == '>>':
                return (v >> n_) if n_ < w else 0, w
            if t.op == 'a>>':
                sv = v - (1 << w) if v >> (w - 1) else v
                return (sv >> min(n_, w)) & m, w
            r_ = (n_ & 0x1F) % w
            if t.op == '<<<':
                return ((v << r_) | (v >> (w - r_))) & m if r_ else v, w
            return ((v >> r_) | (v << (w - r_))) & m if r_ else v, w
        if t.op in ('<<<c_rez', '<<<c_cf', '>>>c_rez', '>>>c_cf') and len(vs) == 3:
            v, n_, c_ = vs[0][0] & m, vs[1][0], vs[2][0] & 1
            r_ = (n_ & 0x1F) % (w + 1)
            big = (v << 1) | c_
            full = (1 << (w + 1)) - 1
            if t.op.startswith('<<<'):
                rot = ((big << r_) | (big >> (w + 1 - r_))) & full
            else:
                rot = ((big >> r_) | (big << (w + 1 - r_))) & full
            return ((rot >> 1) & m, w) if t.op.endswith('rez') else (rot & 1, w)
        if t.op == '!' and len(vs) == 1:
            return (~vs[0][0]) & m, w
        if t.op == 'parity' and len(vs) == 1:
            return 1 - bin(vs[0][0] & 0xFF).count('1') % 2, 1
        if t.op == '*':
            r = 1
            for v, _ in vs:
                r *= v
            return r & m, w
        raise Refuse('operator %s' % t.op)
    if k == 'Slice':
        v, w = eval_small(t.arg, val, atoms)
        return (v >> t.start) & ((1 << (t.stop - t.start)) - 1), t.stop - t.start
    if k == 'Compose':
        r = 0
        for a in t.args:
            v, w = eval_small(a[0], val, atoms)
            r |= (v & ((1 << (a[2] - a[1])) - 1)) << a[1]
        return r, max(a[2] for a in t.args)
    raise Refuse('node %s' % k)


def flag_atoms(t):
    """Flags mentioned and candidate atoms (maximal non-flag, non-constant sub-terms in truthiness positions)."""
    flags = set()
    for x in walk_terms(t):
        if x.kind == 'Id' and x.name in FLAGS:
            flags.add(x.name)
    return flags


def msb_function(t, words):
    """Bit-slice domain: value of a term built from ^ & | ~ of the symbolic words (names in `words`) followed by msb slices,
    as a boolean function of the words' most significant bits.  Returns dict valuation-tuple -> 0/1."""
    def ev(x, bits, at_msb):
        k = x.kind
        if k == 'Id':
            if x.name in bits:
                return bits[x.name]
            raise Refuse('identifier %s' % x.name)
        if k == 'Int':
            if x.mod.val == (1 << x.mod.size) - 1:
                return 1
            if x.mod.val == 0:
                return 0
            raise Refuse('constant')
        if k == 'Op' and x.op in ('^', '&', '|') and len(x.args) >= 2:
            vs = [ev(a, bits, at_msb) for a in x.args]
            r = vs[0]
            for v in vs[1:]:
                r = (r ^ v) if x.op == '^' else ((r & v) if x.op == '&' else (r | v))
            return r
        if k == 'Slice':
            w = get_size(x.arg)
            if x.stop - x.start == 1 and x.stop == w:
                return ev(x.arg, bits, True)
            raise Refuse('slice other than the msb')
        raise Refuse('node %s %s' % (k, getattr(x, 'op', '')))
    out = {}
    for combo in itertools.product((0, 1), repeat=len(words)):
        bits = dict(zip(words, combo))
        out[combo] = ev(t, bits, False)
    return out


# ---------------------------------------------------------------- reference files

def load_cc_ref():
    out = {}
    with open(os.path.join(VERIF, 'ref', 'ia32_cc.ref')) as f:
        for line in f:
            line = line.split('#')[0].rstrip()
            if not line.strip():
                continue
            code, names, pred = line.split(None, 2)
            out[int(code)] = {'names': names.split(','), 'pred': pred.strip()}
    return out


def cc_predicate(pred):
    """Python callable over a valuation dict {cf,zf,nf,of,pf} from the reference notation."""
    src = pred.replace('CF', 'v["cf"]').replace('ZF', 'v["zf"]').replace('SF', 'v["nf"]').replace('OF', 'v["of"]').replace('PF', 'v["pf"]')
    code = compile(src, '<cc.ref>', 'eval')
    return lambda v: bool(eval(code, {'__builtins__': {}}, {'v': v}))


def cc_flags(pred):
    m = {'CF': 'cf', 'ZF': 'zf', 'SF': 'nf', 'OF': 'of', 'PF': 'pf'}
    return set(v for k, v in m.items() if k in pred)


def load_effects_ref():
    out = {}
    with open(os.path.join(VERIF, 'ref', 'ia32_effects.ref')) as f:
        for ln, line in enumerate(f, 1):
            line = line.rstrip()
            if not line.strip() or line.startswith('# ') or line.strip() == '#' or line.startswith('#\t'):
                continue
            parts = line.split()
            mn = parts[0]
            e = {'F': set(), 'U': set(), 'D': set(), 'R': [], 'W': [], 'Z': None, 'line': ln, 'ext': False}
            for p in parts[1:]:
                if p == 'X':
                    e['ext'] = True
                    continue
                k, v = p.split(':', 1)
                vals = [] if v == '-' else v.split(',')
                if k in ('F', 'U', 'D'):
                    e[k] = set(vals)
                elif k in ('R', 'W'):
                    out_ = []
                    for v_ in vals:
                        if v_ == 'POP':
                            out_ += (['float_st%d' % i for i in range(1, 8)] if k == 'R' else ['float_st%d' % i for i in range(8)]) + ['float_stack_ptr']
                        elif v_ == 'PUSH':
                            out_ += (['float_st%d' % i for i in range(0, 7)] if k == 'R' else ['float_st%d' % i for i in range(8)]) + ['float_stack_ptr']
                        else:
                            out_.append(v_)
                    e[k] = out_
                elif k == 'Z':
                    e['Z'] = v
                else:
                    raise AnalysisError('ia32_effects.ref line %d: unknown field %s' % (ln, k))
            out[mn] = e
    return out
