"""Classes of a source module interpreted by the checker's evaluator (shared by exprobj and the fixed-width-integer laws of C14).

`ClassWorld(mod, env)` turns the classes of one module into checker-side classes whose methods are the FunctionDefs of the source: constructors,
the special methods behind python operators (through trampolines), class-level attributes, classmethods (decorator or `name = classmethod(name)`),
wrapped methods (`name = decorator(name)`: closures).  Nothing of the repository is imported.
"""
import ast
import sys

from .core import AnalysisError
from .consteval import Evaluator, Obj, Native, NotConst, PyRaise, Closure, Opaque, ClassMethodVal

DUNDERS_1 = ('__neg__', '__invert__', '__hash__', '__abs__', '__int__', '__bool__', '__index__')
DUNDERS_2 = ('__eq__', '__ne__', '__lt__', '__le__', '__gt__', '__ge__', '__contains__', '__getitem__', '__add__', '__sub__', '__mul__', '__xor__', '__and__', '__or__', '__lshift__', '__rshift__',
             '__mod__', '__pow__', '__radd__', '__rsub__', '__rmul__', '__rxor__', '__rand__', '__ror__', '__rlshift__', '__rrshift__', '__rmod__', '__rpow__', '__floordiv__', '__truediv__')


def operator_model():
    op_mod = Obj('operator')
    for nm_, f_ in (('add', lambda a, b: a + b), ('sub', lambda a, b: a - b), ('mul', lambda a, b: a * b), ('xor', lambda a, b: a ^ b), ('and_', lambda a, b: a & b),
                    ('or_', lambda a, b: a | b), ('rshift', lambda a, b: a >> b), ('lshift', lambda a, b: a << b), ('neg', lambda a: -a), ('eq', lambda a, b: a == b), ('ne', lambda a, b: a != b),
                    ('lt', lambda a, b: a < b), ('le', lambda a, b: a <= b), ('gt', lambda a, b: a > b), ('ge', lambda a, b: a >= b), ('mod', lambda a, b: a % b), ('invert', lambda a: ~a)):
        setattr(op_mod, nm_, Native(f_))
    return op_mod


class SrcObj(Obj):
    """Instance of an interpreted class."""
    _world = None
    _cname = '?'

    def __getattr__(self, k):
        d = self.__dict__
        if k in d.get('_attrs', {}):
            return d['_attrs'][k]
        cattrs = type(self)._class_attrs()
        if k in cattrs:
            return cattrs[k]
        meths = type(self)._methods_of()
        if k in meths and isinstance(meths[k], ast.FunctionDef) and self._world is not None:
            # a bound method used as a value (`{ExprId: self.eval_ExprId, ..}[c](e)`)
            w_, m_ = self._world, meths[k]
            return Native(lambda *a, **kw: w_.ev.call_value(m_, [self] + list(a), kw or None))
        raise PyRaise('%s object has no attribute %s' % (type(self)._cname, k), 'AttributeError')

    def __repr__(self):
        try:
            return SE.show(self._world.to_native(self))
        except Exception:
            return '<%s>' % type(self)._cname


class ClassWorld(object):
    def __init__(self, mod, env, wanted=None):
        self.mod = mod
        env.setdefault('hash', Native(hash))
        env.setdefault('id', Native(id))
        env.setdefault('classmethod', Native(lambda f: ClassMethodVal(f)))
        env.setdefault('staticmethod', Native(lambda f: f))
        self.env = env
        self.ev = Evaluator(env)
        self.classes = {}
        self.wanted = wanted
        self.unevaluated = {}          # module-level names whose value the evaluator could not compute
        env.setdefault('operator', operator_model())
        # module-level statements in source order (descending into try / if bodies): tables, functions, classes
        for st in mod.toplevel():
            if isinstance(st, ast.FunctionDef):
                env[st.name] = st
            elif isinstance(st, ast.ClassDef):
                self._build_class(st)
            elif isinstance(st, ast.Assign) and len(st.targets) == 1 and isinstance(st.targets[0], ast.Name) and st.targets[0].id not in env:
                try:
                    env[st.targets[0].id] = self.ev.ev(st.value)
                except NotConst as e:
                    self.unevaluated[st.targets[0].id] = str(e)

    # ------------------------------------------------------------------ classes
    def _build_class(self, cdef):
        bases = []
        for b in cdef.bases:
            if isinstance(b, ast.Name) and b.id in self.classes:
                bases.append(self.classes[b.id])
            elif isinstance(b, ast.Name) and b.id == 'object':
                pass
            else:
                return                      # a class this engine does not need
        world = self
        scope = {}
        own_methods, own_attrs = {}, {}
        for st in cdef.body:
            if isinstance(st, ast.FunctionDef):
                val = st
                if any(isinstance(d, ast.Name) and d.id == 'classmethod' for d in st.decorator_list):
                    val = ClassMethodVal(st)
                scope[st.name] = val
                own_methods[st.name] = val
            elif isinstance(st, ast.Assign) and len(st.targets) == 1 and isinstance(st.targets[0], ast.Name):
                try:
                    v = self.ev.ev(st.value, scope)
                except NotConst:
                    continue
                nm = st.targets[0].id
                scope[nm] = v
                if isinstance(v, (ast.FunctionDef, Closure, Native, ClassMethodVal)) or (isinstance(v, Opaque) and isinstance(getattr(v, 'node', None), ast.Lambda)):
                    own_methods[nm] = v
                else:
                    own_attrs[nm] = v
        pybases = tuple(bases) or (SrcObj,)
        ns = {'_cname': cdef.name, '_world': self, '_own_methods': own_methods, '_own_attrs': own_attrs, '_cdef': cdef}

        def _methods(cls):
            out = {}
            for k in reversed(cls.__mro__):
                out.update(k.__dict__.get('_own_methods', {}))
            return out

        def _class_attrs(cls):
            out = {}
            for k in reversed(cls.__mro__):
                out.update(k.__dict__.get('_own_attrs', {}))
            return out
        ns['_methods_of'] = classmethod(_methods)
        ns['_class_attrs'] = classmethod(_class_attrs)

        def __init__(self, *a, **kw):
            Obj.__init__(self, type(self)._cname)
            meths = type(self)._methods_of()
            self.__dict__['_methods'] = meths
            if '__init__' in meths:
                world.ev.call_value(meths['__init__'], [self] + list(a), kw)
            elif a or kw:
                raise TypeError('%s() takes no arguments' % type(self)._cname)
        ns['__init__'] = __init__
        cls = type(cdef.name, pybases, ns)
        all_m = cls._methods_of()
        for d in DUNDERS_1:
            if d in all_m:
                setattr(cls, d, (lambda name: (lambda self: world._call(self, name, [])))(d))
        for d in DUNDERS_2:
            if d in all_m:
                setattr(cls, d, (lambda name: (lambda self, o: world._call(self, name, [o])))(d))
        if '__eq__' in all_m and '__hash__' not in all_m:
            cls.__hash__ = None
        self.classes[cdef.name] = cls
        self.env[cdef.name] = cls

    def _call(self, obj, name, args):
        return self.ev.call_value(type(obj)._methods_of()[name], [obj] + list(args))

    # ------------------------------------------------------------------ calling the source
    def call(self, f, *args):
        """('ok', value) | ('raises', name) | ('loops', why).  f: function name of expression.py, or (object, method name)."""
        old = sys.getrecursionlimit()
        sys.setrecursionlimit(max(old, 12000))
        try:
            if isinstance(f, tuple):
                obj, name = f
                m = type(obj)._methods_of().get(name)
                if m is None:
                    return 'raises', 'AttributeError(%s)' % name
                return 'ok', self.ev.call_value(m, [obj] + list(args))
            return 'ok', self.ev.call_value(self.env[f], list(args))
        except PyRaise as ex:
            return 'raises', ex.exc_name
        except RecursionError:
            return 'loops', 'unbounded recursion'
        except NotConst as ex:
            msg = str(ex)
            if 'does not terminate within the evaluation bound' in msg:
                return 'loops', msg
            if msg.startswith('name '):
                if msg[5:] in self.unevaluated:
                    raise AnalysisError('%s: the module-level value of %s is outside the evaluable subset (%s)' % (self.mod.name, msg[5:], self.unevaluated[msg[5:]]))
                return 'raises', 'NameError(%s)' % msg[5:]
            raise AnalysisError('expression.py: %s is outside the evaluable subset: %s' % (f if not isinstance(f, tuple) else '%s.%s' % (type(f[0])._cname, f[1]), msg))
        except (TypeError, ValueError, KeyError, IndexError, AttributeError, ZeroDivisionError) as ex:
            return 'raises', type(ex).__name__
        finally:
            sys.setrecursionlimit(old)

