"""E7 (PowerPC part): static model of the ppc_arch instruction classes, built
from the class declarations only (mask_list, mask, namestr, name dicts, do_args)."""
import ast

from .core import AnalysisError
from .consteval import Evaluator, NotConst, Opaque
from .shapes import u


class BmSet(object):
    def __init__(self, off, l, values, node):
        self.off, self.l, self.values, self.node = off, l, values, node   # off = bit offset from the MSB (bit 0 = MSB)


class Field(object):
    def __init__(self, cname, l, fbits, props, start):
        self.cname, self.l, self.fbits, self.props, self.start = cname, l, fbits, props, start   # start: offset from MSB

    @property
    def pname(self):
        return self.cname[3:] if self.cname.startswith('bm_') else None


class PpcClass(object):
    pass


def c3(name, bases_of):
    def merge(seqs):
        res = []
        seqs = [list(s) for s in seqs if s]
        while seqs:
            for s in seqs:
                cand = s[0]
                if not any(cand in t[1:] for t in seqs):
                    break
            else:
                raise AnalysisError('inconsistent MRO for %s' % name)
            res.append(cand)
            seqs = [[x for x in s if x != cand] for s in seqs]
            seqs = [s for s in seqs if s]
        return res
    bs = bases_of.get(name, [])
    return [name] + merge([c3(b, bases_of) for b in bs if b in bases_of] + [[b for b in bs if b in bases_of]])


class PpcModel(object):
    def __init__(self, ctx):
        self.mod = mod = ctx.mod('ppc_arch')
        self.bases_of = dict((c, [u(b) for b in cd.bases]) for c, cd in mod.classes.items())
        # field classes
        self.bm = {}
        for cname, cd in mod.classes.items():
            if cname.startswith('bm_') and cname not in ('bm_meta', 'bm_base', 'bm_set_meta', 'bm_set_base', 'bm_set'):
                ca = mod.class_assigns(cname)
                l = ca['l'].value if 'l' in ca and isinstance(ca['l'], ast.Constant) else None
                fb = ca['fbits'].value if 'fbits' in ca and isinstance(ca['fbits'], ast.Constant) else None
                props = []
                if 'p_property' in ca:
                    try:
                        props = list(Evaluator({}).ev(ca['p_property']))
                    except NotConst:
                        raise AnalysisError('%s.p_property not evaluable' % cname)
                checkinv = 'checkinv' in ca and u(ca['checkinv']) == 'True'
                meths = set(mod.methods(cname))
                self.bm[cname] = {'l': l if fb is None else len(fb), 'fbits': fb, 'props': [cname[3:]] + props,
                                  'checkinv': checkinv, 'methods': meths, 'node': cd}
        # tab_mn
        try:
            tv = mod.assign_value('tab_mn')
        except AnalysisError:
            raise
        if not isinstance(tv, ast.List) or not all(isinstance(e, ast.Name) for e in tv.elts):
            raise AnalysisError('tab_mn is not a literal list of class names')
        self.tab_mn = [e.id for e in tv.elts]
        self.classes = {}
        for cname in self.tab_mn:
            if cname not in mod.classes:
                raise AnalysisError('tab_mn names unknown class %s' % cname)
        for cname in mod.classes:
            if cname.startswith('ppc_') and cname not in ('ppc_mnemo_metaclass', 'ppc_mn_base'):
                self.classes[cname] = self._class(cname)

    def field_info(self, name):
        if name in self.bm:
            return self.bm[name]
        if name.startswith('bm_int') and name[6:] and all(c in '01' for c in name[6:]) and len(name[6:]) <= 6:
            bits = name[6:]
            return {'l': len(bits), 'fbits': bits, 'props': [name[3:]], 'checkinv': False, 'methods': set(), 'node': None}
        raise AnalysisError('unknown field class %s' % name)

    def _class(self, cname):
        mod = self.mod
        cd = mod.cls(cname)
        c = PpcClass()
        c.name, c.node = cname, cd
        c.mro = [x for x in c3(cname, self.bases_of)]
        # evaluate the class body in order (own namespace), inheriting nothing (class bodies do not see base attrs)
        ns = {}
        ev = Evaluator(ns, opaque_names=True)
        c.own = {}
        c.bmsets = []
        for st in cd.body:
            if isinstance(st, ast.Assign) and len(st.targets) == 1 and isinstance(st.targets[0], ast.Name):
                nm = st.targets[0].id
                if nm == 'mask':
                    if not isinstance(st.value, ast.Dict):
                        raise AnalysisError('%s.mask is not a dict literal' % cname)
                    for k, v in zip(st.value.keys, st.value.values):
                        off = ev.ev(k)
                        if not (isinstance(v, ast.Call) and u(v.func) == 'bm_set_meta' and len(v.args) == 3):
                            raise AnalysisError('%s.mask value is not a bm_set_meta(...) call' % cname)
                        try:
                            d = ev.ev(v.args[2])
                        except NotConst as e:
                            raise AnalysisError('%s.mask not evaluable: %s' % (cname, e))
                        vals = list(d['fbits'])
                        c.bmsets.append(BmSet(off, d.get('l', 9), vals, st))
                    c.own['mask'] = True
                    continue
                try:
                    val = ev.ev(st.value)
                except NotConst:
                    val = Opaque('unevaluable', st.value)
                ns[nm] = val
                c.own[nm] = val
        c.methods = mod.methods(cname)
        return c

    def attr(self, cname, name):
        """Class attribute resolved through the MRO (data attributes only)."""
        for k in self.classes[cname].mro:
            if k in self.classes and name in self.classes[k].own:
                return k, self.classes[k].own[name]
        return None, None

    def method(self, cname, name):
        for k in self.classes[cname].mro:
            if k in self.classes and name in self.classes[k].methods:
                return k, self.classes[k].methods[name]
            if k == 'ppc_mn' and name in self.mod.methods('ppc_mn'):
                return k, self.mod.methods('ppc_mn')[name]
        return None, None

    def fields(self, cname):
        c = self.classes[cname]
        ml = c.own.get('mask_list')
        if ml is None:
            raise AnalysisError('%s has no own mask_list' % cname)
        out = []
        start = 0
        for f in ml:
            if not isinstance(f, Opaque):
                raise AnalysisError('%s.mask_list entry not a class name' % cname)
            info = self.field_info(f.what)
            if info['l'] is None:
                raise AnalysisError('field class %s has no width' % f.what)
            out.append(Field(f.what, info['l'], info['fbits'], info['props'], start))
            start += info['l']
        return out
