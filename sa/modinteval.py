"""The fixed-width integer classes of miasmx/tools/modint.py interpreted from their source (srcclasses.ClassWorld) and every operator
evaluated on boundary vectors of every class and class pair against the mathematical definition (C14).

Domain: the 11 width classes x boundary values (0, 1, 2, all ones / -1, the sign bit, the largest and smallest value, their neighbours) x
class pairs (every class with itself and with five partners of other widths / signedness) x plain integers inside and outside the range x
shift counts around each width and far beyond it.  The domain is determined by the class declarations (widths, signedness), not sampled
from program inputs.  A construct outside the evaluable subset is an ANALYSIS-ERROR.
"""
import ast

from .core import AnalysisError
from .consteval import NotConst, PyRaise
from .srcclasses import ClassWorld, SrcObj

BIN = {'+': lambda a, b: a + b, '-': lambda a, b: a - b, '*': lambda a, b: a * b, '&': lambda a, b: a & b, '|': lambda a, b: a | b, '^': lambda a, b: a ^ b}
CMP = {'==': lambda a, b: a == b, '!=': lambda a, b: a != b, '<': lambda a, b: a < b, '<=': lambda a, b: a <= b, '>': lambda a, b: a > b, '>=': lambda a, b: a >= b}
PYOP = {'+': '__add__', '-': '__sub__', '*': '__mul__', '&': '__and__', '|': '__or__', '^': '__xor__', '<<': '__lshift__', '>>': '__rshift__', '**': '__pow__', '%': '__mod__',
        '==': '__eq__', '!=': '__ne__', '<': '__lt__', '<=': '__le__', '>': '__gt__', '>=': '__ge__'}
ROP = {'+': '__radd__', '-': '__rsub__', '*': '__rmul__', '&': '__rand__', '|': '__ror__', '^': '__rxor__', '<<': '__rlshift__', '>>': '__rrshift__', '%': '__rmod__'}


def reduce_into(v, size, signed):
    v %= 1 << size
    if signed and v >= 1 << (size - 1):
        v -= 1 << size
    return v


class Result(object):
    def __init__(self):
        self.count = {}
        self.bad = {}

    def ok(self, group):
        self.count[group] = self.count.get(group, 0) + 1

    def fail(self, group, kind, msg):
        self.count[group] = self.count.get(group, 0) + 1
        self.bad.setdefault((group, kind), msg)


_CACHE = {}


def evaluate(ctx):
    key = id(ctx)
    if key in _CACHE:
        return _CACHE[key]
    mod = ctx.mod('modint')
    W = ClassWorld(mod, {})
    flags = set()
    W.ev.flags = flags
    classes = {}
    for name, cls in W.classes.items():
        ca = cls._class_attrs()
        if isinstance(ca.get('size'), int) and isinstance(ca.get('limit'), int):
            classes[name] = (cls, ca['size'], 'modint' in [k.__name__ for k in cls.__mro__])
    if len(classes) < 11:
        raise AnalysisError('modint.py: %d width classes found (11 expected)' % len(classes))
    R = Result()

    def vals(size, signed):
        if signed:
            vs = [0, 1, -1, 2, (1 << (size - 1)) - 1, -(1 << (size - 1)), -(1 << (size - 1)) + 1, 0x55 % (1 << (size - 1))]
        else:
            vs = [0, 1, 2, (1 << size) - 1, (1 << size) - 2, 1 << (size - 1), (1 << (size - 1)) - 1, 0x55 % (1 << size)]
        out = []
        for v in vs:
            v = reduce_into(v, size, signed)
            if v not in out:
                out.append(v)
        return out

    def mk(cname, v):
        try:
            return classes[cname][0](v)
        except PyRaise as e:
            return e
        except NotConst as e:
            raise AnalysisError('modint.%s(%d) is outside the evaluable subset: %s' % (cname, v, e))

    def call(o, meth, *args):
        m = type(o)._methods_of().get(meth)
        if m is None:
            return 'missing'
        try:
            return W.ev.call_value(m, [o] + list(args))
        except PyRaise as e:
            return e
        except NotConst as e:
            raise AnalysisError('modint.%s.%s is outside the evaluable subset: %s' % (type(o).__name__, meth, e))
        except (TypeError, ValueError, ZeroDivisionError, OverflowError, AttributeError) as e:
            return PyRaise(repr(e), type(e).__name__)

    def check_fixed(group, what, r, allowed, exact):
        """r must be an instance of one of the allowed classes holding exact reduced into that class"""
        if isinstance(r, PyRaise):
            R.fail(group, 'raises', '%s raises %s' % (what, r.exc_name))
            return
        if not isinstance(r, SrcObj) or type(r).__name__ not in classes:
            R.fail(group, 'unwrapped', '%s returns %r, not a fixed-width integer' % (what, r))
            return
        cn = type(r).__name__
        if cn not in allowed:
            R.fail(group, 'class', '%s returns a %s; the result type is %s' % (what, cn, ' or '.join(sorted(allowed))))
            return
        _, size, signed = classes[cn]
        a_ = r.__dict__['_attrs'].get('arg')
        want = reduce_into(exact, size, signed)
        if a_ != want or isinstance(a_, bool) or not isinstance(a_, int):
            R.fail(group, 'value', '%s = %s(%r); the exact result %d reduced into %s is %d' % (what, cn, a_, exact, cn, want))
        else:
            R.ok(group)
    names = sorted(classes, key=lambda n: (classes[n][1], classes[n][2]))
    partners = ['uint8', 'uint32', 'int32', 'int64', 'uint128']
    # ---- constructors
    for cn in names:
        _, size, signed = classes[cn]
        for v in [0, 1, -1, (1 << size) - 1, 1 << size, (1 << size) + 1, 1 << (size - 1), (1 << (size - 1)) - 1, -(1 << (size - 1)), -(1 << (size - 1)) - 1, 3 * (1 << size) + 5, -(1 << (size + 3)) - 7]:
            check_fixed('ctor', '%s(%d)' % (cn, v), mk(cn, v), {cn}, v)
        for cn2 in partners + [cn]:
            if cn2 not in classes:
                continue
            for v2 in vals(classes[cn2][1], classes[cn2][2])[:6]:
                src = mk(cn2, v2)
                if isinstance(src, PyRaise):
                    continue
                check_fixed('ctor', '%s(%s(%d))' % (cn, cn2, v2), mk(cn, src), {cn}, v2)
    # ---- binary operators on two fixed-width values
    for cn in names:
        _, s1, sg1 = classes[cn]
        for cn2 in [cn] + [p for p in partners if p != cn and p in classes]:
            _, s2, sg2 = classes[cn2]
            allowed = {cn} if s1 > s2 else {cn2} if s2 > s1 else {cn, cn2}
            for a in vals(s1, sg1)[:6]:
                xa = mk(cn, a)
                for b in vals(s2, sg2)[:6]:
                    xb = mk(cn2, b)
                    for op, f in BIN.items():
                        check_fixed('op %s' % op, '%s(%d) %s %s(%d)' % (cn, a, op, cn2, b), call(xa, PYOP[op], xb), allowed, f(a, b))
                    for op, f in CMP.items():
                        r = call(xa, PYOP[op], xb)
                        g = 'cmp %s' % op
                        if isinstance(r, PyRaise) or r == 'missing' or bool(r) != f(a, b):
                            R.fail(g, 'value', '%s(%d) %s %s(%d) gives %s' % (cn, a, op, cn2, b, r.exc_name if isinstance(r, PyRaise) else r))
                        else:
                            R.ok(g)
                    if b != 0:
                        check_fixed('op %', '%s(%d) %% %s(%d)' % (cn, a, cn2, b), call(xa, '__mod__', xb), allowed, a % b)
                    if a == b:
                        eq_ = call(xa, '__eq__', xb)
                        h1, h2 = call(xa, '__hash__'), call(xb, '__hash__')
                        if not isinstance(eq_, PyRaise) and eq_ != 'missing' and bool(eq_) and (isinstance(h1, PyRaise) or h1 != h2):
                            R.fail('hash', 'cross-class', '%s(%d) == %s(%d) but their hashes differ' % (cn, a, cn2, b))
                        else:
                            R.ok('hash')
                    if a == b and cn == cn2:
                        h1, h2 = call(xa, '__hash__'), call(xb, '__hash__')
                        if isinstance(h1, PyRaise) or h1 != h2:
                            R.fail('hash', 'value', 'two %s(%d) hash differently' % (cn, a))
                        else:
                            R.ok('hash')
            # shifts: counts around both widths and far beyond
            for a in vals(s1, sg1)[:5]:
                xa = mk(cn, a)
                for cnt in sorted(set([0, 1, 2, s1 - 1, s1, s1 + 1, s2 - 1, s2, min(s1, s2) + 3, max(s1, s2) - 1])):
                    if not 0 <= cnt < (1 << (s2 - (1 if sg2 else 0))):
                        continue
                    xb = mk(cn2, cnt)
                    check_fixed('op <<', '%s(%d) << %s(%d)' % (cn, a, cn2, cnt), call(xa, '__lshift__', xb), allowed, a << cnt)
                    check_fixed('op >>', '%s(%d) >> %s(%d)' % (cn, a, cn2, cnt), call(xa, '__rshift__', xb), allowed, a >> cnt)
    # ---- mixing with plain integers, direct and reflected
    for cn in names:
        _, size, signed = classes[cn]
        for a in vals(size, signed)[:6]:
            xa = mk(cn, a)
            for k in (0, 1, -1, 5, 1 << size, (1 << size) + 1, -(1 << (size - 1)) - 1, 0xFF):
                for op, f in BIN.items():
                    check_fixed('int %s' % op, '%s(%d) %s %d' % (cn, a, op, k), call(xa, PYOP[op], k), {cn}, f(a, k))
                    check_fixed('int %s (reflected)' % op, '%d %s %s(%d)' % (k, op, cn, a), call(xa, ROP[op], k), {cn}, f(k, a))
                if k != 0:
                    check_fixed('int %', '%s(%d) %% %d' % (cn, a, k), call(xa, '__mod__', k), {cn}, a % k)
                if a != 0:
                    check_fixed('int % (reflected)', '%d %% %s(%d)' % (k, cn, a), call(xa, '__rmod__', k), {cn}, k % a)
                if k == a:
                    hk = call(xa, '__hash__')
                    if isinstance(hk, PyRaise) or hk != hash(k):
                        R.fail('hash', 'int', '%s(%d) == %d but hash(%s(%d)) is not hash(%d): a dictionary keyed by plain integers does not find it' % (cn, a, k, cn, a, k))
                    else:
                        R.ok('hash')
                for op, f in CMP.items():
                    r = call(xa, PYOP[op], k)
                    if isinstance(r, PyRaise) or r == 'missing' or bool(r) != f(a, k):
                        R.fail('cmp %s' % op, 'int', '%s(%d) %s %d gives %s' % (cn, a, op, k, r.exc_name if isinstance(r, PyRaise) else r))
                    else:
                        R.ok('cmp %s' % op)
            for cnt in (0, 1, size - 1, size, size + 1, 2 * size, 200, 1000000, 1 << 70):
                flags.clear()
                check_fixed('int <<', '%s(%d) << %d' % (cn, a, cnt), call(xa, '__lshift__', cnt), {cn}, (a << cnt) if cnt < 4096 else 0)
                if flags:
                    R.fail('int <<', 'unbounded', '%s(%d) << %d builds the shifted integer before reducing it (a count of %d makes a number of that many bits)' % (cn, a, cnt, cnt))
                if cnt <= 1000000:
                    check_fixed('int >>', '%s(%d) >> %d' % (cn, a, cnt), call(xa, '__rshift__', cnt), {cn}, a >> cnt)
            for k in (0, 1, 3, 0x80, -1):
                for cnt_v in [v for v in (0, 1, size - 1) if v == a]:
                    check_fixed('int << (reflected)', '%d << %s(%d)' % (k, cn, a), call(xa, '__rlshift__', k), {cn}, k << a)
                    check_fixed('int >> (reflected)', '%d >> %s(%d)' % (k, cn, a), call(xa, '__rrshift__', k), {cn}, k >> a)
            # unary
            check_fixed('neg', '-%s(%d)' % (cn, a), call(xa, '__neg__'), {cn}, -a)
            check_fixed('invert', '~%s(%d)' % (cn, a), call(xa, '__invert__'), {cn}, ~a)
            check_fixed('abs', 'abs(%s(%d))' % (cn, a), call(xa, '__abs__'), {cn}, abs(a))
            r = call(xa, '__int__')
            if isinstance(r, PyRaise) or r != a:
                R.fail('int()', 'value', 'int(%s(%d)) gives %r' % (cn, a, r))
            else:
                R.ok('int()')
            # powers: small, and an exponent in range whose exact power is astronomically large
            for e in (0, 1, 2, 3, 200):
                check_fixed('pow', '%s(%d) ** %d' % (cn, a, e), call(xa, '__pow__', e), {cn}, a ** e)
            flags.clear()
            r = call(xa, '__pow__', (1 << 64) - 1)
            if flags:
                R.fail('pow', 'exact-power', '%s(%d) ** (2**64 - 1) computes the exact power before reducing it' % (cn, a))
            elif not isinstance(r, PyRaise):
                check_fixed('pow', '%s(%d) ** (2**64-1)' % (cn, a), r, {cn}, pow(a, (1 << 64) - 1, 1 << size))
            for cn2 in ('uint8', 'uint64'):
                if cn2 in classes:
                    _, s2, sg2 = classes[cn2]
                    allowed = {cn} if size > s2 else {cn2} if s2 > size else {cn, cn2}
                    check_fixed('pow', '%s(%d) ** %s(9)' % (cn, a, cn2), call(xa, '__pow__', mk(cn2, 9)), allowed, a ** 9)
    out = {'result': R, 'classes': sorted(classes)}
    _CACHE[key] = out
    return out
