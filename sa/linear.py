"""Linear-use typestate over a function body: a variable holding one component of a value that is being rendered
(or encoded) must reach the output exactly once on every path.

States of the tracked variable: 'L' live (defined, not yet emitted), 'E' emitted once, 'Z' known null/consumed
(assigned a null constant, or on the false branch of a test that it is not null).  An emission in state 'E' is a double
emission; reaching a return in state 'L' is a dropped component."""
import ast

NULLS = (0, None, '')


def _reads(expr, var):
    return any(isinstance(x, ast.Name) and x.id == var and isinstance(x.ctx, ast.Load) for x in ast.walk(expr))


def _nonnull_test(test, var):
    """True if `test` true implies var is not null (conjunction containing var != None / int(var) != 0 / var != '')."""
    parts = test.values if isinstance(test, ast.BoolOp) and isinstance(test.op, ast.And) else [test]
    for p in parts:
        if isinstance(p, ast.Compare) and len(p.ops) == 1 and isinstance(p.ops[0], (ast.NotEq, ast.IsNot)) and _reads(p.left, var) \
                and isinstance(p.comparators[0], ast.Constant) and p.comparators[0].value in NULLS:
            return True
    return False


def _single_nonnull(test, var):
    """test is exactly one non-null comparison of var (so its negation means var is null)"""
    return not isinstance(test, ast.BoolOp) and _nonnull_test(test, var)


class Linear(object):
    def __init__(self, var, on_double, on_drop):
        self.var, self.on_double, self.on_drop = var, on_double, on_drop
        self.emissions = 0
        self.returns = 0

    def emit(self, states, node):
        self.emissions += 1
        if 'E' in states:
            self.on_double(node)
        return set('E' if s in ('L', 'E') else s for s in states)

    def expr_emits(self, e):
        return e is not None and _reads(e, self.var)

    def block(self, stmts, states):
        for st in stmts:
            if not states:
                return states
            states = self.stmt(st, states)
        return states

    def stmt(self, st, states):
        v = self.var
        if isinstance(st, ast.Assign):
            tg = st.targets[0]
            if isinstance(tg, ast.Name) and tg.id == v:
                if isinstance(st.value, ast.Constant) and st.value.value in NULLS:
                    return {'Z'}
                if _reads(st.value, v):
                    return states            # in-place update of the component itself
                return {'L'}                 # (re)definition
            if self.expr_emits(st.value):
                return self.emit(states, st)
            return states
        if isinstance(st, ast.AugAssign):
            if isinstance(st.target, ast.Name) and st.target.id == v:
                return states
            if self.expr_emits(st.value):
                return self.emit(states, st)
            return states
        if isinstance(st, ast.Expr):
            # a call that passes the component somewhere (list.append(component) ...)
            if isinstance(st.value, ast.Call) and any(_reads(a, v) for a in st.value.args):
                return self.emit(states, st)
            return states
        if isinstance(st, ast.Return):
            self.returns += 1
            if st.value is not None and self.expr_emits(st.value):
                states = self.emit(states, st)
            if 'L' in states:
                self.on_drop(st)
            return set()
        if isinstance(st, ast.Raise):
            return set()
        if isinstance(st, ast.If):
            t_states, f_states = set(states), set(states)
            if _single_nonnull(st.test, v):
                f_states = set('Z' if s == 'L' else s for s in states)
            elif _nonnull_test(st.test, v):
                # conjunction: the false branch may be null or not; a live component stays live only if other conjuncts failed.
                # the repository's idiom is `x != None and int(x) != 0`: both conjuncts are about the component
                conj = st.test.values
                if all(_reads(c, v) for c in conj):
                    f_states = set('Z' if s == 'L' else s for s in states)
            a = self.block(st.body, t_states)
            b = self.block(st.orelse, f_states)
            return a | b
        if isinstance(st, (ast.For, ast.While)):
            once = self.block(st.body, set(states))
            return states | once
        if isinstance(st, ast.Try):
            out = self.block(st.body, set(states))
            for h in st.handlers:
                out |= self.block(h.body, set(states))
            return out
        if isinstance(st, ast.With):
            return self.block(st.body, states)
        return states
