"""Authoring helper (never run by a check): list the current unlisted violations of a property so that,
after triage by hand against the real code, they can be appended to known_findings.json.
usage: python tools/add_known.py Cxx [--write 'witness text']"""
import json, sys, os
sys.path.insert(0, os.path.dirname(os.path.dirname(os.path.abspath(__file__))))
from sa import core
prop = sys.argv[1]
code, violations, knowns = core.run_property(prop, 'quick', '/repo', write_evidence=False, quiet=True)
print('rc', code, 'violations', len(violations), 'known', len(knowns))
if '--write' in sys.argv:
    p = os.path.join(core.VERIF, 'known_findings.json')
    k = json.load(open(p))
    have = set((f['property'], f['rule'], f['key']) for f in k['findings'])
    for f in violations:
        if f.ident() in have:
            continue
        e = {'property': f.prop, 'rule': f.rule, 'key': f.key, 'what': f.what, 'status': 'known'}
        if f.witness:
            e['witness'] = f.witness
        k['findings'].append(e)
    json.dump(k, open(p, 'w'), indent=1)
    print('written')
else:
    for f in violations:
        print(f.rule, '|', f.key, '|', f.what[:150])
