"""Authoring-time oracle (never run by a check): executes one IA-32 instruction on the host CPU (x86-64 long mode, so only encodings that mean the same
there: no inc/dec 40-4F, no push/pop, no aaa..das) from a given register / flag state and returns the resulting state.  See README.md."""
import mmap, ctypes, struct
import os, subprocess
_D=os.path.dirname(os.path.abspath(__file__))
_T='/tmp/nat'
os.makedirs(_T, exist_ok=True)
subprocess.check_call(['as','--64',os.path.join(_D,'stub.s'),'-o',_T+'/stub.o'])
subprocess.check_call(['objcopy','-O','binary','-j','.text',_T+'/stub.o',_T+'/stub.bin'])
stub=open(_T+'/stub.bin','rb').read()
M1,M2=0x2d,0x3d
buf=mmap.mmap(-1, 4096, prot=mmap.PROT_READ|mmap.PROT_WRITE|mmap.PROT_EXEC)
addr=ctypes.addressof(ctypes.c_char.from_buffer(buf))
FN=ctypes.CFUNCTYPE(None, ctypes.c_void_p)(addr)
class St(ctypes.Structure):
    _fields_=[('eax',ctypes.c_uint32),('ebx',ctypes.c_uint32),('ecx',ctypes.c_uint32),('edx',ctypes.c_uint32),('esi',ctypes.c_uint32),('edi',ctypes.c_uint32),('flags',ctypes.c_uint64),('ebp',ctypes.c_uint32)]
FL={'cf':0,'pf':2,'af':4,'zf':6,'nf':7,'of':11}
def run(code, regs, flags):
    """code: bytes (<=16); regs dict; flags dict name->0/1; returns (regs, flags)"""
    assert len(code)<=16
    b=bytearray(stub); b[M1:M1+16]=code+b'\x90'*(16-len(code))
    buf.seek(0); buf.write(bytes(b))
    st=St(); 
    for k,v in regs.items(): setattr(st,k,v)
    f=0x202
    for k,v in flags.items():
        if v: f|=1<<FL[k]
    st.flags=f
    FN(ctypes.byref(st))
    out={k:getattr(st,k) for k in ('eax','ebx','ecx','edx','esi','edi','ebp')}
    fo={k:(st.flags>>b_)&1 for k,b_ in FL.items()}
    return out, fo
if __name__=='__main__':
    print(run(bytes.fromhex('01d8'), {'eax':0xffffffff,'ebx':1,'ecx':0,'edx':0,'esi':0,'edi':0,'ebp':0}, {}))
