import os, sys, random
sys.path.insert(0,os.path.dirname(os.path.abspath(__file__)))
from native import run
from shref import shift_ref
D={'rol':0,'ror':1,'rcl':2,'rcr':3,'shl':4,'shr':5,'sar':7}
bad=0;n=0
random.seed(1)
vals=[0,1,0x80,0x81,0xff,0x8000,0x8001,0xffff,0x80000000,0x80000001,0xffffffff,0x12345678,0x7fffffff,0x55555555]
for name,d in D.items():
  for w,pre,op in ((32,b'',0xC1),(16,b'\x66',0xC1),(8,b'',0xC0)):
    for cnt in range(1,32):
      for a in vals:
        for cf in (0,1):
          code=pre+bytes([op,0xC0|(d<<3)|3,cnt])
          regs={'eax':0,'ebx':a,'ecx':0,'edx':0,'esi':0,'edi':0,'ebp':0}
          no,nf=run(code,regs,{'cf':cf})
          r,c,of=shift_ref(name,w,a,0,cnt,cf)
          m=(1<<w)-1
          n+=1
          if (no['ebx']&m)!=r or (c is not None and nf['cf']!=c) or (of is not None and nf['of']!=of):
              bad+=1
              if bad<10: print(name,w,cnt,hex(a),cf,'native',hex(no['ebx']&m),nf['cf'],nf['of'],'ref',hex(r),c,of)
for name,op in (('shld',0xA4),('shrd',0xAC)):
  for w,pre in ((32,b''),(16,b'\x66')):
    for cnt in range(1,min(w,31)+1):
      for a in vals:
        for b in (0,0xffffffff,0x80000001,0x12345678):
          code=pre+bytes([0x0F,op,0xC0|(2<<3)|3,cnt])
          regs={'eax':0,'ebx':a,'ecx':0,'edx':b,'esi':0,'edi':0,'ebp':0}
          no,nf=run(code,regs,{})
          r,c,of=shift_ref(name,w,a,b,cnt,0)
          m=(1<<w)-1; n+=1
          if r is None: continue
          if (no['ebx']&m)!=r or nf['cf']!=c or (of is not None and nf['of']!=of):
              bad+=1
              if bad<20: print(name,w,cnt,hex(a),hex(b),'native',hex(no['ebx']&m),nf['cf'],nf['of'],'ref',hex(r),c,of)
print('checked',n,'bad',bad)
