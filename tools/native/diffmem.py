import os, sys, random, io, contextlib, logging, collections, ctypes, struct
logging.disable(logging.CRITICAL)
sys.path.insert(0,os.path.dirname(os.path.abspath(__file__)))
import native
from native import run
from miasmx.arch.ia32_arch import x86_mn
from miasmx.tools.emul_helper import get_instr_expr
from miasmx.expression.expression import *
from miasmx.expression.expression_eval_abstract import eval_abs
import miasmx.arch.ia32_sem as S
from miasmx.tools.modint import uint32, uint1
from miasmx.expression.expression_helper import expr_simp
from effmod import undefined, shift_count
libc=ctypes.CDLL(None, use_errno=True)
libc.mmap.restype=ctypes.c_void_p
libc.mmap.argtypes=[ctypes.c_void_p,ctypes.c_size_t,ctypes.c_int,ctypes.c_int,ctypes.c_int,ctypes.c_long]
SCR=libc.mmap(None, 0x10000, 3, 0x22|0x40, -1, 0)   # PROT_RW, MAP_PRIVATE|ANON|32BIT
assert SCR and SCR < 2**31, hex(SCR or 0)
BASE=SCR+0x8000
def mem_set(words):
    for i,w in enumerate(words): ctypes.c_uint32.from_address(BASE-32+4*i).value=w
def mem_get(n=16): return [ctypes.c_uint32.from_address(BASE-32+4*i).value for i in range(n)]
REGS=['eax','ebx','ecx','edx','esi','edi','ebp']
FLAGS=['cf','pf','af','zf','nf','of']
FOLD=eval_abs({})
def fold(v):
    v=expr_simp(v)
    if not isinstance(v,ExprInt):
        try:
            v2=FOLD.eval_expr_no_cache(v,{})
            v=expr_simp(v2)
        except Exception as e: pass
    return v
def miasm(code, regs, flags, words):
    l=x86_mn.dis(code)
    if l is None or l.l!=len(code): return None
    l.offset=0
    ex=get_instr_expr(l, ExprInt(uint32(l.l)), [])
    st={getattr(S,r):ExprInt32(v) for r,v in regs.items()}
    st[S.esp]=ExprInt32(0x7000)
    for f in FLAGS: st[getattr(S,f)]=ExprInt(uint1(flags.get(f,0)))
    m=eval_abs(st)
    for i,w in enumerate(words):
        m.pool[ExprMem(ExprInt32(BASE-32+4*i),32)]=ExprInt32(w)
    m.eval_instr(ex)
    out={}
    for r in REGS:
        v=fold(m.eval_expr(m.pool[getattr(S,r)],{}))
        out[r]=int(v.arg)&0xffffffff if isinstance(v,ExprInt) else str(v)
    fo={}
    for f in FLAGS:
        v=fold(m.eval_expr(m.pool[getattr(S,f)],{}))
        fo[f]=int(v.arg)&1 if isinstance(v,ExprInt) else str(v)
    mw=[]
    for i in range(16):
        v=fold(m.eval_expr(ExprMem(ExprInt32(BASE-32+4*i),32),{}))
        mw.append(int(v.arg)&0xffffffff if isinstance(v,ExprInt) else str(v))
    return str(l), l.m.name, out, fo, mw
BOUND=[0,1,2,0x7f,0x80,0xff,0x100,0x7fff,0x8000,0xffff,0x10000,0x7fffffff,0x80000000,0xffffffff,0xfffffffe,0x55555555,0xaaaaaaaa,0x12345678,31,32,33,8,16,15,17]
def rnd(): return random.choice(BOUND) if random.random()<0.6 else random.getrandbits(32)
M=lambda reg: bytes([(reg<<3)|6])       # [esi]
M8=lambda reg,d: bytes([0x40|(reg<<3)|6, d&0xff])
def gen():
    out=[]
    for base in range(0,0x40,8):
        for lo in (0,1,2,3):
            r=random.choice([0,1,2,3,7]); out.append(bytes([base+lo])+M(r))
            if lo&1: out.append(bytes([0x66,base+lo])+M8(r,random.choice([0,2,4,-2])))
    for d in range(8):
        out.append(bytes([0x80])+M(d)+bytes([random.choice([1,0x7f,0x80,0xff])])); out.append(bytes([0x81])+M(d)+rnd().to_bytes(4,'little')); out.append(bytes([0x66,0x83])+M8(d,2)+bytes([0xff]))
    for d in (2,3):
        out.append(bytes([0xF6])+M(d)); out.append(bytes([0xF7])+M(d)); out.append(bytes([0x66,0xF7])+M8(d,1))
    for d in (0,1):
        out.append(bytes([0xFE])+M(d)); out.append(bytes([0xFF])+M(d)); out.append(bytes([0x66,0xFF])+M(d))
    for d in range(8):
        for cnt in (0,1,7,9,31,32):
            out.append(bytes([0xC1])+M(d)+bytes([cnt])); out.append(bytes([0xC0])+M8(d,1)+bytes([cnt]))
        out.append(bytes([0xD3])+M(d)); out.append(bytes([0x66,0xD1])+M(d))
    for op in (0xA3,0xAB,0xB3,0xBB):
        out.append(bytes([0x0F,op])+M(random.choice([0,1,2,3]))); out.append(bytes([0x66,0x0F,op])+M(random.choice([0,1,2,3])))
    for d in (4,5,6,7):
        for cnt in (0,7,31,33,0xff):
            out.append(bytes([0x0F,0xBA])+M(d)+bytes([cnt]))
    for op in (0xB6,0xB7,0xBE,0xBF,0xAF,0xBC,0xBD):
        out.append(bytes([0x0F,op])+M(0)); out.append(bytes([0x0F,op])+M8(2,3))
    for op in (0xB0,0xB1,0xC0,0xC1):
        out.append(bytes([0x0F,op])+M(random.choice([1,2,3])))
    out.append(bytes([0x86])+M(0)); out.append(bytes([0x87])+M(3)); out.append(bytes([0x66,0x87])+M(1))
    for cc in range(16):
        out.append(bytes([0x0F,0x90+cc])+M(0)); out.append(bytes([0x0F,0x40+cc])+M(2))
    out.append(bytes([0x88])+M(1)); out.append(bytes([0x89])+M(1)); out.append(bytes([0x8a])+M8(1,1)); out.append(bytes([0x8b])+M8(1,-3)); out.append(bytes([0x66,0x89])+M8(1,3))
    out.append(bytes([0xc6])+M(0)+b'\x99'); out.append(bytes([0xc7])+M(0)+b'\x11\x22\x33\x44'); out.append(bytes([0x66,0xc7])+M8(0,1)+b'\x11\x22')
    out.append(bytes([0x69])+M(0)+rnd().to_bytes(4,'little')); out.append(bytes([0x0F,0xA4])+M(2)+b'\x05'); out.append(bytes([0x0F,0xAD])+M(2))
    # div/idiv with operands that cannot fault: divisor large
    return out
def safe_div(code, regs, words):
    return True
def main(seed, rounds):
    random.seed(seed)
    bad=collections.OrderedDict(); n=0
    for _ in range(rounds):
        for code in gen():
            regs={r:rnd() for r in REGS}
            regs['esi']=BASE
            flags={f:random.getrandbits(1) for f in FLAGS}
            words=[rnd() for _ in range(16)]
            try:
                mi=miasm(code, regs, flags, words)
            except Exception as e:
                mi=('EXC',repr(e)[:100],None,None,None)
            if mi is None: continue
            txt,name,mo,mf,mw=mi
            if txt=='EXC':
                key=('EXC', code[:3].hex(), name); bad.setdefault(key,(code.hex(),)); continue
            c_=code[1:] if code[0]==0x66 else code
            if c_[0]==0x0F and c_[1] in (0xA3,0xAB,0xB3,0xBB):
                # keep the bit offset within the scratch area
                rn=['eax','ecx','edx','ebx'][(c_[2]>>3)&7]
                regs[rn]=random.choice([0,1,7,8,31,32,33,63,64,95,0xffffffff,0xffffffe0,0xffffffdf,0xffffff81]) if code[0]!=0x66 else random.choice([0,1,15,16,17,31,32,0xffff,0xfff0,0x1ffef, 0x7fffff81])
                try: mi=miasm(code, regs, flags, words)
                except Exception as e: mi=('EXC',repr(e)[:100],None,None,None)
                txt,name,mo,mf,mw=mi
                if txt=='EXC':
                    key=('EXC', code[:3].hex(), name); bad.setdefault(key,(code.hex(),)); continue
            mem_set(words)
            no,nf=run(code, regs, flags)
            nw=mem_get()
            n+=1
            dr=[r for r in REGS if mo[r]!=no[r]]
            df=[f for f in FLAGS if mf[f]!=nf[f] and f not in undefined(name, code, regs)]
            dm=[i for i in range(16) if mw[i]!=nw[i]]
            if name in ('bsf','bsr'): 
                dr=[] if True else dr
            if dr or df or dm:
                key=(name, tuple(dr), tuple(df), bool(dm))
                if key not in bad: bad[key]=(code.hex(), txt, {r:hex(v) for r,v in regs.items() if r in ('eax','ebx','ecx','edx')}, flags, {r:(hex(no[r]), mo[r] if isinstance(mo[r],str) else hex(mo[r])) for r in dr}, {f:(nf[f],mf[f]) for f in df}, [(i-8, hex(words[i]), hex(nw[i]), mw[i] if isinstance(mw[i],str) else hex(mw[i])) for i in dm][:3])
    print('compared',n,'classes',len(bad))
    for k,v in bad.items(): print(k, v)
main(int(sys.argv[1]), int(sys.argv[2]))
