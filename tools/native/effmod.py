FLAGS=['cf','pf','af','zf','nf','of']
EFF={}
for line in open('/verif/ref/ia32_effects.ref'):
    if line.startswith('#') or not line.strip(): continue
    w=line.split()
    d={'F':set(),'U':set()}
    for t in w[1:]:
        if t.startswith('F:') and t[2:]!='-': d['F']=set(t[2:].split(','))
        if t.startswith('U:') and t[2:]!='-': d['U']=set(t[2:].split(','))
    EFF[w[0]]=d
def shift_count(code, regs):
    c=code[1:] if code[0]==0x66 else code
    op=c[0]
    if op in (0xC0,0xC1): return c[-1]&0x1f
    if op in (0xD0,0xD1): return 1
    if op in (0xD2,0xD3): return regs['ecx']&0x1f
    if op==0x0F and c[1] in (0xA4,0xAC): return c[-1]&0x1f
    if op==0x0F and c[1] in (0xA5,0xAD): return regs['ecx']&0x1f
    return None
def src_zero(code, regs):
    c=code[1:] if code[0]==0x66 else code
    rm=c[2]&7
    v=regs[['eax','ecx','edx','ebx',None,'ebp','esi','edi'][rm]]
    return (v & (0xffff if code[0]==0x66 else 0xffffffff))==0
def undefined(name, code, regs, l_txt=''):
    e=EFF.get(name)
    cc=None
    if e is None:
        for pre in ('set','cmov'):
            if name.startswith(pre): return set()
        return set()
    u=set(e['U'])
    if name in ('rol','ror','rcl','rcr','shl','sal','shr','sar','shld','shrd'):
        n=shift_count(code, regs)
        if n==0: return set()           # nothing changes: every flag is compared
        u=set(['af']) if name in ('shl','sal','shr','sar','shld','shrd') else set()
        if n!=1: u.add('of')
        size=8 if (code[1:] if code[0]==0x66 else code)[0] in (0xC0,0xD0,0xD2) else (16 if code[0]==0x66 else 32)
        if name in ('shld','shrd') and n>size: u|=set(FLAGS)
        if name in ('shl','sal','shr') and n>=size: u.add('cf')
    if name in ('bsf','bsr'):
        u=set(FLAGS)-{'zf'}
    return u
