.intel_syntax noprefix
.text
start:
  push rbx
  push rbp
  push r12
  push r13
  push r14
  push r15
  mov r15, rdi
  mov eax, [r15+0]
  mov ebx, [r15+4]
  mov ecx, [r15+8]
  mov edx, [r15+12]
  mov esi, [r15+16]
  mov edi, [r15+20]
  mov ebp, [r15+32]
  push qword ptr [r15+24]
  popfq
mark1:
  .fill 16, 1, 0x90
mark2:
  pushfq
  pop qword ptr [r15+24]
  mov [r15+0], eax
  mov [r15+4], ebx
  mov [r15+8], ecx
  mov [r15+12], edx
  mov [r15+16], esi
  mov [r15+20], edi
  mov [r15+32], ebp
  cld
  pop r15
  pop r14
  pop r13
  pop r12
  pop rbp
  pop rbx
  ret
