import os, sys, random, collections, ctypes
sys.argv=[sys.argv[0]]+sys.argv[1:]
exec(open(os.path.join(os.path.dirname(os.path.abspath(__file__)),'diffmem.py')).read().split("def gen():")[0])
native.FL['df']=10
FLAGS2=FLAGS
def miasm2(code, regs, flags, words, df):
    l=x86_mn.dis(code)
    if l is None or l.l!=len(code): return None
    l.offset=0
    ex=get_instr_expr(l, ExprInt(uint32(l.l)), [])
    st={getattr(S,r):ExprInt32(v) for r,v in regs.items()}
    st[S.esp]=ExprInt32(0x7000)
    for f in FLAGS: st[getattr(S,f)]=ExprInt(uint1(flags.get(f,0)))
    st[S.df]=ExprInt(uint1(df))
    m=eval_abs(st)
    for i,w in enumerate(words):
        m.pool[ExprMem(ExprInt32(BASE-32+4*i),32)]=ExprInt32(w)
    m.eval_instr(ex)
    out={}
    for r in REGS:
        v=fold(m.eval_expr(m.pool[getattr(S,r)],{})); out[r]=int(v.arg)&0xffffffff if isinstance(v,ExprInt) else str(v)
    fo={}
    for f in FLAGS:
        v=fold(m.eval_expr(m.pool[getattr(S,f)],{})); fo[f]=int(v.arg)&1 if isinstance(v,ExprInt) else str(v)
    mw=[]
    for i in range(16):
        v=fold(m.eval_expr(ExprMem(ExprInt32(BASE-32+4*i),32),{})); mw.append(int(v.arg)&0xffffffff if isinstance(v,ExprInt) else str(v))
    return str(l), l.m.name, out, fo, mw
def main(seed, rounds):
    random.seed(seed)
    bad=collections.OrderedDict(); n=0
    codes=[bytes.fromhex(h) for h in ('a4','a5','66a5','aa','ab','66ab','ac','ad','66ad','ae','af','66af','a6','a7','66a7','d7','f6f3','f7f3','66f7f3','f6fb','f7fb','66f7fb','f636','f73e')]
    for _ in range(rounds):
        for code in codes:
            regs={r:rnd() for r in REGS}
            regs['esi']=BASE+random.choice([0,4,5,-7]); regs['edi']=BASE+random.choice([8,12,-12,1])
            flags={f:random.getrandbits(1) for f in FLAGS}; df=random.getrandbits(1)
            if code==b'\xd7': regs['ebx']=BASE-16; regs['eax']&=0xffffff1f
            words=[rnd() for _ in range(16)]
            if code[-2:-1] in (b'\xf6',b'\xf7') or code[0] in (0xf6,0xf7) or (code[0]==0x66 and code[1]==0xf7):
                # division: make it non-faulting
                c_=code[1:] if code[0]==0x66 else code
                w=8 if c_[0]==0xf6 else (16 if code[0]==0x66 else 32)
                signed=((c_[1]>>3)&7)==7
                if c_[1]&0xC0==0xC0: 
                    regs['ebx']=random.choice([1,2,3,7,0x7f,0x80,0xff,0x1234,0xffff,0x80000000,0xffffffff,random.getrandbits(32)])
                    d=regs['ebx']&((1<<w)-1)
                else:
                    regs['esi']=BASE; d=words[8]&((1<<w)-1)
                if d==0: continue
                # dividend
                if w==8:
                    big=regs['eax']&0xffff
                elif w==16: big=((regs['edx']&0xffff)<<16)|(regs['eax']&0xffff)
                else: big=(regs['edx']<<32)|regs['eax']
                def sg(v,b): return v-(1<<b) if v>>(b-1) else v
                if signed:
                    bs,ds=sg(big,2*w),sg(d,w)
                    q=abs(bs)//abs(ds); q=-q if (bs<0)!=(ds<0) else q
                    if not -(1<<(w-1))<=q<(1<<(w-1)): 
                        regs['edx']=0 if w>8 else regs['edx']; 
                        if w==8: regs['eax']&=0xffff00ff
                        big= regs['eax']&0xffff if w==8 else (((regs['edx']&0xffff)<<16)|(regs['eax']&0xffff) if w==16 else (regs['edx']<<32)|regs['eax'])
                        bs=sg(big,2*w); q=abs(bs)//abs(ds); q=-q if (bs<0)!=(ds<0) else q
                        if not -(1<<(w-1))<=q<(1<<(w-1)): continue
                else:
                    if big//d >= (1<<w):
                        if w==8: regs['eax']&=0xffff00ff
                        else: regs['edx']=0
                        big= regs['eax']&0xffff if w==8 else (((regs['edx']&0xffff)<<16)|(regs['eax']&0xffff) if w==16 else (regs['edx']<<32)|regs['eax'])
                        if big//d >= (1<<w): continue
            try:
                mi=miasm2(code, regs, flags, words, df)
            except Exception as e:
                mi=('EXC',repr(e)[:100],None,None,None)
            if mi is None: continue
            txt,name,mo,mf,mw=mi
            if txt=='EXC':
                key=('EXC', code.hex(), name); bad.setdefault(key,(code.hex(),)); continue
            mem_set(words)
            fl=dict(flags); fl['df']=df
            no,nf=run(code, regs, fl)
            nw=mem_get(); n+=1
            dr=[r for r in REGS if mo[r]!=no[r]]
            df_=[f for f in FLAGS if mf[f]!=nf[f] and f not in undefined(name, code, regs)]
            if name in ('div','idiv'): df_=[]
            dm=[i for i in range(16) if mw[i]!=nw[i]]
            if dr or df_ or dm:
                key=(name, tuple(dr), tuple(df_), bool(dm))
                if key not in bad: bad[key]=(code.hex(), txt, df, {r:hex(v) for r,v in regs.items()}, {r:(hex(no[r]), mo[r] if isinstance(mo[r],str) else hex(mo[r])) for r in dr}, {f:(nf[f],mf[f]) for f in df_}, [(i-8, hex(words[i]), hex(nw[i]), mw[i] if isinstance(mw[i],str) else hex(mw[i])) for i in dm][:3])
    print('compared',n,'classes',len(bad))
    for k,v in bad.items(): print(k, v)
main(int(sys.argv[1]), int(sys.argv[2]))
