import os, sys, random, io, contextlib, logging, collections
logging.disable(logging.CRITICAL)
sys.path.insert(0,os.path.dirname(os.path.abspath(__file__)))
from native import run
from miasmx.arch.ia32_arch import x86_mn
from miasmx.tools.emul_helper import get_instr_expr
from miasmx.expression.expression import *
from miasmx.expression.expression_eval_abstract import eval_abs
import miasmx.arch.ia32_sem as S
from miasmx.tools.modint import uint32, uint1
REGS=['eax','ebx','ecx','edx','esi','edi','ebp']
FLAGS=['cf','pf','af','zf','nf','of']
def miasm(code, regs, flags):
    l=x86_mn.dis(code)
    if l is None or l.l!=len(code): return None
    l.offset=0
    ex=get_instr_expr(l, ExprInt(uint32(l.l)), [])
    st={getattr(S,r):ExprInt32(v) for r,v in regs.items()}
    st[S.esp]=ExprInt32(0x7000)
    for f in FLAGS: st[getattr(S,f)]=ExprInt(uint1(flags.get(f,0)))
    m=eval_abs(st)
    m.eval_instr(ex)
    out={}
    for r in REGS:
        v=m.pool[getattr(S,r)]
        out[r]=int(v.arg)&0xffffffff if isinstance(v,ExprInt) else str(v)
    fo={}
    for f in FLAGS:
        v=m.pool[getattr(S,f)]
        fo[f]=int(v.arg)&1 if isinstance(v,ExprInt) else str(v)
    return str(l), l.m.name, out, fo
BOUND=[0,1,2,0x7f,0x80,0xff,0x100,0x7fff,0x8000,0xffff,0x10000,0x7fffffff,0x80000000,0xffffffff,0xfffffffe,0x55555555,0xaaaaaaaa,0x12345678,31,32,33,8,16,15,17]
def rnd():
    return random.choice(BOUND) if random.random()<0.6 else random.getrandbits(32)
def modrm3(reg,rm): return 0xC0|(reg<<3)|rm
R32=[0,1,2,3,6,7,5]
def gen():
    out=[]
    for base in range(0,0x40,8):
        for lo in (0,1,2,3):
            for _ in range(3):
                reg=random.choice(R32 if lo&1 else range(8)); rm=random.choice(R32 if lo&1 else range(8))
                out.append(bytes([base+lo, modrm3(reg,rm)])); 
                if lo&1: out.append(bytes([0x66, base+lo, modrm3(reg,rm)]))
        out.append(bytes([base+4, random.getrandbits(8)])); out.append(bytes([base+5])+random.getrandbits(32).to_bytes(4,'little')); out.append(bytes([0x66,base+5])+random.getrandbits(16).to_bytes(2,'little'))
    for d in range(8):
        rm=random.choice(range(8)); out.append(bytes([0x80, modrm3(d,rm), random.choice([0,1,0x7f,0x80,0xff,random.getrandbits(8)])]))
        rm=random.choice(R32); out.append(bytes([0x81, modrm3(d,rm)])+rnd().to_bytes(4,'little')); out.append(bytes([0x66,0x81, modrm3(d,rm)])+(rnd()&0xffff).to_bytes(2,'little'))
        out.append(bytes([0x83, modrm3(d,rm), random.choice([0,1,0x7f,0x80,0xff])])); out.append(bytes([0x66,0x83, modrm3(d,rm), random.choice([0,1,0x7f,0x80,0xff])]))
    for d in (2,3,4,5):
        out.append(bytes([0xF6, modrm3(d,random.choice(range(8)))])); out.append(bytes([0xF7, modrm3(d,random.choice(R32))])); out.append(bytes([0x66,0xF7, modrm3(d,random.choice(R32))]))
    for d in (0,1):
        out.append(bytes([0xFE, modrm3(d,random.choice(range(8)))])); out.append(bytes([0xFF, modrm3(d,random.choice(R32))])); out.append(bytes([0x66,0xFF, modrm3(d,random.choice(R32))]))
    for d in range(8):
        for cnt in (0,1,2,7,8,9,15,16,17,31,32,33,63,0xff):
            out.append(bytes([0xC0, modrm3(d,random.choice([0,3,2,7,6])), cnt])); out.append(bytes([0xC1, modrm3(d,random.choice([0,3,2,6,7])), cnt])); out.append(bytes([0x66,0xC1, modrm3(d,random.choice([0,3,2,6,7])), cnt]))
        out.append(bytes([0xD0, modrm3(d,random.choice([0,3,2,7]))])); out.append(bytes([0xD1, modrm3(d,random.choice([0,3,2,6]))])); out.append(bytes([0x66,0xD1, modrm3(d,3)]))
        out.append(bytes([0xD2, modrm3(d,random.choice([0,3,2,7]))])); out.append(bytes([0xD3, modrm3(d,random.choice([0,3,2,6]))])); out.append(bytes([0x66,0xD3, modrm3(d,3)]))
    for op in (0xA4,0xAC):
        for cnt in (0,1,5,15,16,17,31,32,33):
            out.append(bytes([0x0F,op,modrm3(random.choice([0,3,2]),random.choice([6,7,3])),cnt])); out.append(bytes([0x66,0x0F,op,modrm3(0,3),cnt]))
        out.append(bytes([0x0F,op+1,modrm3(0,3)])); out.append(bytes([0x66,0x0F,op+1,modrm3(0,3)]))
    for op in (0xA3,0xAB,0xB3,0xBB):
        out.append(bytes([0x0F,op,modrm3(random.choice([0,2,3]),random.choice([6,7,3]))])); out.append(bytes([0x66,0x0F,op,modrm3(2,3)]))
    for d in (4,5,6,7):
        for cnt in (0,1,15,16,31,32,33,0xff):
            out.append(bytes([0x0F,0xBA,modrm3(d,3),cnt])); out.append(bytes([0x66,0x0F,0xBA,modrm3(d,3),cnt]))
    for op in (0xBC,0xBD,0xAF):
        out.append(bytes([0x0F,op,modrm3(0,3)])); out.append(bytes([0x66,0x0F,op,modrm3(2,3)]))
    for op in (0xB6,0xB7,0xBE,0xBF):
        out.append(bytes([0x0F,op,modrm3(0,random.choice(range(8)))])); 
        if op in (0xB6,0xBE): out.append(bytes([0x66,0x0F,op,modrm3(2,random.choice(range(8)))]))
    out.append(bytes([0x69,modrm3(0,3)])+rnd().to_bytes(4,'little')); out.append(bytes([0x6B,modrm3(2,3),random.choice([1,0x7f,0x80,0xff])])); out.append(bytes([0x66,0x6B,modrm3(2,3),0xfe]))
    for op in (0xB0,0xB1,0xC0,0xC1):
        out.append(bytes([0x0F,op,modrm3(random.choice([1,2,3]),random.choice([3,2,6]))])); 
        if op&1: out.append(bytes([0x66,0x0F,op,modrm3(1,3)]))
    out.append(bytes([0x86,modrm3(0,3)])); out.append(bytes([0x86,modrm3(4,0)])); out.append(bytes([0x87,modrm3(0,3)])); out.append(bytes([0x87,modrm3(3,3)])); out.append(bytes([0x66,0x87,modrm3(1,2)]))
    for cc in range(16):
        out.append(bytes([0x0F,0x90+cc,modrm3(0,random.choice(range(8)))])); out.append(bytes([0x0F,0x40+cc,modrm3(0,3)])); out.append(bytes([0x66,0x0F,0x40+cc,modrm3(2,3)]))
    for b in ('98','99','6698','6699','9e','9f','f5','f8','f9','0fc8','0fcb','0fce'):
        out.append(bytes.fromhex(b))
    out.append(bytes([0x84,modrm3(0,3)])); out.append(bytes([0x85,modrm3(0,3)])); out.append(bytes([0xA8,0x80])); out.append(bytes([0xA9])+rnd().to_bytes(4,'little'))
    out.append(bytes.fromhex('8d0419')); out.append(bytes.fromhex('8d44590c')); out.append(bytes.fromhex('668d0419')); out.append(bytes.fromhex('8d049d10000000'))
    out.append(bytes.fromhex('90')); out.append(bytes.fromhex('93')); out.append(bytes.fromhex('6693'))
    return out
EFF={}
for line in open('/verif/ref/ia32_effects.ref'):
    if line.startswith('#') or not line.strip(): continue
    w=line.split()
    d={'F':set(),'U':set()}
    for t in w[1:]:
        if t.startswith('F:') and t[2:]!='-': d['F']=set(t[2:].split(','))
        if t.startswith('U:') and t[2:]!='-': d['U']=set(t[2:].split(','))
    EFF[w[0]]=d
def shift_count(code, regs):
    c=code[1:] if code[0]==0x66 else code
    op=c[0]
    if op in (0xC0,0xC1): return c[2]&0x1f
    if op in (0xD0,0xD1): return 1
    if op in (0xD2,0xD3): return regs['ecx']&0x1f
    if op==0x0F and c[1] in (0xA4,0xAC): return c[3]&0x1f
    if op==0x0F and c[1] in (0xA5,0xAD): return regs['ecx']&0x1f
    return None
def src_zero(code, regs):
    c=code[1:] if code[0]==0x66 else code
    rm=c[2]&7
    v=regs[['eax','ecx','edx','ebx',None,'ebp','esi','edi'][rm]]
    return (v & (0xffff if code[0]==0x66 else 0xffffffff))==0
def undefined(name, code, regs, l_txt=''):
    e=EFF.get(name)
    cc=None
    if e is None:
        for pre in ('set','cmov'):
            if name.startswith(pre): return set()
        return set()
    u=set(e['U'])
    if name in ('rol','ror','rcl','rcr','shl','sal','shr','sar','shld','shrd'):
        n=shift_count(code, regs)
        if n==0: return set()           # nothing changes: every flag is compared
        u=set(['af']) if name in ('shl','sal','shr','sar','shld','shrd') else set()
        if n!=1: u.add('of')
        size=8 if (code[1:] if code[0]==0x66 else code)[0] in (0xC0,0xD0,0xD2) else (16 if code[0]==0x66 else 32)
        if name in ('shld','shrd') and n>size: u|=set(FLAGS)
        if name in ('shl','sal','shr') and n>=size: u.add('cf')
    if name in ('bsf','bsr'):
        u=set(FLAGS)-{'zf'}
    return u
def main(seed, rounds):
    random.seed(seed)
    bad=collections.OrderedDict(); n=0
    for _ in range(rounds):
        for code in gen():
            regs={r:rnd() for r in REGS}
            flags={f:random.getrandbits(1) for f in FLAGS}
            try:
                mi=miasm(code, regs, flags)
            except Exception as e:
                mi=('EXC',repr(e)[:80],None,None)
            if mi is None: continue
            txt,name,mo,mf=mi
            if txt=='EXC':
                key=('EXC', code[:3].hex(), name); bad.setdefault(key,(code.hex(),regs,flags)); continue
            if name in ('div','idiv'):
                # avoid #DE natively
                continue
            no,nf=run(code, regs, flags)
            n+=1
            dr=[r for r in REGS if mo[r]!=no[r]]
            df=[f for f in FLAGS if mf[f]!=nf[f] and f not in undefined(name, code, regs, l_txt=txt)]
            if name in ('bsf','bsr') and src_zero(code, regs): dr=[]
            if dr or df:
                key=(name, ' '.join(txt.split()[1:])[:0], tuple(dr), tuple(df))
                if key not in bad: bad[key]=(code.hex(), txt, {r:hex(v) for r,v in regs.items()}, flags, {r:(hex(no[r]), mo[r] if isinstance(mo[r],str) else hex(mo[r])) for r in dr}, {f:(nf[f],mf[f]) for f in df})
    print('compared',n,'classes',len(bad))
    for k,v in bad.items(): print(k, v)
main(int(sys.argv[1]), int(sys.argv[2]))
