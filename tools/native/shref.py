def shift_ref(name, w, a, b2, n, cf):
    """(result, cf, of|None) of IA-32 shift/rotate `name` on w-bit operand a (b2 = second operand of shld/shrd), count n (already masked to 5 bits, n > 0)."""
    m=(1<<w)-1; a&=m; msb=lambda v:(v>>(w-1))&1
    of=None
    if name in ('shl','sal'):
        if n>w: return 0, None, None
        r=(a<<n)&m; c=(a>>(w-n))&1 if n<=w else None
        if n==1: of=msb(r)^c
        return r,c,of
    if name=='shr':
        if n>w: return 0, None, None
        r=a>>n; c=(a>>(n-1))&1
        if n==1: of=msb(a)
        return r,c,of
    if name=='sar':
        s=a-(1<<w) if msb(a) else a
        r=(s>>min(n,w))&m; c=(s>>(min(n,w)-1))&1 if n<=w else msb(a)
        if n==1: of=0
        return r,c,of
    if name=='shld':
        if n>w: return None,None,None
        r=((a<<n)|((b2&m)>>(w-n)))&m; c=(a>>(w-n))&1
        if n==1: of=msb(r)^msb(a)
        return r,c,of
    if name=='shrd':
        if n>w: return None,None,None
        r=((a>>n)|((b2&m)<<(w-n)))&m; c=(a>>(n-1))&1
        if n==1: of=msb(r)^msb(a)
        return r,c,of
    if name=='rol':
        k=n%w; r=((a<<k)|(a>>(w-k)))&m if k else a; c=r&1
        if n==1: of=msb(r)^c
        return r,c,of
    if name=='ror':
        k=n%w; r=((a>>k)|(a<<(w-k)))&m if k else a; c=msb(r)
        if n==1: of=msb(r)^((r>>(w-2))&1)
        return r,c,of
    if name in ('rcl','rcr'):
        k=n%(w+1); big=(cf<<w)|a; full=(1<<(w+1))-1
        if name=='rcl': rot=((big<<k)|(big>>(w+1-k)))&full
        else: rot=((big>>k)|(big<<(w+1-k)))&full
        r=rot&m; c=rot>>w
        if k==0: c=cf
        if n==1: of=(msb(r)^c) if name=='rcl' else (msb(r)^((r>>(w-2))&1))
        return r,c,of
