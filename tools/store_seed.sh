#!/bin/bash
# usage: tools/store_seed.sh <Cxx> <worktree> <seed-name>
# Like try_seed.sh but never touches /repo: confirms the change in its own worktree (tests pass with it, demo fails with it and
# passes without), stores it under /verif/seeded/<seed-name>/ and runs the property's check on a patched scratch copy (par_patches).
set -u
P=$1; WT=$2; NAME=$3
PY=/venv/bin/python
D=/verif/seeded/$NAME
mkdir -p $D
cp $WT/_seed/patch.diff $WT/_seed/demo.py $WT/_seed/note.txt $D/ 2>/dev/null
cd $WT
git checkout -q -- .
PYTHONPATH=$WT $PY $D/demo.py >/dev/null 2>&1; ORIG=$?
git apply $D/patch.diff || { echo "PATCH DOES NOT APPLY in worktree"; exit 3; }
PYTHONPATH=$WT $PY $D/demo.py >/dev/null 2>&1; CHG=$?
TESTS=$(PYTHONPATH=$WT $PY -m pytest -q -p no:cacheprovider --timeout=900 tests 2>&1 | tail -1)
IMP=$(PYTHONPATH=$WT $PY -c "import miasmx;print(miasmx.__file__)")
echo "demo original rc=$ORIG changed rc=$CHG tests: $TESTS import: $IMP"
cat > $D/meta.json <<EOM
{"property": "$P", "seed": "$NAME",
 "demo_rc_original": $ORIG, "demo_rc_changed": $CHG, "tests_with_change": "$TESTS",
 "check_cmd": "./check $P --tier quick"}
EOM
cd /verif
tools/par_patches.py seeds $NAME 2>&1 | grep -v conda
