#!/bin/bash
# Re-run the quick check of every recorded seeded change against /repo (apply, check, undo) and refresh meta.json.
cd /verif
for d in seeded/*/; do
  n=$(basename $d); P=$(/venv/bin/python -c "import json;print(json.load(open('$d/meta.json'))['property'])")
  if ! git -C /repo apply --check /verif/$d/patch.diff 2>/dev/null; then echo "$n: patch no longer applies"; continue; fi
  git -C /repo apply /verif/$d/patch.diff
  ./check $P --no-evidence > $d/check_output.txt 2>&1; RC=$?
  git -C /repo checkout -- .
  RULES=$(grep "^FINDING" $d/check_output.txt | awk '{print $2}' | sort -u | tr '\n' ' ')
  /venv/bin/python - "$d" "$RC" "$RULES" <<'PY'
import json,sys
d,rc,rules=sys.argv[1],int(sys.argv[2]),sys.argv[3].split()
p=d+'/meta.json'; m=json.load(open(p)); m['check_rc_with_change']=rc; m['detected']=(rc==1); m['detected_by_rules']=rules
json.dump(m,open(p,'w'),indent=1)
PY
  echo "$n: rc=$RC rules=$RULES"
done
