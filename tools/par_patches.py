#!/venv/bin/python
"""Run checks against patched scratch copies of /repo, in parallel (authoring tool, not a check).

usage: tools/par_patches.py seeds  [name...]   every seeded/<name>/patch.diff: the check of its own property must exit 1
       tools/par_patches.py benign [name...]   every benign/<name>/patch.diff: all 19 checks must exit 0
Each job copies /repo's working tree (miasmx, ply, tests) to a temp dir outside /repo and /verif,
applies the patch with `git apply`, runs ./check --root <copy> --no-evidence, and removes the copy.
"""
import concurrent.futures as cf
import json
import os
import shutil
import subprocess
import sys
import tempfile

V = '/verif'
PROPS = ['C%02d' % i for i in range(1, 20)]


def scratch(patch):
    tmp = tempfile.mkdtemp(prefix='sa_par_')
    for p in ('miasmx', 'ply', 'tests'):
        if os.path.isdir('/repo/' + p):
            shutil.copytree('/repo/' + p, os.path.join(tmp, p), ignore=shutil.ignore_patterns('__pycache__', '*.pyc'))
    r = subprocess.run(['git', 'apply', '--unsafe-paths', '--directory=' + tmp, patch], cwd='/', capture_output=True, text=True)
    if r.returncode:
        # git apply outside a repository: use patch(1) semantics through git apply in the directory
        r = subprocess.run(['git', 'apply', patch], cwd=tmp, capture_output=True, text=True)
    if r.returncode:
        shutil.rmtree(tmp, ignore_errors=True)
        return None, r.stderr.strip()[:200]
    return tmp, ''


def run_check(prop, root):
    r = subprocess.run([V + '/check', prop, '--tier', 'quick', '--root', root, '--no-evidence'],
                       capture_output=True, text=True)
    lines = [l for l in r.stdout.splitlines() if l.startswith(('FINDING', 'ANALYSIS-ERROR', 'VIOLATION'))]
    return r.returncode, lines, r.stdout


def job_seed(name):
    d = os.path.join(V, 'seeded', name)
    prop = json.load(open(d + '/meta.json'))['property']
    tmp, err = scratch(d + '/patch.diff')
    if tmp is None:
        return name, 'patch no longer applies: ' + err, False
    try:
        rc, lines, out = run_check(prop, tmp)
    finally:
        shutil.rmtree(tmp, ignore_errors=True)
    rules = sorted({l.split()[1] for l in lines if l.startswith('FINDING')})
    try:
        mp = d + '/meta.json'
        m = json.load(open(mp))
        m['check_rc_with_change'], m['detected'], m['detected_by_rules'] = rc, rc == 1, rules
        m['ran'] = 'tools/par_patches.py seeds %s  (scratch copy of /repo with seeded/%s/patch.diff applied; ./check %s --root <copy>)' % (name, name, prop)
        json.dump(m, open(mp, 'w'), indent=1)
        with open(d + '/check_output.txt', 'w') as f:
            f.write('\n'.join([l for l in out.splitlines() if l.startswith(('FINDING', 'VIOLATION', 'RESULT', 'ANALYSIS-ERROR', 'KNOWN-FINDING'))][:60]) + '\n')
    except Exception:
        pass
    return name, '%s rc=%d rules=%s%s' % (prop, rc, ' '.join(rules), '' if rc == 1 else '  <<<<<< ' + ' | '.join(lines[:2])[:300]), rc == 1


def job_benign(name):
    d = os.path.join(V, 'benign', name)
    tmp, err = scratch(d + '/patch.diff')
    if tmp is None:
        return name, 'patch no longer applies: ' + err, False
    bad = []
    props = PROPS
    if os.environ.get('TOUCHED'):
        # quick pass: only the checks that read a module the patch touches (the full pass runs all 19)
        txt = open(d + '/patch.diff').read()
        by_file = {'ia32_arch.py': 'C01 C02 C03 C08 C09 C10 C11 C12 C17 C19', 'ia32_reg.py': 'C01 C02 C17', 'expression_eval_abstract.py': 'C06 C07 C12', 'expression.py': 'C05 C06 C07 C13 C15 C16 C08',
                   'expression_helper.py': 'C05 C06 C07 C13', 'ia32_sem.py': 'C04 C08 C11 C12', 'emul_helper.py': 'C04 C07 C08 C11 C12', 'parse_ad.py': 'C02 C03 C09 C19 C10 C12', 'ia32_att.py': 'C02 C09 C19 C10',
                   'modint.py': 'C14', 'ppc_arch.py': 'C18', 'lex.py': 'C12', 'yacc.py': 'C12 C19', 'bin_stream.py': 'C10'}
        sel = set()
        for f_, ps_ in by_file.items():
            if '/' + f_ in txt:
                sel.update(ps_.split())
        props = sorted(sel) or PROPS
    try:
        for p in props:
            rc, lines, out = run_check(p, tmp)
            if rc != 0:
                bad.append('%s(rc=%d: %s)' % (p, rc, (lines[0] if lines else '')[:200]))
    finally:
        shutil.rmtree(tmp, ignore_errors=True)
    return name, ' '.join(bad) or 'all %d checks exit 0' % len(props), not bad


def main():
    kind = sys.argv[1]
    base = 'seeded' if kind == 'seeds' else 'benign'
    names = sys.argv[2:] or sorted(os.listdir(os.path.join(V, base)))
    job = job_seed if kind == 'seeds' else job_benign
    ok = True
    with cf.ProcessPoolExecutor(max_workers=int(os.environ.get('JOBS', '14'))) as ex:
        for name, msg, good in ex.map(job, names):
            print('%s: %s' % (name, msg), flush=True)
            ok &= good
    print('ALL-AS-EXPECTED' if ok else 'SOME-UNEXPECTED')
    return 0 if ok else 1


if __name__ == '__main__':
    sys.exit(main())
