#!/bin/bash
# usage: tools/check_parent.sh Cxx [rev]  -- run a check on a committed revision of /repo (default HEAD, i.e. without uncommitted fixes)
P=$1; REV=${2:-HEAD}
rm -rf /tmp/par; git -C /repo worktree prune
git -C /repo worktree add -q --detach /tmp/par $REV || exit 3
cd /verif; ./check $P --tier quick --root /tmp/par --no-evidence 2>&1 | grep -E "^RESULT|^VIOLATION|^FINDING|^ANALYSIS" | head -${3:-8}
git -C /repo worktree remove --force /tmp/par
