"""Authoring helper: regenerate the tables of DESIGN.md section 12.4 (between the FIXES / KNOWN markers) from known_findings.json."""
import json, re, collections, os
V = os.path.dirname(os.path.dirname(os.path.abspath(__file__)))
d = json.load(open(os.path.join(V, 'known_findings.json')))
rows = []
for x in d['fixed']:
    m = re.match(r'fixed: property=(C\d\d) (\S+) (.*)$', x)
    prop, commit, rest = m.groups()
    rule = ''
    m2 = re.search(r'\((rules? [^()]*(?:\([^()]*\)[^()]*)*)\)\s*$', rest)
    if m2:
        rule = m2.group(1)
        rest = rest[:m2.start()].rstrip()
    rows.append((prop, commit, rest.replace('|', '\\|'), rule.replace('|', '\\|')))
out = ['| property | commit | what failed | reported by |', '|---|---|---|---|']
for r in rows:
    out.append('| %s | %s | %s | %s |' % r)
fixes = '\n'.join(out)
c = collections.OrderedDict()
for f in d['findings']:
    c.setdefault(f['property'], collections.Counter())[f['rule']] += 1
kn = []
for p, cc in sorted(c.items()):
    kn.append('* %s (%d): %s' % (p, sum(cc.values()), ', '.join('%s x%d' % (r, n) for r, n in sorted(cc.items()))))
known = '\n'.join(kn)
p = os.path.join(V, 'DESIGN.md')
s = open(p).read()
s = re.sub(r'<!-- FIXES-BEGIN -->.*?<!-- FIXES-END -->', '<!-- FIXES-BEGIN -->\n' + fixes.replace('\\', '\\\\') + '\n<!-- FIXES-END -->', s, flags=re.S)
s = re.sub(r'<!-- KNOWN-BEGIN -->.*?<!-- KNOWN-END -->', '<!-- KNOWN-BEGIN -->\n' + known + '\n<!-- KNOWN-END -->', s, flags=re.S)
open(p, 'w').write(s)
print(len(rows), 'fixes;', sum(sum(cc.values()) for cc in c.values()), 'known findings')
