#!/venv/bin/python
"""Authoring tool: create one scratch git worktree of /repo per property under /tmp/wt/S-Cxx with _seed/TASK.md
(the property text and one-line descriptions of the changes earlier rounds already produced).  The sub-agent gets nothing from /verif."""
import json, os, subprocess, sys, glob
props = [json.loads(l) for l in open('/verif/properties.jsonl')]
only = sys.argv[1:]
for p in props:
    if only and p['id'] not in only:
        continue
    d = '/tmp/wt/S-%s' % p['id']
    if not os.path.isdir(d):
        subprocess.run(['git', '-C', '/repo', 'worktree', 'add', '--detach', d, 'HEAD'], check=True, capture_output=True)
    os.makedirs(d + '/_seed', exist_ok=True)
    earlier = []
    for sd in sorted(glob.glob('/verif/seeded/%s-*' % p['id'])):
        note = ''
        if os.path.exists(sd + '/note.txt'):
            note = ' '.join(open(sd + '/note.txt').read().split())[:260]
        earlier.append('- %s: %s' % (os.path.basename(sd)[4:], note))
    txt = """# Task

You are working in a scratch git worktree of the miasmX repository (pure-Python x86/PPC assembler/disassembler, IR lifter, symbolic evaluator): %s
Work only inside this directory.  Do not read or write /repo or /verif.  Python: /venv/bin/python (run it with PYTHONPATH=%s so that this worktree is imported, and check that with `python -c "import miasmx; print(miasmx.__file__)"`).

## The property

**%s - %s**

%s

Quantifier: %s

Why the test suite cannot settle it: %s

Anchors (where the behaviour lives): %s

## What to produce

A *realistic* change to the library source (under miasmx/ or ply/; never tests/) that **breaks this property** while
- the code still imports and the whole test suite still passes:  `cd %s && /venv/bin/python -m pytest -q -p no:cacheprovider --timeout=900 tests` (278 passed),
- it looks like something a maintainer could plausibly commit (a refactoring that loses a case, an optimisation, a cache, a clean-up, a helper extracted slightly wrong, a boundary that moves by one), not a sabotage one-liner in an obvious place,
- it **needs something specific to manifest**: a particular operand kind, width, prefix, ordering of two calls, boundary value, aliasing of two arguments ... so that a casual run does not show it,
- it is different in kind and place from the changes earlier rounds already produced (listed below) - look for a mechanism none of them uses and a part of the anchored code none of them touches.

Write three files in `_seed/` (this directory already exists):
- `_seed/patch.diff`: `git diff` of your change (only library files; make sure `_seed/` itself is not in the diff),
- `_seed/demo.py`: a script run as `PYTHONPATH=<tree> /venv/bin/python _seed/demo.py` that exits 0 on the unchanged tree and exits 1 (printing what went wrong) with your change: it demonstrates the property violation through the public API,
- `_seed/note.txt`: 5-15 lines: what was changed, the defect, why the property breaks, what it needs to manifest, what is not affected.

Verify before finishing: (1) tests pass with the change, (2) demo exits 1 with the change, (3) on the unchanged tree the demo exits 0: `git diff -- miasmx ply > /tmp/<your-worktree-name>.diff; git apply -R /tmp/<your-worktree-name>.diff; <run demo>; git apply /tmp/<your-worktree-name>.diff` (never `git stash`: the stash is shared by every worktree of the repository and other agents work in parallel), and the worktree contains your change when you finish.

## Changes earlier rounds already produced for this property (do not repeat these)

%s
""" % (d, d, p['id'], p['title'], p['statement'], p['quantifier']['text'], p['why_tests_cant'], json.dumps(p['anchors'])[:1500], d, '\n'.join(earlier))
    open(d + '/_seed/TASK.md', 'w').write(txt)
    print(d, len(earlier), 'earlier')
