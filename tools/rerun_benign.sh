#!/bin/bash
# usage: tools/rerun_benign.sh [name...]  -- behaviour-preserving edits of /repo (benign/<name>/patch.diff): every check must stay at exit 0
cd /verif
NAMES=${@:-$(ls benign)}
for n in $NAMES; do
  git -C /repo apply /verif/benign/$n/patch.diff || { echo "$n: patch no longer applies"; git -C /repo checkout -- .; continue; }
  BAD=""
  for i in 01 02 03 04 05 06 07 08 09 10 11 12 13 14 15 16 17 18 19; do
    ./check C$i --tier quick --no-evidence > /tmp/benign_out.txt 2>&1; RC=$?
    if [ $RC -ne 0 ]; then BAD="$BAD C$i(rc=$RC: $(grep -E '^(FINDING|ANALYSIS-ERROR)' /tmp/benign_out.txt | head -1 | cut -c1-160))"; fi
  done
  git -C /repo checkout -- .
  echo "$n: ${BAD:-all 19 checks exit 0}"
done
