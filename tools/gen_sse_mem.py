"""Authoring helper (never run by a check): prints, for every MMX/SSE unit of ref/ia32_opcodes.ref and mandatory prefix, the width of the memory
operand as GNU objdump (binutils of the image) renders it -- the source of the `mem` clauses of the ref, each reviewed against the SDM
operand notation (m8/m16/m32/m64/m128) before it was written into the ref.   usage: python3 tools/gen_sse_mem.py [--write]"""
import os, re, subprocess, sys, tempfile
REF = os.path.join(os.path.dirname(os.path.dirname(os.path.abspath(__file__))), 'ref', 'ia32_opcodes.ref')
W = {'BYTE': 8, 'WORD': 16, 'DWORD': 32, 'QWORD': 64, 'XMMWORD': 128, 'FWORD': 48, 'TBYTE': 80}
PB = {'np': [], '66': [0x66], 'f3': [0xF3], 'f2': [0xF2]}
lines = open(REF).read().split('\n')
units = []
for i, line in enumerate(lines):
    if ' : sse ' not in line or line.startswith('#'):
        continue
    left, right = line.split(' : ', 1)
    toks = left.split()
    if toks[-1].startswith('/'):
        continue
    opc = [int(t, 16) for t in toks]
    parts = [p.strip() for p in right.split(';')]
    names = dict(t.split('=') for t in parts[0].split()[1:])
    ib = 'ib' in parts[1:]
    units.append((i, opc, names, ib))
d = tempfile.mkdtemp()
src = os.path.join(d, 'a.s')
with open(src, 'w') as f:
    for i, opc, names, ib in units:
        for pk in names:
            bs = PB[pk] + opc + [0x00] + ([0x11] if ib else []) + [0x90] * 8
            f.write('.byte ' + ','.join('0x%02x' % b for b in bs) + '\n')
subprocess.check_call(['as', '--32', '-o', os.path.join(d, 'a.o'), src])
out = subprocess.check_output(['objdump', '-d', '-M', 'intel', '-w', os.path.join(d, 'a.o')], text=True)
dis = {}
for l in out.split('\n'):
    m = re.match(r'\s*([0-9a-f]+):\s+((?:[0-9a-f]{2} )+)\s*(.*)$', l)
    if m:
        dis[int(m.group(1), 16)] = (len(m.group(2).split()), m.group(3).strip())
off = 0
res = {}
for i, opc, names, ib in units:
    for pk in names:
        n = len(PB[pk]) + len(opc) + 1 + (1 if ib else 0)
        ln, txt = dis.get(off, (None, '(unaligned)'))
        m = re.search(r'\b(BYTE|WORD|DWORD|QWORD|XMMWORD|FWORD|TBYTE) PTR', txt)
        w = str(W[m.group(1)]) if (m and ln == n) else ('-' if ln == n and '[' in txt else '?')
        res.setdefault(i, []).append('%s=%s' % (pk, w))
        off += n + 8
for i, opc, names, ib in units:
    clause = 'mem ' + ' '.join(res[i])
    print(lines[i].split(' : ')[0].ljust(12), clause)
    if '--write' in sys.argv:
        base = re.sub(r'\s*;\s*mem [^;]*', '', lines[i])
        lines[i] = base + ' ; ' + clause
if '--write' in sys.argv:
    open(REF, 'w').write('\n'.join(lines))
