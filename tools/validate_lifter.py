"""Authoring-time validation of the E4 model (NOT used by any check): for every form instance, build the byte string the
form stands for, decode and lift it with the real miasmX, and compare the printed IR with the template the static
partial evaluator derives (concrete immediates 0x11 / 0x1122 / 0x11223344)."""
import sys, os, collections
sys.path.insert(0, os.path.dirname(os.path.dirname(os.path.abspath(__file__))))
from sa.srcmodel import Ctx
from sa.liftforms import LifterModel
from sa.lifter import LiftError, Term, TAff, TSlice, TCompose, get_size

def mstr(t):
    k = t.kind
    if k == 'Int':
        v = t.mod.val
        return '0x%X' % v
    if k == 'Id':
        return str(t.name)
    if k == 'Mem':
        if t.segm is not None:
            return '%s:@%d[%s]' % (mstr(t.segm), t.size, mstr(t.arg))
        return '@%d[%s]' % (t.size, mstr(t.arg))
    if k == 'Op':
        if t.op in ['+', '*', '^', '&', '|']:
            return '(' + t.op.join(mstr(x) for x in t.args) + ')'
        if len(t.args) == 0:
            return '(%s)' % t.op
        if len(t.args) == 1:
            return '(%s %s)' % (t.op, mstr(t.args[0]))
        if len(t.args) == 2:
            return '(%s %s %s)' % (mstr(t.args[0]), t.op, mstr(t.args[1]))
        return t.op + '(' + ', '.join(mstr(x) for x in t.args) + ')'
    if k == 'Cond':
        return '%s?(%s,%s)' % (mstr(t.cond), mstr(t.src1), mstr(t.src2))
    if k == 'Slice':
        return '%s[%d:%d]' % (mstr(t.arg), t.start, t.stop)
    if k == 'Compose':
        return '(' + ', '.join('%s,%d,%d' % (mstr(x[0]), x[1], x[2]) for x in t.args) + ')'
    if k == 'Aff':
        dst, src = t.dst, t.src
        if dst.kind == 'Slice':
            full = dst.arg
            size = full.size
            rest = []
            if not (dst.start == dst.stop):
                if dst.start != 0: rest.append((0, dst.start))
                if dst.stop < size: rest.append((dst.stop, size))
            else:
                rest = [(0, size)]
            alla = sorted([(src, dst.start, dst.stop)] + [(TSlice(full, a, b), a, b) for a, b in rest], key=lambda x: x[1])
            return '%s = %s' % (mstr(full), mstr(TCompose(alla)))
        return '%s = %s' % (mstr(dst), mstr(src))
    return '?'

def build_bytes(L, inst):
    X, E, afs = L.X, L.X.env, L.X.afs
    row, opc = inst.row, list(inst.opc)
    b = []
    if inst.opmode == 'u16' and not inst.modifs.get(E['mmx']):
        b.append(0x66)
    b += list(inst.prefix)
    rmr = E['rmr']
    form = inst.form.split(';')[0]
    if isinstance(row.afs, int):
        b += opc[:-1]
        if form.startswith('rm=reg'): b.append(0xC0 | opc[-1] | int(form[6:]))
        else: b += [0x80 | opc[-1] | 5, 0x44, 0x33, 0x22, 0x11]
    elif row.afs == E['reg']:
        b += opc[:-1] + [opc[-1] | int(form[2:])]
    elif row.afs == E['cond']:
        b += opc
    else:
        b += opc
    if rmr in row.rm and not isinstance(row.afs, int) and row.afs != E['reg']:
        if 'rm=reg' in form: b.append(0xC0 | (1 << 3) | 2)
        else: b += [0x80 | (1 << 3) | 5, 0x44, 0x33, 0x22, 0x11]
    w8 = inst.modifs.get(E['w8']); se = inst.modifs.get(E['se'])
    for dib in row.rm:
        if dib in (E['u08'], E['s08']): b += [0x11]
        elif dib in (E['u16'], E['s16']): b += [0x22, 0x11]
        elif dib in (E['u32'], E['s32']):
            b += [0x44, 0x33, 0x22, 0x11] if inst.opmode == 'u32' else [0x22, 0x11]
        elif dib in (E['imm'], E['ims']):
            if se or w8: b += [0x11]
            elif inst.opmode == 'u32': b += [0x44, 0x33, 0x22, 0x11]
            else: b += [0x22, 0x11]
        elif dib == E['mim']: b += [0x44, 0x33, 0x22, 0x11]
    return bytes(b)

def main():
    from miasmx.arch.ia32_arch import x86mnemo
    from miasmx.tools import emul_helper
    from miasmx.expression.expression import ExprInt
    from miasmx.tools.modint import uint32
    L = LifterModel(Ctx('/repo'), opmodes=('u32', 'u16'), rich=True, concrete=True)
    stats = collections.Counter()
    bad = []
    for inst in L.instances:
        L.lift(inst)
        if inst.func is None:
            stats['nosem'] += 1
            continue
        bs = build_bytes(L, inst)
        try:
            i = x86mnemo.dis(bs)
        except Exception as e:
            i = ('EXC', e)
        if i is None:
            stats['real-rejects'] += 1
            bad.append(('REJECT', inst.key(), bs.hex()))
            continue
        if isinstance(i, tuple):
            stats['real-dis-exception'] += 1
            continue
        if i.l != len(bs) or i.m.name != inst.name:
            stats['byte-model-mismatch'] += 1
            bad.append(('BYTES', inst.key(), bs.hex(), i.m.name, i.l))
            continue
        try:
            real = [str(x) for x in emul_helper.get_instr_expr(i, ExprInt(uint32(0x1000)), [])]
            rerr = None
        except Exception as e:
            real, rerr = None, type(e).__name__
        if inst.unknown:
            stats['model-unknown'] += 1
            bad.append(('UNKNOWN', inst.key(), inst.unknown))
            continue
        dec, r = inst.results[0]
        if isinstance(r, LiftError):
            if rerr == r.exc:
                stats['agree-error'] += 1
            else:
                stats['DISAGREE-error'] += 1
                bad.append(('ERR', inst.key(), bs.hex(), 'model', r.exc, r.msg[:60], 'real', rerr, real and real[:2]))
            continue
        if rerr:
            stats['DISAGREE-real-error'] += 1
            bad.append(('REALERR', inst.key(), bs.hex(), rerr))
            continue
        if len(inst.results) > 1:
            stats['forked'] += 1
        mine = None
        ok = False
        for dec, r in inst.results:
            if isinstance(r, LiftError): continue
            try:
                mine = [mstr(x) for x in r]
            except Exception as e:
                mine = None
                ok = True
                stats['unprintable'] += 1
            if mine is not None and mine == real:
                ok = True
        if ok:
            stats['agree'] += 1
        else:
            stats['DISAGREE'] += 1
            bad.append(('IR', inst.key(), bs.hex(), mine[:3], real[:3]))
    print(stats)
    for b in [x for x in bad if x[0] != 'BYTES'][:70] + [x for x in bad if x[0] == 'BYTES'][:10]:
        print(b)

main()
