#!/bin/bash
# usage: tools/scratch.sh <patch.diff>   -> prints the path of a patched scratch copy of /repo's working tree (remove it yourself)
T=$(mktemp -d /tmp/sa_scr_XXXXXX)
for p in miasmx ply tests; do cp -r /repo/$p $T/$p; done
find $T -name __pycache__ -type d -exec rm -rf {} + 2>/dev/null
( cd $T && git apply "$1" ) || { echo "patch does not apply" >&2; rm -rf $T; exit 1; }
echo $T
