#!/bin/bash
# usage: tools/try_seed.sh <Cxx> <worktree> <seed-name>
# Confirms a seeded change (tests pass with it, demo fails with it and passes without), stores it under
# /verif/seeded/<seed-name>/, applies it to /repo, runs the property's check, undoes it.
set -u
P=$1; WT=$2; NAME=$3
PY=/venv/bin/python
D=/verif/seeded/$NAME
mkdir -p $D
[ -f $WT/_seed/patch.diff ] && cp $WT/_seed/patch.diff $WT/_seed/demo.py $WT/_seed/note.txt $D/ 2>/dev/null
cd $WT
git checkout -q -- .
git status --short | grep -v _seed | head
# original: demo passes
PYTHONPATH=$WT $PY $D/demo.py >/dev/null 2>&1; ORIG=$?
git apply $D/patch.diff || { echo "PATCH DOES NOT APPLY in worktree"; exit 3; }
PYTHONPATH=$WT $PY $D/demo.py >/dev/null 2>&1; CHG=$?
TESTS=$($PY -m pytest -q -p no:cacheprovider --timeout=900 2>&1 | tail -1)
IMP=$($PY -c "import miasmx;print(miasmx.__file__)")
echo "demo original rc=$ORIG changed rc=$CHG tests: $TESTS import: $IMP"
cd /verif
git -C /repo apply $D/patch.diff || { echo "PATCH DOES NOT APPLY to /repo"; git -C /repo checkout -- .; exit 4; }
./check $P --no-evidence > $D/check_output.txt 2>&1; RC=$?
git -C /repo checkout -- .
grep -E "^(FINDING|VIOLATION|ANALYSIS-ERROR|RESULT)" $D/check_output.txt | head -8
echo "check rc=$RC"
cat > $D/meta.json <<EOM
{"property": "$P", "seed": "$NAME",
 "demo_rc_original": $ORIG, "demo_rc_changed": $CHG, "tests_with_change": "$TESTS",
 "check_cmd": "./check $P --tier quick", "check_rc_with_change": $RC,
 "detected": $( [ $RC -eq 1 ] && echo true || echo false ),
 "ran": "git -C /repo apply seeded/$NAME/patch.diff; ./check $P; git -C /repo checkout -- ."}
EOM
