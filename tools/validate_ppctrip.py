"""Authoring-time validation (never run by a check): compare the static PPC trip evaluator with the real module on every sampled vector."""
import sys, collections, itertools, io, contextlib, struct
sys.path.insert(0, '/verif')
sys.path.insert(0, '/repo')
from sa.srcmodel import Ctx
from sa.ppctable import PpcModel
from sa.ppctrip import Trip
from sa.ppcbranch import Raised
from sa.core import AnalysisError
from sa.props.c18 import trip_vectors
ctx = Ctx('/repo', tier='thorough')
P = PpcModel(ctx); T = Trip(ctx, P)
from miasmx.arch import ppc_arch as real
agree = disagree = 0
for cname in P.tab_mn:
    if cname in ('ppc_bc', 'ppc_bctr'):
        continue
    fields = P.fields(cname)
    var, vecs = trip_vectors(P, cname, fields)
    for raw in vecs:
        word = 0
        for i, f in enumerate(fields):
            v = int(f.fbits, 2) if f.fbits is not None else raw[i]
            word |= v << (32 - f.start - f.l)
        # model
        try:
            text, (kind, out) = T.trip(cname, fields, raw)
            if kind == 'classes':
                model = ('classes', tuple(out))
            else:
                w2 = 0
                for i, f in enumerate(fields):
                    v = int(f.fbits, 2) if f.fbits is not None else out[i]
                    w2 |= (v & ((1 << f.l) - 1)) << (32 - f.start - f.l)
                model = ('word', w2)
        except Raised as e:
            model = ('raises', e.exc_name)
        # real
        try:
            with contextlib.redirect_stdout(io.StringIO()):
                m = getattr(real, cname)(word)
                txt = str(m)
                b = real.ppc_mn.asm(txt)[0]
            realr = ('word', struct.unpack('>L', b)[0])
        except Exception as e:
            realr = ('raises', type(e).__name__)
        ok = model == realr or (model[0] == 'classes' and realr == ('raises', 'ValueError')) or (model[0] == 'raises' and realr[0] == 'raises')
        if ok:
            agree += 1
        else:
            disagree += 1
            if disagree < 15:
                print('DISAGREE', cname, raw, hex(word), 'model', model, 'real', realr)
print('agree', agree, 'disagree', disagree)
