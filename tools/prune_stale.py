"""Authoring helper (never run by a check): drop known findings of a property that its rule no longer reports
(after a fix: commit in /repo); prints them so that they can be recorded under "fixed".
usage: python tools/prune_stale.py Cxx [--write]"""
import json, sys, os
sys.path.insert(0, os.path.dirname(os.path.dirname(os.path.abspath(__file__))))
from sa import core
prop = sys.argv[1]
code, violations, knowns = core.run_property(prop, 'thorough', '/repo', write_evidence=False, quiet=True)
seen = set(f.ident() for f in knowns)
p = os.path.join(core.VERIF, 'known_findings.json')
k = json.load(open(p))
keep, stale = [], []
for f in k['findings']:
    if f['property'] == prop and (f['property'], f['rule'], f['key']) not in seen:
        stale.append(f)
    else:
        keep.append(f)
for f in stale:
    print('STALE', f['rule'], f['key'])
if '--write' in sys.argv:
    k['findings'] = keep
    json.dump(k, open(p, 'w'), indent=1)
    print('removed', len(stale))
