#!/bin/bash
# usage: runrepro.sh Cxx n   -- run a saved hunt reproducer against /repo
P=$1; N=$2
rm -rf /tmp/rr/*; cp /verif/hunts/$P/*.py /tmp/rr/ 2>/dev/null
sed -i "s#/tmp/wth_$P#/repo#g" /tmp/rr/*.py
cd /tmp/rr; PYTHONPATH=/repo /venv/bin/python repro_$N.py > /tmp/rr/out.txt 2>&1; RC=$?
echo "repro $P/$N rc=$RC: $(tail -2 /tmp/rr/out.txt | cut -c1-200 | tr '\n' ' ')"
