"""Authoring helper: list mutants of a property that are skipped or missed. usage: python tools/mutstat.py Cxx"""
import sys, os
sys.path.insert(0, os.path.dirname(os.path.dirname(os.path.abspath(__file__))))
from sa import selftest as st
for prop in sys.argv[1:]:
    r = st.run_battery(prop, '/repo', 'thorough')
    for d in r['details']:
        if d.get('status') != 'detected':
            print(prop, d)
    print(prop, 'total', r['total'], 'detected', r['detected'], 'skipped', r['skipped'], 'missed', len(r['missed']))
