#!/venv/bin/python
"""Authoring tool: scratch worktrees /tmp/wt/B-<n> with _out/TASK.md for the no-alarm battery (behaviour-preserving edits).  Nothing from /verif is given to the sub-agent."""
import os, subprocess, sys
AREAS = {
 1: ("decoder tail and table construction (miasmx/arch/ia32_arch.py)", "x86allmncs.addop and the addop(...) rows (e.g. keyword arguments, a local alias, reordered rows), the loop at the end of x86_mn._dis that completes the decoded operands (segment override, immediate size, memory size), x86_mn._dis places that read mnemo_args / dib_out, is_imm / is_reg / is_address"),
 2: ("renderer (miasmx/arch/ia32_arch.py)", "x86_mn.__str__ as a whole (prefix naming, SSE suffix, operand elision for string instructions, x87 implicit st, AT&T branch), mmx_set_suffix, dict_to_ad, mnemo_to_att"),
 3: ("assembler front (miasmx/arch/ia32_arch.py)", "x86_mn.asm_candidates from its first statement to the point where self.mnemo_mode is set (segment prefix extraction, name special cases, candidate search, the 16/32-bit vote), check_imm_size, ad_to_generic"),
 4: ("lifter operands and x87 (miasmx/arch/ia32_sem.py)", "dict_to_Expr (register files, memory operand address arithmetic, scale factors), float_pop / float_prev / float_popped_result / float_push, faddp .. fdivrp, fxch, fstp, MMXnoflags and the mnemo_func table for MMX/SSE rows"),
 5: ("symbolic evaluator (miasmx/expression/expression_eval_abstract.py)", "mpool (copy, __setitem__, mem_key ...), eval_abs.eval_ExprCond / eval_ExprSlice / eval_ExprCompose / eval_ExprMem, get_mem_overlapping, substract_mems, eval_instr"),
 6: ("simplifier and IR (miasmx/expression/expression_helper.py, expression.py)", "_expr_simp rules for '^' '+' and shifts, the TODO-commented places, tab_max_uint and other module tables, expr_simp / expr_simp_w, canonize, ExprOp / ExprCond / ExprSlice methods (copy, visit, __eq__, __hash__, get_r)"),
 7: ("Intel / AT&T parsers and emulation helper (miasmx/core/parse_ad.py, miasmx/arch/ia32_att.py, miasmx/tools/emul_helper.py)", "p_ptrformula_1 / p_ptrformula_2 and the other grammar actions WITHOUT touching their docstrings, parse_ad / parse_args, get_instr_expr / get_instr_expr_args / emul_lines (e.g. helper extraction, but no caching)"),
 8: ("PowerPC (miasmx/arch/ppc_arch.py) and modint (miasmx/tools/modint.py)", "ppc_b / ppc_bc / ppc_bctr: getname, args2str, getdstflow, parse_opts, parse_args, check_mnemo; the bit-field classes (bm, bm_set ...); moduint/modint operators and maxcast"),
}
for n, (area, funcs) in AREAS.items():
    if len(sys.argv) > 1 and str(n) not in sys.argv[1:]:
        continue
    d = '/tmp/wt/B-%d' % n
    if not os.path.isdir(d):
        subprocess.run(['git', '-C', '/repo', 'worktree', 'add', '--detach', d, 'HEAD'], check=True, capture_output=True)
    os.makedirs(d + '/_out', exist_ok=True)
    open(d + '/_out/TASK.md', 'w').write("""# Task

You are in a scratch git worktree of the miasmX repository (pure-Python x86/PPC assembler/disassembler, IR lifter, symbolic evaluator): %(d)s
Work only inside this directory; do not read or write /repo or /verif.  Python: /venv/bin/python, always with PYTHONPATH=%(d)s (check with `python -c "import miasmx; print(miasmx.__file__)"`).
Test suite: `cd %(d)s && PYTHONPATH=%(d)s /venv/bin/python -m pytest -q -p no:cacheprovider --timeout=900 tests` (278 passed).

Area: **%(area)s**.  Functions to work on: %(funcs)s.

Produce **8 independent behaviour-preserving edits** of the library source in that area - the kind of refactoring a maintainer does without changing any observable behaviour:
helper extraction (function or method), inlining a helper, if/elif chain <-> table lookup, early returns <-> nested ifs, De Morgan / reordered independent conditions, renamed locals,
loop <-> comprehension, a local alias for a repeated sub-expression, hoisting an invariant, reordering independent statements, conditional expression <-> if statement, splitting a long
function, moving a nested function to module level, keyword arguments <-> positional, removing dead code, `x in (a, b)` <-> `x == a or x == b`, moving a constant table to module level.
Each edit must touch a different function (or a clearly different part of a long one), be non-trivial (5-40 changed lines), and keep EVERY behaviour identical: return values, exceptions
raised and their types, mutation of arguments, iteration order, object identity where callers can observe it, state kept between calls (add no cache, no new default argument that is
mutable, no new class-level container).  Docstrings of PLY grammar functions (p_*, t_*) must stay byte-identical.

For each edit k = 1..8, starting each time from the unchanged tree (`git checkout -- .`):
1. make the edit; run the test suite (must be 278 passed);
2. write `_out/k.diff` (`git diff`, library files only);
3. write `_out/k_equiv.py`: a differential script that imports the edited function's behaviour on many inputs (hundreds to thousands: systematic enumeration of the relevant input
   space) and prints a deterministic transcript; run it on the unchanged tree and on the edited tree and compare the two transcripts - they must be identical;
4. write `_out/k.txt`: file and function, what was changed, why behaviour is identical (5-10 lines), and the result of steps 1 and 3.
Finish with the unchanged tree (`git checkout -- .`).  Reply with one line per edit: k, function, kind of edit, tests, transcript comparison.
""" % dict(d=d, area=area, funcs=funcs))
    print(d)
