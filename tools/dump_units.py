"""authoring helper: print the architectural units of the statically expanded opcode table"""
import sys
sys.path.insert(0, '/verif')
from sa.srcmodel import Ctx
from sa.x86table import model
ctx = Ctx("/repo", "quick")
X = model(ctx)
E = X.env
names = dict((E[k], k) for k in ('w8', 'se', 'sw', 'ww', 'sg', 'dr', 'cr', 'ft', 'w64', 'sd', 'wd') if k in E)
U = X.units()
for key in sorted(U, key=lambda k: (k[0], k[1])):
    cells = U[key]
    sigs = set()
    for c in cells:
        m = ','.join('%s=%s' % (names.get(k, k), int(v) if isinstance(v, bool) else v) for k, v in sorted(c.modifs.items(), key=lambda kv: str(kv[0])) if v is not None and k in names)
        other = ','.join('%s=%s' % (k, v) for k, v in sorted(c.modifs.items(), key=lambda kv: str(kv[0])) if v is not None and k not in names)
        sigs.add((c.name, c.row.afs_name(), str(c.rm), m, other))
    for s in sorted(sigs):
        print(' '.join('%02X' % b for b in key[0]), key[1], '|', ' | '.join(s))
