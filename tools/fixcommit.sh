#!/bin/bash
# usage: tools/fixcommit.sh "fix: message" [body]  -- run the pinned test-suite, commit /repo's working tree if 278 pass
cd /repo
OUT=$(/venv/bin/python -m pytest -ra -q -p no:cacheprovider --timeout=900 -x 2>&1 | tail -3)
echo "$OUT" | tail -1
if echo "$OUT" | grep -q "278 passed"; then
  git add -u; git commit -q -m "$1" ${2:+-m "$2"}; git log --oneline | head -1
else
  echo "NOT COMMITTED"; echo "$OUT"
fi
